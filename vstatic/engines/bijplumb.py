"""
Engine B -- plumbing of the isomorphism matcher and the parse-tree transport (isomorphism.py,
and the sibling matcher in bijection.py) -> C12, part of C13.

The matcher records, per matched pair of nodes, a permutation of child positions; the
transport reads it.  Both are written against a *convention* (which side's position is the
subscript, which side's position is the value) that only shows when a product has three or
more children matched by a non-involutive permutation -- no test has one.  The rules decide
that writer and reader agree, that the inverse data are the inverse, that both sides skip the
same (empty) children, that the ancestor / path bookkeeping is released on every exit, and
that the first/second specification keep their roles through every hand-over.

Sides are inferred from data flow, never from names: the side of an index variable is the
position of the argument of the recursive call in which it occurs; the side of anything else
is the position of the parameter (or constructor parameter) it derives from.
"""
from __future__ import annotations

import ast
from typing import Dict, List, Optional, Set, Tuple

from ..core import control as C
from ..core import dataflow as D
from ..core import pattern as PT
from ..core.program import AnalysisError, is_self_attr, norm, walk_local

ISO = "Isomorphism"
PTM = "ParseTreeMap"
BIJ = "Bijection"
PSF = "ParallelSpecFinder"


def _names(e: ast.AST) -> Set[str]:
    return {n.id for n in ast.walk(e) if isinstance(n, ast.Name)}


def _param_sides(f: ast.FunctionDef, first: int) -> Dict[str, int]:
    """Parameters first, first+1 (0-based, self included) are side 1 and side 2."""
    ps = D.param_names(f)
    if len(ps) < first + 2:
        raise AnalysisError(f"{f.name}: expected at least {first + 2} parameters")
    return {ps[first]: 1, ps[first + 1]: 2}


def _side_of(f, e: ast.AST, seeds: Dict[str, int], attr_sides: Dict[str, int], depth: int = 0) -> Set[int]:
    """Sides an expression derives from (through local definitions, tuple unpacking matched
    positionally when the value is a tuple display, and self attributes of known side)."""
    out: Set[int] = set()
    defs = D.definitions(f)
    for n in ast.walk(e):
        if isinstance(n, ast.Attribute) and isinstance(n.value, ast.Name) and n.value.id == "self" and n.attr in attr_sides:
            out.add(attr_sides[n.attr])
        if not isinstance(n, ast.Name):
            continue
        if n.id in seeds:
            out.add(seeds[n.id])
            continue
        if depth >= 6:
            continue
        for d in defs.get(n.id, []):
            stmt, val, path, kind = d
            if val is None or val is e:
                continue
            v = val
            if path and isinstance(val, ast.Tuple):
                ok = True
                for i in path:
                    if isinstance(v, ast.Tuple) and 0 <= i < len(v.elts):
                        v = v.elts[i]
                    else:
                        ok = False
                        break
                if not ok:
                    v = val
            elif path and isinstance(val, ast.Call) and len(path) == 1 and path[0] < len(val.args) and len(val.args) == 2 and kind == "assign":
                # a helper applied to (side-1 thing, side-2 thing) and unpacked into two names:
                # component i follows argument i (the helpers of the matcher are written side by side)
                v = val.args[path[0]]
            out |= _side_of(f, v, seeds, attr_sides, depth + 1)
    return out


def _one(s: Set[int], what: str, where: str) -> int:
    if len(s) != 1:
        raise AnalysisError(f"B: cannot tell which specification `{what}` belongs to in {where} (sides {sorted(s)})")
    return next(iter(s))


def _init_attr_sides(P, cls: str, first: int) -> Dict[str, int]:
    """self.<attr> assigned in __init__ from parameter `first` -> side 1, `first`+1 -> side 2."""
    m = P.need_method(cls, "__init__", own=True)
    seeds = _param_sides(m.node, first)
    out: Dict[str, int] = {}
    for n in walk_local(m.node):
        t, v = PT.assign_value(n)
        if t is not None and is_self_attr(t) and v is not None:
            s = {seeds[x] for x in _names(v) if x in seeds}
            if len(s) == 1:
                out[t.attr] = next(iter(s))
    return out


# ------------------------------------------------------------------ B1 writer / reader convention
def _writer_convention(ctx, rule: str, m, rec_name: str) -> Optional[Tuple[int, int, ast.AST]]:
    """In a matcher: the store `perm[A] = B` -> (side of A, side of B, store node)."""
    f = m.node
    rec = [c for c in walk_local(f) if isinstance(c, ast.Call) and norm(c.func) == f"self.{rec_name}" and len(c.args) >= 2]
    if not rec:
        raise AnalysisError(f"{rule}: {m.qualname} no longer calls itself on a pair of children")
    idx_side: Dict[str, int] = {}
    for c in rec:
        for pos in (0, 1):
            for x in ast.walk(c.args[pos]):
                if isinstance(x, ast.Subscript) and isinstance(x.slice, ast.Name):
                    idx_side.setdefault(x.slice.id, pos + 1)
                    if idx_side[x.slice.id] != pos + 1:
                        raise AnalysisError(f"{rule}: index `{x.slice.id}` is used on both sides of the recursive call in {m.qualname}")
    stores = []
    for n in walk_local(f):
        t, v = PT.assign_value(n)
        if isinstance(t, ast.Subscript) and isinstance(t.value, ast.Name) and isinstance(t.slice, ast.Name) and isinstance(v, ast.Name) \
                and t.slice.id in idx_side and v.id in idx_side:
            stores.append(n)
    if len(stores) != 1:
        ctx.violation(rule, f, f"{m.qualname} must record each matched pair of child positions exactly once in the permutation (found {len(stores)} stores)",
                      construct=f"{m.qualname} permutation store")
        return None
    st = stores[0]
    t, v = PT.assign_value(st)
    ctx.analysed(m)
    return idx_side[t.slice.id], idx_side[v.id], st


def _reader_convention_ptm(ctx, m) -> Tuple[int, int, ast.AST]:
    """ParseTreeMap.map_rec: children of which side are indexed by the permutation's values,
    and which side's children are walked positionally."""
    f = m.node
    seeds = _param_sides(f, 2)           # (self, obj, rule1, rule2)
    gens = [g for g in walk_local(f) if isinstance(g, (ast.GeneratorExp, ast.ListComp)) and len(g.generators) == 1 and isinstance(g.elt, ast.Subscript)
            and isinstance(g.elt.slice, ast.Name) and isinstance(g.generators[0].target, ast.Name) and g.generators[0].target.id == g.elt.slice.id]
    cands = []
    for g in gens:
        it = g.generators[0].iter
        # the iterable is the permutation: it (or a definition of it) is looked up in self.get_order
        srcs = [it] + [d[1] for d in D.definitions(f).get(it.id, []) if d[1] is not None] if isinstance(it, ast.Name) else [it]
        if any("get_order" in norm(s) for s in srcs):
            cands.append((g, srcs))
    if len(cands) != 1:
        raise AnalysisError(f"B1: cannot find the one place where {m.qualname} reorders children by the recorded permutation")
    g, srcs = cands[0]
    indexed = _one(_side_of(f, g.elt.value, seeds, {}), norm(g.elt.value), m.qualname)
    # positional side: the loop that consumes next(<that generator>)
    gname = None
    for n in walk_local(f):
        t, v = PT.assign_value(n)
        if v is g and isinstance(t, ast.Name):
            gname = t.id
    nexts = [c for c in walk_local(f) if isinstance(c, ast.Call) and norm(c.func) == "next" and c.args and (c.args[0] is g or (gname and norm(c.args[0]) == gname))]
    if not nexts:
        raise AnalysisError(f"B1: the reordered children of {m.qualname} are not consumed through next(...)")
    pos_sides: Set[int] = set()
    for nx in nexts:
        node = nx
        while node is not None and node is not f:
            node = getattr(node, "_parent", None)
            if isinstance(node, (ast.GeneratorExp, ast.ListComp)):
                for gen in node.generators:
                    pos_sides |= _side_of(f, gen.iter, seeds, {})
                break
            if isinstance(node, ast.For):
                pos_sides |= _side_of(f, node.iter, seeds, {})
                break
    positional = _one(pos_sides, "the children walked positionally", m.qualname)
    # key orientation of the look-up
    for s in srcs:
        for sub in ast.walk(s):
            if isinstance(sub, ast.Subscript) and "get_order" in norm(sub.value) and isinstance(sub.slice, ast.Tuple) and len(sub.slice.elts) == 2:
                k1 = _one(_side_of(f, sub.slice.elts[0], seeds, {}), norm(sub.slice.elts[0]), m.qualname)
                k2 = _one(_side_of(f, sub.slice.elts[1], seeds, {}), norm(sub.slice.elts[1]), m.qualname)
                if (k1, k2) == (1, 2):
                    ctx.ok("B1", f"{m.qualname}: the permutation is looked up under (class of the first rule, class of the second rule)")
                else:
                    ctx.violation("B1", sub, f"the permutation is looked up under `{norm(sub.slice)}`, i.e. (side {k1}, side {k2}); the matcher stores it under (first, second)")
    ctx.analysed(m)
    return positional, indexed, g


def b1_permutation_convention(ctx, include_sibling: bool = True, only_sibling: bool = False) -> None:
    P = ctx.P
    pairs = []
    if not only_sibling:
        w = P.need_method(ISO, "_are_isomorphic", own=True)
        r = P.need_method(PTM, "map_rec", own=True)
        wc = _writer_convention(ctx, "B1", w, "_are_isomorphic")
        rc = _reader_convention_ptm(ctx, r)
        pairs.append((w, r, wc, rc))
        # the key the permutation is stored under
        attr = _init_attr_sides(P, ISO, 1)
        f = w.node
        seeds = _param_sides(f, 1)
        for n in walk_local(f):
            t, v = PT.assign_value(n)
            if isinstance(t, ast.Subscript) and norm(t.value) == "self._order_map" and isinstance(t.slice, ast.Tuple) and len(t.slice.elts) == 2:
                sides = []
                for e in t.slice.elts:
                    # the side of a node variable: which rules table it indexes
                    s: Set[int] = set()
                    for x in walk_local(f):
                        if isinstance(x, ast.Subscript) and is_self_attr(x.value) and x.value.attr in attr and norm(x.slice) == norm(e):
                            s.add(attr[x.value.attr])
                    if not s:
                        s = _side_of(f, e, seeds, attr)
                    sides.append(_one(s, norm(e), w.qualname))
                if sides == [1, 2]:
                    ctx.ok("B1", "the matcher stores the permutation under (node of the first spec, node of the second)")
                else:
                    ctx.violation("B1", n, f"the permutation is stored under `{norm(t.slice)}` = (side {sides[0]}, side {sides[1]}); every reader looks it up under (first, second)")
    if include_sibling or only_sibling:
        w = P.need_method(PSF, "_find", own=True)
        wc = _writer_convention(ctx, "B1", w, "_find")
        # reader: zip((children1[i] for i in <perm>), children2) in _search_matching_info
        r = P.need_method(PSF, "_search_matching_info", own=True)
        rc = None
        for fn in ast.walk(r.node):
            if not isinstance(fn, ast.FunctionDef) or fn is r.node:
                continue
            for z in ast.walk(fn):
                if isinstance(z, ast.Call) and norm(z.func) == "zip" and len(z.args) == 2 and isinstance(z.args[0], (ast.GeneratorExp, ast.ListComp)):
                    g = z.args[0]
                    if isinstance(g.elt, ast.Subscript) and isinstance(g.elt.slice, ast.Name) and len(g.generators) == 1 and norm(g.generators[0].target) == g.elt.slice.id \
                            and "matching_info" in norm(g.generators[0].iter):
                        # sides: the key ((id1, id2))[(children1, children2)] tells which name is which
                        it = g.generators[0].iter
                        key = it.slice if isinstance(it, ast.Subscript) else None
                        if not (isinstance(key, ast.Tuple) and len(key.elts) == 2):
                            raise AnalysisError("B1: the sibling reader's permutation look-up is not keyed by a pair of children tuples")
                        side = {norm(key.elts[0]): 1, norm(key.elts[1]): 2}
                        ind = side.get(norm(g.elt.value))
                        pos = side.get(norm(z.args[1]))
                        if ind is None or pos is None:
                            raise AnalysisError("B1: cannot tell the sides of the sibling reader's zip")
                        rc = (pos, ind, z)
        if rc is None:
            raise AnalysisError("B1: the reader of the parallel finder's permutations was not found")
        ctx.analysed(r)
        pairs.append((w, r, wc, rc))
    for w, r, wc, rc in pairs:
        if wc is None:
            continue
        sw, vw, st = wc
        sr, vr, rd = rc
        if (sw, vw) == (sr, vr):
            ctx.ok("B1", f"{w.qualname} writes perm[position in spec {sw}] = position in spec {vw}; {r.qualname} walks spec {sr} positionally and indexes spec {vr} by the entries")
        else:
            ctx.violation("B1", st, f"{w.qualname} records perm[position in spec {sw}] = position in spec {vw}, but {r.qualname} walks spec {sr}'s children positionally and "
                          f"indexes spec {vr}'s children by the entries: for a permutation that is not its own inverse the wrong children are paired")
        if sw == vw:
            ctx.violation("B1", st, "both positions of the recorded pair belong to the same specification")


# ------------------------------------------------------------------ B2 inverse data and argument order
def b2_inverse_data(ctx) -> None:
    P = ctx.P
    m = P.need_method(BIJ, "_perm_inv", own=True)
    ctx.analysed(m)
    f = m.node
    p = [x for x in D.param_names(f) if x not in ("self", "cls")][0]
    ok = False
    for lp in walk_local(f):
        if isinstance(lp, ast.For) and isinstance(lp.iter, ast.Call) and norm(lp.iter.func) == "enumerate" and len(lp.iter.args) == 1 and norm(lp.iter.args[0]) == p \
                and isinstance(lp.target, ast.Tuple) and len(lp.target.elts) == 2:
            i, v = (norm(e) for e in lp.target.elts)
            for st in walk_local(lp):
                t, val = PT.assign_value(st)
                if isinstance(t, ast.Subscript) and val is not None:
                    if norm(t.slice) == v and norm(val) == i:
                        ok = True
                        res = norm(t.value)
                    else:
                        ctx.violation("B2", st, f"_perm_inv must set inv[{v}] = {i} for (i, v) in enumerate(perm); found `{norm(st)}`")
                        return
    rets = [r for r in C.returns_of(f) if r.value is not None]
    if ok and len(rets) == 1 and norm(rets[0].value) == res:
        init = [d for d in D.definitions(f).get(res, []) if d[1] is not None]
        if init and (f"len({p})" in norm(init[0][1]) or norm(init[0][1]) in (f"list({p})", f"{p}[:]", f"{p}.copy()")):
            ctx.ok("B2", "_perm_inv builds the inverse permutation (inv[v] = i), of the same length")
        else:
            ctx.violation("B2", f, "_perm_inv must start from a list of len(perm) entries", construct=f"{BIJ}._perm_inv length")
    elif ok:
        ctx.violation("B2", f, "_perm_inv must return the list it fills", construct=f"{BIJ}._perm_inv return")
    else:
        # closed forms
        v = D.expanded(f, rets[0].value) if len(rets) == 1 else None
        t = norm(v) if v is not None else ""
        n_ = f"len({p})"
        good = {f"[{p}.index(_i) for _i in range({n_})]", f"sorted(range({n_}), key={p}.__getitem__)", f"sorted(range({n_}), key=lambda _i: {p}[_i])"}
        same = {f"sorted(range({n_}), key={p}.index)", f"[{p}[_i] for _i in range({n_})]", f"list({p})", f"{p}[:]", f"{p}.copy()", p}
        # compare modulo the name of the bound variable
        import re as _re
        tt = t
        mvar = _re.search(r"for (\w+) in range|lambda (\w+):", t)
        if mvar:
            nm = mvar.group(1) or mvar.group(2)
            tt = _re.sub(rf"\b{nm}\b", "_i", t)
        if tt in good:
            ctx.ok("B2", f"_perm_inv returns the inverse permutation in closed form (`{t}`)")
        elif tt in same:
            ctx.violation("B2", rets[0], f"_perm_inv returns `{t}`, which is the permutation itself (position j holds perm[j]), not its inverse: right only for involutions; a "
                          "matching that permutes three children cyclically is transported back to the wrong children")
        else:
            raise AnalysisError("B2: _perm_inv is written in a way the analysis does not know")
    init = P.need_method(BIJ, "__init__", own=True)
    ctx.analysed(init)
    f = init.node
    ps = D.param_names(f)   # self, spec, other, get_order, index_data
    if len(ps) < 5:
        raise AnalysisError("B2: Bijection.__init__(spec, other, get_order, index_data) expected")
    spec, other, go, idata = ps[1:5]
    inv = PT.find_all(f, f"self._get_inverse_order = {{(_M_b, _M_a): _E_v for (_M_a, _M_b), _M_l in {go}.items()}}")
    if inv:
        b = inv[0][1]
        if b["_E_v"] in (f"Bijection._perm_inv({b['_M_l']})", f"self._perm_inv({b['_M_l']})", f"{BIJ}._perm_inv({b['_M_l']})"):
            ctx.ok("B2", "inverse order map: key swapped and permutation inverted")
        else:
            ctx.violation("B2", inv[0][0], f"the inverse order map must hold _perm_inv of each permutation; found `{b['_E_v']}` (a non-involutive permutation maps back to the wrong children)")
    else:
        same = PT.find_all(f, f"self._get_inverse_order = {{(_M_a, _M_b): _E_v for (_M_a, _M_b), _M_l in {go}.items()}}")
        if same:
            ctx.violation("B2", same[0][0], "the inverse order map keeps the keys in (first, second) orientation; the inverse transport looks them up as (second, first)")
        else:
            raise AnalysisError("B2: Bijection.__init__ builds the inverse order map in a way the analysis does not know")
    invd = PT.find_all(f, "self._inv_index_data = {(_M_b, _M_a): _M_d for (_M_a, _M_b), _M_d in self._index_data.items()}")
    if invd:
        ctx.ok("B2", "inverse index data: key swapped, data kept")
    else:
        ctx.violation("B2", f, "self._inv_index_data must be the index data re-keyed by (second, first)", construct=f"{BIJ}.__init__ inverse index data")
    held = {}
    for n in walk_local(f):
        t, v = PT.assign_value(n)
        if t is not None and is_self_attr(t) and isinstance(v, ast.Name):
            held[t.attr] = v.id
    if held.get("_spec") == spec and held.get("_other") == other and held.get("_get_order") == go:
        ctx.ok("B2", "the bijection keeps (spec, other, order map) as handed over")
    else:
        ctx.violation("B2", f, f"Bijection.__init__ must keep _spec={spec}, _other={other}, _get_order={go}; found {held}", construct=f"{BIJ}.__init__ fields")
    # map / inverse_map hand the four pieces over consistently
    for name, want in (("map", ["self._spec", "self._other", "self._get_order", "self._index_data"]),
                       ("inverse_map", ["self._other", "self._spec", "self._get_inverse_order", "self._inv_index_data"])):
        mm = P.need_method(BIJ, name, own=True)
        ctx.analysed(mm)
        calls = [c for c in walk_local(mm.node) if isinstance(c, ast.Call) and isinstance(c.func, ast.Attribute) and c.func.attr == "map" and "ParseTreeMap" in norm(c.func.value)]
        if len(calls) != 1:
            raise AnalysisError(f"B2: Bijection.{name} no longer makes one ParseTreeMap.map call")
        got = [norm(a) for a in calls[0].args[:4]]
        objp = [x for x in D.param_names(mm.node) if x != "self"][0]
        if got == want and len(calls[0].args) == 5 and norm(calls[0].args[4]) == objp:
            ctx.ok("B2", f"Bijection.{name} transports with ({', '.join(w.split('.')[-1] for w in want)})")
        else:
            ctx.violation("B2", calls[0], f"Bijection.{name} must call ParseTreeMap.map({', '.join(want)}, {objp}); found ({', '.join(got)}): domain, codomain, order map and index data "
                          "must all be the forward ones or all the inverse ones")
    pm = P.need_method(PTM, "map", own=True)
    ctx.analysed(pm)
    ps = [x for x in D.param_names(pm.node) if x != "cls"]
    rets = [r for r in C.returns_of(pm.node) if r.value is not None]
    want = f"cls({ps[0]}, {ps[1]}, {ps[2]}, {ps[3]}).map_rec({ps[4]}, {ps[0]}.root_rule, {ps[1]}.root_rule)"
    if len(rets) == 1 and norm(rets[0].value) == want:
        ctx.ok("B2", "ParseTreeMap.map starts at (root rule of the domain, root rule of the codomain)")
    else:
        ctx.violation("B2", pm.node, f"ParseTreeMap.map must be `{want}`", construct=f"{PTM}.map")
    pi = P.need_method(PTM, "__init__", own=True)
    ps = D.param_names(pi.node)[1:5]
    held = {}
    for n in walk_local(pi.node):
        t, v = PT.assign_value(n)
        if t is not None and is_self_attr(t) and isinstance(v, ast.Name):
            held[t.attr] = v.id
    if [held.get(a) for a in ("domain", "codomain", "get_order", "index_data")] == ps:
        ctx.ok("B2", "ParseTreeMap keeps (domain, codomain, order map, index data) as handed over")
    else:
        ctx.violation("B2", pi.node, f"ParseTreeMap.__init__ must keep its four arguments under domain / codomain / get_order / index_data; found {held}", construct=f"{PTM}.__init__")
    # construct: same (spec, other) for the matcher and the bijection, nothing without a match
    c = P.need_method(BIJ, "construct", own=True)
    ctx.analysed(c)
    f = c.node
    ps = [x for x in D.param_names(f) if x != "cls"]
    isos = [x for x in walk_local(f) if isinstance(x, ast.Call) and norm(x.func).startswith("Isomorphism") and len(x.args) == 2]
    rets = [r for r in C.returns_of(f) if r.value is not None]
    built = [r for r in rets if isinstance(r.value, ast.Call) and norm(r.value.func) in ("cls", BIJ)]
    if len(isos) == 1 and [norm(a) for a in isos[0].args] == ps[:2] and len(built) == 1 and [norm(a) for a in built[0].value.args[:2]] == ps[:2]:
        ctx.ok("B2", "construct matches (spec, other) and builds the bijection for the same (spec, other)")
    else:
        ctx.violation("B2", f, "Bijection.construct must match Isomorphism(spec, other) and build cls(spec, other, ...) in the same orientation", construct=f"{BIJ}.construct orientation")
    if built:
        b = built[0]
        iso_names = [t.id for n in walk_local(f) for t, v in [PT.assign_value(n)] if isinstance(t, ast.Name) and v is not None and any(v is i for i in isos)]
        args = [norm(a) for a in b.value.args[2:4]]
        iv = iso_names[0] if iso_names else "?"
        if args == [f"{iv}.get_order()", f"{iv}.get_order_data()"]:
            ctx.ok("B2", "the bijection gets the matcher's order map and index data")
        else:
            ctx.violation("B2", b, f"Bijection.construct must hand over ({iv}.get_order(), {iv}.get_order_data()); found ({', '.join(args)})")
        guarded = any((not pol and "are_isomorphic()" in norm(t)) or (pol and "are_isomorphic()" in norm(t) and not norm(t).startswith("not")) for t, pol in C.flatten_guards(C.guards(f, b)))
        if guarded:
            ctx.ok("B2", "no bijection object without a successful match")
        else:
            ctx.violation("B2", b, "Bijection.construct builds a bijection without testing are_isomorphic()")
    iso = P.need_class(ISO)
    for gname, attr in (("get_order", "_order_map"), ("get_order_data", "_index_data"), ("are_isomorphic", "_isomorphic")):
        g = P.need_method(ISO, gname, own=True)
        rets = [r for r in C.returns_of(g.node) if r.value is not None]
        if len(rets) == 1 and norm(rets[0].value) == f"self.{attr}":
            ctx.ok("B2", f"Isomorphism.{gname} returns self.{attr}")
        else:
            ctx.violation("B2", g.node, f"Isomorphism.{gname} must return self.{attr}", construct=f"{ISO}.{gname}")


# ------------------------------------------------------------------ B3 both sides skip the same children
def b3_nonempty_alignment(ctx) -> None:
    P = ctx.P
    m = P.need_method(ISO, "_are_isomorphic", own=True)
    f = m.node
    gens = PT.find_all(f, "tuple((_M_i for _M_i, _M_c in enumerate(_E_r.children) if not _M_c.is_empty()))")
    rules = sorted({b["_E_r"] for _n, b in gens})
    if len(gens) == 2 and len(rules) == 2:
        ctx.ok("B3", "the matcher keeps, for both rules, the positions of the children that are not empty (same predicate on both sides)")
    else:
        ctx.violation("B3", f, "the matcher must compute, for both rules alike, the positions i of enumerate(rule.children) with `not child.is_empty()`",
                      construct=f"{ISO}._are_isomorphic nonempty positions")
    # the recursive call goes through these position tables
    rec = [c for c in walk_local(f) if isinstance(c, ast.Call) and norm(c.func) == "self._are_isomorphic" and len(c.args) == 2]
    for c in rec:
        shapes = [PT.match(PT.compile_pattern("_E_r.children[_M_t[_M_i]]"), a) for a in c.args]
        if all(s is not None for s in shapes) and shapes[0]["_E_r"] != shapes[1]["_E_r"] and shapes[0]["_M_t"] != shapes[1]["_M_t"]:
            ctx.ok("B3", "children are compared through the non-empty position tables of their own rule")
        else:
            ctx.violation("B3", c, f"the recursive comparison must take rule.children[nonempty_positions[i]] on both sides; found ({', '.join(norm(a) for a in c.args)})")
    g = P.need_method(PTM, "_get_nonempty", own=True)
    ctx.analysed(g)
    ps = [x for x in D.param_names(g.node) if x != "self"]
    pat = PT.find_all(g.node, f"tuple(((_M_o, _E_look) if _M_o is not None else None for _M_c, _M_o in zip({ps[0]}.children, {ps[1]}) if not _M_c.is_empty()))")
    if pat:
        b = pat[0][1]
        if b["_E_look"] == f"self.domain.rules_dict[{b['_M_c']}]":
            ctx.ok("B3", "the transport keeps the parts of the non-empty children of the domain rule, in order, each with the domain's rule for that child")
        else:
            ctx.violation("B3", pat[0][0], f"each kept part must travel with self.domain.rules_dict[child]; found `{b['_E_look']}`")
    else:
        ctx.violation("B3", g.node, "_get_nonempty must keep exactly the parts of the children with `not child.is_empty()`, positionally zipped with rule.children",
                      construct=f"{PTM}._get_nonempty")
    mr = P.need_method(PTM, "map_rec", own=True)
    f = mr.node
    r2 = D.param_names(f)[3]
    skip = PT.find_all(f, f"None if _M_c.is_empty() else (next(_E_it), self.codomain.rules_dict[_M_c])")
    over = [g2 for g2 in walk_local(f) if isinstance(g2, (ast.GeneratorExp, ast.ListComp)) and any(norm(gen.iter) == f"{r2}.children" for gen in g2.generators)]
    if skip and over:
        ctx.ok("B3", "on the codomain side an empty child takes no part and every other child takes the next reordered part, with the codomain's rule for it")
    else:
        ctx.violation("B3", f, f"map_rec must walk {r2}.children, give None to an empty child and (next part, self.codomain.rules_dict[child]) to every other",
                      construct=f"{PTM}.map_rec codomain walk")


# ------------------------------------------------------------------ B4 the matching is a bijection of positions
def b4_matching_complete(ctx, classes=((ISO, "_are_isomorphic"), (PSF, "_find"))) -> None:
    P = ctx.P
    for cls, mname in classes:
        m = P.need_method(cls, mname, own=True)
        f = m.node
        ex = P.need_method(cls, "_extend_stack", own=True)
        ctx.analysed(ex)
        g = ex.node
        ps = [x for x in D.param_names(g) if x not in ("self", "cls")]
        if len(ps) != 4:
            raise AnalysisError(f"B4: {cls}._extend_stack(i1, n, in_use, stack) expected")
        i1, n, used, stack = ps
        okx = False
        iters = (f"range({n} - 1, -1, -1)", f"range({n})", f"reversed(range({n}))")

        def _elt_ok(e: ast.AST, iv: str) -> bool:
            return PT.match(PT.compile_pattern(f"({i1} + 1, {iv}, {used}.union({{{iv}}}))"), e) is not None or \
                PT.match(PT.compile_pattern(f"({i1} + 1, {iv}, {used} | {{{iv}}})"), e) is not None

        for lp in walk_local(g):
            if isinstance(lp, ast.For) and isinstance(lp.target, ast.Name) and norm(lp.iter) in iters:
                iv = lp.target.id
                pushes = [c for c in walk_local(lp) if isinstance(c, ast.Call) and norm(c.func) == f"{stack}.append" and len(c.args) == 1]
                for c in pushes:
                    if not _elt_ok(c.args[0], iv):
                        continue
                    gs = {(norm(t), p) for t, p in C.flatten_guards(C.guards(g, c, within=lp))}
                    if gs in ({(f"{iv} in {used}", False)}, {(f"{iv} not in {used}", True)}):
                        okx = True
            # the same as one call: stack.extend(<element> for i in <range> if i not in in_use)
            if isinstance(lp, ast.Call) and norm(lp.func) == f"{stack}.extend" and len(lp.args) == 1 and isinstance(lp.args[0], (ast.GeneratorExp, ast.ListComp)) \
                    and len(lp.args[0].generators) == 1:
                gen = lp.args[0].generators[0]
                if isinstance(gen.target, ast.Name) and norm(gen.iter) in iters and _elt_ok(lp.args[0].elt, gen.target.id):
                    iv = gen.target.id
                    gs = {(norm(t), p) for t, p in C.flatten_guards([(t, True) for t in gen.ifs])}
                    if gs in ({(f"{iv} in {used}", False)}, {(f"{iv} not in {used}", True)}):
                        okx = True
        if okx:
            ctx.ok("B4", f"{cls}._extend_stack offers every position of the second rule not yet in use, for the next position of the first, and marks it used")
        else:
            ctx.violation("B4", g, f"{cls}._extend_stack must push (i1 + 1, i, in_use ∪ {{i}}) for every i of range(n) not in in_use: otherwise a child is matched twice or a "
                          "matching is never tried", construct=f"{cls}._extend_stack")
        # success only when the last position of the first rule is matched
        stores = [n2 for n2 in walk_local(f) if isinstance(n2, (ast.Assign,)) and isinstance(n2.targets[0], ast.Subscript) and isinstance(n2.targets[0].slice, ast.Tuple)]
        perm_names = {d for d, ds in D.definitions(f).items() if any(dd[1] is not None and PT.match(PT.compile_pattern("[-1] * _E_n"), dd[1]) is not None for dd in ds)}
        done = [s for s in stores if _names(s.value) & perm_names]
        if not done:
            ctx.violation("B4", f, f"{m.qualname} never stores a completed permutation", construct=f"{m.qualname} success store")
            continue
        for s in done:
            nm = None
            for dd in D.definitions(f)[sorted(_names(s.value) & perm_names)[0]]:
                mt = PT.match(PT.compile_pattern("[-1] * _E_n"), dd[1]) if dd[1] is not None else None
                if mt:
                    nm = mt["_E_n"]
            good = any(pol and PT.match(PT.compile_pattern(f"_M_a == {nm} - 1"), t) is not None for t, pol in C.flatten_guards(C.guards(f, s)))
            if good:
                ctx.ok("B4", f"{m.qualname}: a permutation is stored only when the last position ({nm} - 1) of the first rule has been matched")
            else:
                ctx.violation("B4", s, f"the permutation is stored without the test `i1 == {nm} - 1`: entries are still -1 (which silently index the last child)")
        starts = PT.find_all(f, "_M_s = [(0, _M_i, {_M_i}) for _M_i in _E_r]")
        if starts:
            ctx.ok("B4", f"{m.qualname}: the search starts with position 0 of the first rule against every position of the second")
        else:
            ctx.violation("B4", f, f"{m.qualname} must start its stack with (0, i, {{i}}) for every position i", construct=f"{m.qualname} stack start")


# ------------------------------------------------------------------ B5 bookkeeping released on every exit
def b5_bookkeeping(ctx) -> None:
    P = ctx.P
    m = P.need_method(ISO, "_are_isomorphic", own=True)
    f = m.node
    ups = [c for c in walk_local(f) if isinstance(c, ast.Call) and norm(c.func) == "self._ancestors.update"]
    if len(ups) != 1:
        ctx.violation("B5", f, "the matcher must register the pair of equivalence paths as ancestors once before it recurses", construct=f"{ISO}._are_isomorphic ancestors")
        return
    up = ups[0]
    arg = norm(up.args[0]) if up.args else ""
    rel = [c for c in walk_local(f) if isinstance(c, ast.Call) and norm(c.func) == "self._ancestors.difference_update" and c.args and norm(c.args[0]) == arg]
    rets = [r for r in C.returns_of(f) if C.dominates(f, C.stmt_of(up), r)]
    if not rets:
        raise AnalysisError("B5: no return after the ancestors are registered")
    for r in rets:
        if any(C.followed_by(f, c, r) or C.dominates(f, C.stmt_of(c), r) and C.stmt_of(c) in _block_of(f, r) for c in rel):
            ctx.ok("B5", f"ancestors are removed again before `{norm(r)}`")
        else:
            ctx.violation("B5", r, f"`{norm(r)}` leaves the matcher with {arg} still in the ancestor set: a later, unrelated comparison of the same nodes is taken for a recursive match "
                          "and accepted without being checked")
    rec = [c for c in walk_local(f) if isinstance(c, ast.Call) and norm(c.func) == "self._are_isomorphic"]
    if rec and all(C.dominates(f, C.stmt_of(up), c) for c in rec):
        ctx.ok("B5", "ancestors are registered before any recursion")
    else:
        ctx.violation("B5", up, "the ancestors must be registered before the matcher recurses (the recursive base case reads them)")
    # memo tables: success and failure
    fails = [c for c in walk_local(f) if isinstance(c, ast.Call) and norm(c.func) == "self._failed.add"]
    last_ret = [r for r in C.returns_of(f) if isinstance(r.value, ast.Constant) and r.value.value is False]
    if fails and last_ret and all(not C.enclosing_loops(f, c) for c in fails):
        ctx.ok("B5", "a pair is remembered as failed only after every pairing has been tried")
    else:
        ctx.violation("B5", f, "self._failed.add must come after the search loop is exhausted (not inside it), before `return False`", construct=f"{ISO}._are_isomorphic failed memo")
    # path tracker
    pushes = [c for c in walk_local(f) if isinstance(c, ast.Call) and norm(c.func) == "self._path_tracker_push"]
    pops = [c for c in walk_local(f) if isinstance(c, ast.Call) and norm(c.func) == "self._path_tracker_pop"]
    if pushes:
        okp = True
        for pu in pushes:
            # every way out of the iteration after the push passes a pop
            loop = C.enclosing_loops(f, pu)
            leaves = [n for n in walk_local(loop[0] if loop else f) if isinstance(n, (ast.Continue, ast.Return, ast.Break)) and C.dominates(f, C.stmt_of(pu), n)]
            for lv in leaves:
                if not any(C.dominates(f, C.stmt_of(po), lv) and C.dominates(f, C.stmt_of(pu), po) for po in pops):
                    okp = False
                    ctx.violation("B5", lv, "the path tracker is pushed for this pair of children but not popped before this exit of the iteration")
        if okp:
            ctx.ok("B5", "every push of the path tracker is popped on every way out of the iteration")


def _block_of(f, node) -> List[ast.stmt]:
    path = C.block_path(f, node)
    return path[-1][2] if path else []


# ------------------------------------------------------------------ B6 base cases
def b6_base_cases(ctx) -> None:
    P = ctx.P
    m = P.need_method(ISO, "_base_cases", own=True)
    ctx.analysed(m)
    f = m.node
    ps = [x for x in D.param_names(f) if x != "self"]
    if len(ps) != 6:
        raise AnalysisError("B6: _base_cases(eq_nodes1, rule1, non_empty1, eq_nodes2, rule2, non_empty2) expected")
    e1, r1, n1, e2, r2, n2 = ps
    rets = C.returns_of(f)

    def verdict(r):
        return norm(r.value).split(".")[-1] if r.value is not None else "?"

    # (a) different numbers of non-empty children -> invalid
    a = [r for r in rets if verdict(r) == "_INVALID" and any(pol and norm(t) in (f"len({n1}) != len({n2})", f"len({n2}) != len({n1})") for t, pol in C.flatten_guards(C.guards(f, r)))]
    if a:
        ctx.ok("B6", "different numbers of non-empty children are rejected")
    else:
        ctx.violation("B6", f, f"_base_cases must return _INVALID when len({n1}) != len({n2}) (the permutation has one entry per non-empty child of either side)",
                      construct=f"{ISO}._base_cases arity")
    # (b) leaves: both without children, both atoms, atoms match -> valid; anything else there invalid
    leaf = [r for r in rets if any((not pol) and norm(t) in (f"{r1}.children", f"{r2}.children") for t, pol in C.flatten_guards(C.guards(f, r)))]
    lv = [r for r in leaf if verdict(r) == "_VALID"]
    li = [r for r in leaf if verdict(r) == "_INVALID"]
    if lv and li:
        good = True
        for r in lv:
            gs = C.flatten_guards(C.guards(f, r))
            ts = {norm(t) for t, pol in gs if pol}
            neg = {norm(t) for t, pol in gs if not pol}
            need_leaf = {f"{r1}.children", f"{r2}.children"}
            atoms = {x for x in ts if x.endswith(".is_atom()")}
            am = [x for x in ts if x.startswith("self._atom_match(")]
            if not need_leaf <= neg:
                good = False
                ctx.violation("B6", r, "a pair is accepted as matching leaves although only one of the two rules is known to have no children: a leaf is matched with an inner node")
            elif len(atoms) != 2:
                good = False
                ctx.violation("B6", r, "matching leaves must both be atoms (is_atom() on both sides): only atoms can be matched as leaves")
            elif not am:
                good = False
                ctx.violation("B6", r, "matching leaves must pass _atom_match (same size, same terms)")
        if good:
            ctx.ok("B6", "leaves match only when both rules have no children, both classes are atoms and the atoms agree")
    else:
        ctx.violation("B6", f, "_base_cases must settle the case of two rules without children (valid for matching atoms, invalid otherwise)", construct=f"{ISO}._base_cases leaves")
    # (c) constructors
    cm = [r for r in rets if verdict(r) == "_INVALID" and any((not pol) and norm(t).startswith("self._constructor_match(") for t, pol in C.flatten_guards(C.guards(f, r)))]
    if cm:
        ctx.ok("B6", "rules with constructors that are not equivalent are rejected")
    else:
        ctx.violation("B6", f, "_base_cases must return _INVALID when _constructor_match fails", construct=f"{ISO}._base_cases constructors")
    # (d) recursion through ancestors accepted only after the constructor test
    anc = [r for r in rets if verdict(r) == "_VALID" and any(pol and "self._ancestors" in norm(t) for t, pol in C.flatten_guards(C.guards(f, r)))]
    if anc and cm and all(any((not pol) is False and norm(t).startswith("self._constructor_match(") for t, pol in C.flatten_guards(C.guards(f, r))) for r in anc):
        ctx.ok("B6", "a recursive match is accepted only for rules whose constructors were compared")
    elif anc:
        ctx.violation("B6", anc[0], "the recursive (ancestor) match is accepted before the constructors of the two rules were compared")
    else:
        ctx.violation("B6", f, "_base_cases must accept a pair that is being compared further up (ancestors): recursive specifications never terminate otherwise",
                      construct=f"{ISO}._base_cases recursion")
    # (e) atom match symmetric
    am = P.need_method(ISO, "_atom_match", own=True)
    ctx.analysed(am)
    rets2 = [r for r in C.returns_of(am.node) if r.value is not None]
    pm = PT.match(PT.compile_pattern("_M_a == _M_b and _E_r1.get_terms(_M_a) == _E_r2.get_terms(_M_b)"), rets2[0].value) if len(rets2) == 1 else None
    if pm is not None and pm["_E_r1"] != pm["_E_r2"]:
        ctx.ok("B6", "atoms match when their sizes agree and the two rules give the same terms at that size")
    else:
        ctx.violation("B6", am.node, "_atom_match must be `sz1 == sz2 and rule1.get_terms(sz1) == rule2.get_terms(sz2)`", construct=f"{ISO}._atom_match")
    # (f) index data stored under (curr1, curr2) and withdrawn on failure
    cmf = P.need_method(ISO, "_constructor_match", own=True)
    ps = [x for x in D.param_names(cmf.node) if x != "self"]
    st = PT.find_all(cmf.node, f"self._index_data[({ps[2]}, {ps[3]})] = _M_d")
    eq = PT.find_all(cmf.node, f"_M_ok, _M_d = {ps[0]}.constructor.equiv({ps[1]}.constructor)")
    if st and eq and st[0][1]["_M_d"] == eq[0][1]["_M_d"]:
        ctx.ok("B6", "index data of rule1.constructor.equiv(rule2.constructor) are kept under (first node, second node)")
    else:
        ctx.violation("B6", cmf.node, f"_constructor_match must compare {ps[0]}.constructor.equiv({ps[1]}.constructor) and keep its data under ({ps[2]}, {ps[3]})",
                      construct=f"{ISO}._constructor_match")


# ------------------------------------------------------------------ B7 equivalence steps on one side
def b7_equivalence_steps(ctx) -> None:
    P = ctx.P
    m = P.need_method(PTM, "map_rec", own=True)
    f = m.node
    ps = D.param_names(f)
    obj, r1, r2 = ps[1:4]
    # only the codomain rule is an equivalence: recurse with the same object and rule1, one step further in spec 2
    a = PT.find_all(f, f"self.map_rec({obj}, {r1}, self.codomain.rules_dict[{r2}.children[0]])")
    if a and any(pol and norm(t) == f"{r2}.is_equivalence()" for t, pol in C.flatten_guards(C.guards(f, a[0][0]))) \
            and any((not pol) and norm(t) == f"{r1}.is_equivalence()" for t, pol in C.flatten_guards(C.guards(f, a[0][0]))):
        ctx.ok("B7", "an equivalence step on the codomain side only: same object and domain rule, next rule of the codomain, mapped back through that step")
    else:
        ctx.violation("B7", f, f"when only {r2} is an equivalence rule map_rec must recurse on ({obj}, {r1}, codomain rule of {r2}.children[0])", construct=f"{PTM}.map_rec codomain step")
    b = PT.find_all(f, f"self.map_rec(_E_part, self.domain.rules_dict[{r1}.children[0]], {r2})")
    fm = PT.find_all(f, f"_M_mo, _M_ix = {r1}.indexed_forward_map({obj})")
    if not b:
        ctx.violation("B7", f, f"when only {r1} is an equivalence rule map_rec must recurse on (forward image, domain rule of {r1}.children[0], {r2})", construct=f"{PTM}.map_rec domain step")
    for node, bind in b:
        part = bind["_E_part"]
        if not any(pol and norm(t) == f"{r1}.is_equivalence()" for t, pol in C.flatten_guards(C.guards(f, node))):
            ctx.violation("B7", node, f"the domain-only step `{norm(node)[:80]}` is taken although {r1} is not known to be an equivalence rule (a rule with several children loses all but the first)")
        elif fm and part == f"{fm[0][1]['_M_mo']}[0]":
            ctx.ok("B7", "an equivalence step on the domain side only: the forward image moves on with the next rule of the domain, the codomain rule stays")
        else:
            ctx.violation("B7", node, f"the object moved along the domain's equivalence step must be the forward image {r1}.indexed_forward_map({obj})[0][0]; found `{part}`")
    # the matcher walks the same steps
    g = P.need_method(ISO, "_get_eq_descendant", own=True)
    ctx.analysed(g)
    gp = [x for x in D.param_names(g.node) if x != "self"]
    # G7 leaves two consecutive equivalence rules whenever the class in between is visible (it
    # is a child of a real rule); the transport (map_rec) follows such chains one step at a time,
    # so the matcher has to follow them to the end as well -- F11 followed one step only.
    loops = [w for w in walk_local(g.node) if isinstance(w, ast.While)]
    chains = []
    for w in loops:
        conds = [norm(t) for t, p in C.flatten_guards([(w.test, True)]) if p]
        eq = [c for c in conds if c.endswith(".is_equivalence()")]
        if not eq:
            continue
        r = eq[0][: -len(".is_equivalence()")]
        app = PT.find_all(w, f"_M_l.append({r}.children[0])")
        adv = [st for st in walk_local(w) for t, v in [PT.assign_value(st)] if isinstance(t, ast.Name) and t.id == r and v is not None and norm(v).startswith("self._rules")]
        if app and adv:
            chains.append((r, app[0][1]["_M_l"]))
    one_step = PT.find_all(g.node, "if _E_r.is_equivalence():\n    _M_l.append(_E_r.children[0])")
    if len(chains) == 2 and len({c[0] for c in chains}) == 2 and len({c[1] for c in chains}) == 2:
        ctx.ok("B7", "the matcher follows equivalence rules on either side until a rule that is not one (as the transport does)")
    elif one_step:
        ctx.violation("B7", one_step[0][0], "_get_eq_descendant follows a single equivalence step: a specification keeps two consecutive equivalence rules whenever the class in "
                      "between is also a child of a real rule (it is not folded into a path), and the second one is then compared as if it were a real rule -- isomorphic "
                      "specifications are rejected, including pairs returned by the parallel finders")
    else:
        ctx.violation("B7", g.node, "_get_eq_descendant must extend each side's path by rule.children[0] while that side's rule is an equivalence rule",
                      construct=f"{ISO}._get_eq_descendant")
    # final backward map of the codomain rule with the index of the forward map and the index data of this pair
    bm = [c for c in walk_local(f) if isinstance(c, ast.Call) and norm(c.func) == f"{r2}.indexed_backward_map"]
    fm = PT.find_all(f, f"_M_mo, _M_ix = {r1}.indexed_forward_map({obj})")
    if fm and bm and all(len(c.args) >= 2 and norm(c.args[1]) == fm[0][1]["_M_ix"] for c in bm):
        ctx.ok("B7", "the codomain rule maps back with the index the domain rule's forward map reported")
    else:
        ctx.violation("B7", f, f"every {r2}.indexed_backward_map must receive the index returned by {r1}.indexed_forward_map({obj})", construct=f"{PTM}.map_rec index")
    full = [c for c in bm if len(c.args) == 3]
    if full and all(norm(c.args[2]) == f"self.index_data.get(({r1}.comb_class, {r2}.comb_class))" for c in full):
        ctx.ok("B7", "index data are looked up under (class of the domain rule, class of the codomain rule)")
    else:
        ctx.violation("B7", f, f"the index data for the backward map must be self.index_data.get(({r1}.comb_class, {r2}.comb_class))", construct=f"{PTM}.map_rec index data")
    # leaves
    lf = [r for r in C.returns_of(f) if r.value is not None and any((not pol) and norm(t) == f"{r1}.children" for t, pol in C.flatten_guards(C.guards(f, r)))]
    if lf and all(norm(r.value) in (f"ParseTreeMap._min_object({r2})", f"self._min_object({r2})") for r in lf):
        ctx.ok("B7", "a leaf of the domain maps to the minimum object of the matched codomain rule")
    else:
        ctx.violation("B7", f, f"for a domain rule without children map_rec must return the minimum object of {r2}", construct=f"{PTM}.map_rec leaf")


def b7b_min_object_of_the_rule_class(ctx) -> None:
    """The image of a leaf is an object of the class the codomain rule is *for*
    (rule.comb_class): when that rule is an equivalence path its child is another class, and
    an object of the child is not an object of the class on top of the path."""
    P = ctx.P
    m = P.need_method(PTM, "_min_object", own=True)
    f = m.node
    ctx.analysed(m)
    rp = [p for p in m.params() if p not in ("self", "cls")]
    if not rp:
        raise AnalysisError("B7: _min_object(rule) expected")
    r = rp[0]
    gens = [c for c in walk_local(f) if isinstance(c, ast.Call) and isinstance(c.func, ast.Attribute) and c.func.attr == "objects_of_size"]
    if not gens:
        raise AnalysisError("B7: _min_object no longer generates the object with objects_of_size")
    for c in gens:
        src = D.expanded(f, c.func.value)
        if norm(src) == f"{r}.comb_class":
            ctx.ok("B7", "the minimum object is generated from the class of the matched rule itself")
        elif any(isinstance(x, ast.Attribute) and x.attr == "children" for x in ast.walk(src)):
            ctx.violation("B7", c, f"_min_object generates the object from `{norm(src)[:60]}`; the image must be an object of `{r}.comb_class`, and for an equivalence path "
                          "the child is another class (the steps of the path transform objects): the map is no longer onto the codomain")
        else:
            raise AnalysisError(f"B7: _min_object generates from `{norm(src)[:50]}`")


def b17_representatives_read_after_expansion(ctx) -> None:
    """ParallelInfo expands its searcher and then reads the universe.  A representative
    (`equivdb[label]`) names a class only until the next merge: one that is stored before an
    expansion is stale as soon as the root's class is merged into one with another
    representative, and is then never a key of the pruned rules."""
    P = ctx.P
    cls = P.need_class("ParallelInfo")
    expanding: Set[str] = set()
    changed = True
    while changed:
        changed = False
        for mm in cls.methods.values():
            if mm.name in expanding:
                continue
            for c in walk_local(mm.node):
                if isinstance(c, ast.Call) and isinstance(c.func, ast.Attribute) and (c.func.attr in ("do_level", "auto_search", "_expand_classes_for", "_expand_class_with_strategy")
                                                                                      or (isinstance(c.func.value, ast.Name) and c.func.value.id == "self" and c.func.attr in expanding)):
                    expanding.add(mm.name)
                    changed = True
                    break
    if not expanding:
        raise AnalysisError("B17: ParallelInfo no longer expands its searcher")
    n = 0
    for mm in cls.methods.values():
        f = mm.node
        exp_calls = [c for c in walk_local(f) if isinstance(c, ast.Call) and isinstance(c.func, ast.Attribute) and isinstance(c.func.value, ast.Name) and c.func.value.id == "self"
                     and c.func.attr in expanding]
        for st in walk_local(f):
            tv = PT.assign_value(st)
            if tv[0] is None or tv[1] is None or not is_self_attr(tv[0]):
                continue
            v = D.expanded(f, tv[1])
            if not any(isinstance(x, ast.Subscript) and isinstance(x.value, ast.Attribute) and x.value.attr == "equivdb" for x in ast.walk(v)):
                continue
            n += 1
            late = [c for c in exp_calls if c.lineno > st.lineno]
            if late:
                ctx.violation("B17", st, f"{mm.qualname} stores the representative `{norm(v)[:60]}` and expands afterwards (`{norm(late[0])[:40]}`): a merge made by the expansion "
                              "leaves the stored label naming no class of the pruned rules, so the root is never found (no specification, or no end of the expansion)")
            else:
                ctx.ok("B17", f"{mm.qualname}: the representative kept in self.{tv[0].attr} is read after the expansion")
    if n < 1:
        ctx.floor("B17", 99)


def b18_first_complete_matching_ends_the_backtracking(ctx) -> None:
    """The first search records *one* child matching per rule pair (there is one slot per
    pair) and leaves the backtracking loop at once.  Going on after a complete matching runs
    the recursion on further child pairs while the pair in hand is still an optimistic
    ancestor: the table gets pairs in which one label is matched with several labels of the
    other side, and the second search, which follows the table, no longer assigns one partner
    per label."""
    P = ctx.P
    m = P.need_method("ParallelSpecFinder", "_find", own=True)
    f = m.node
    ctx.analysed(m)
    stores = [st for st in walk_local(f) if isinstance(st, ast.Assign) and len(st.targets) == 1 and isinstance(st.targets[0], ast.Subscript)
              and isinstance(st.targets[0].value, ast.Subscript) and norm(st.targets[0].value.value) == "matching_info"]
    if not stores:
        raise AnalysisError("B18: _find no longer records a complete child matching in matching_info[pair][children]")
    for st in stores:
        loops = [l for l in C.enclosing_loops(f, st) if isinstance(l, ast.While)]
        if not loops:
            raise AnalysisError("B18: the matching is no longer recorded inside the backtracking loop")
        blk = C.block_path(f, st)[-1][2]
        i = [j for j, x in enumerate(blk) if x is st][0]
        rest = [x for x in blk[i + 1:] if not isinstance(x, ast.Pass) and not (isinstance(x, ast.Expr) and isinstance(x.value, ast.Constant))]
        nxt = rest[0] if rest else None
        if isinstance(nxt, ast.Break) or isinstance(nxt, ast.Return):
            ctx.ok("B18", "the backtracking over the children stops at the first complete matching of a rule pair")
        else:
            ctx.violation("B18", st, "after a complete child matching is recorded the backtracking goes on (" + (type(nxt).__name__.lower() if nxt is not None else "falls through")
                          + "): there is one slot per rule pair, so nothing more is collected, but the extra recursion fills the table with pairs that match one label with "
                          "several labels of the other side -- the second search then builds two specifications that do not correspond")


def b19_equiv_is_guarded_by_the_kind(ctx) -> None:
    """Two constructors are equivalent only if they are of the same kind: in every `equiv` of
    the package the kind test (`isinstance(other, type(self))`) is a conjunct of the *whole*
    answer.  Written `A and B or C`, the last alternative is not under the kind test (`and`
    binds tighter than `or`), and a product matches a union."""
    P = ctx.P
    n = 0
    for cls in P.subclasses(P.need_class("Constructor"), strict=True):
        m = cls.methods.get("equiv")
        if m is None:
            continue
        f = m.node
        ctx.analysed(m)
        other = [p_ for p_ in m.params() if p_ != "self"][0]
        for r in C.returns_of(f):
            if r.value is None:
                continue
            v = D.expanded(f, r.value)
            first = v.elts[0] if isinstance(v, ast.Tuple) and v.elts else v
            first = D.expanded(f, first) if isinstance(first, ast.Name) else first
            n += 1

            def kind_test(e) -> bool:
                # the kind of the *other* constructor is compared with the kind of this one
                return isinstance(e, ast.Call) and norm(e.func) == "isinstance" and len(e.args) == 2 and norm(e.args[0]) == other \
                    and not any(isinstance(x, ast.Name) and x.id == other for x in ast.walk(e.args[1]))
            selfkind = [x for x in ast.walk(first) if isinstance(x, ast.Call) and norm(x.func) == "isinstance" and len(x.args) == 2 and norm(x.args[0]) == other
                        and any(isinstance(y, ast.Name) and y.id == other for y in ast.walk(x.args[1]))]
            if selfkind:
                ctx.violation("B19", selfkind[0], f"{m.qualname} tests `{norm(selfkind[0])}`: the other constructor is compared with its own type, which is always true -- a {cls.name} "
                              "is declared equivalent to any constructor with compatible parameters, and the matcher pairs a union with a product")
                continue
            if kind_test(first) or (isinstance(first, ast.BoolOp) and isinstance(first.op, ast.And) and any(kind_test(x) for x in first.values)):
                ctx.ok("B19", f"{m.qualname}: the kind test is a conjunct of the whole answer")
            elif isinstance(first, ast.BoolOp) and isinstance(first.op, ast.Or) and any(kind_test(y) for x in first.values for y in ast.walk(x)):
                loose = [x for x in first.values if not any(kind_test(y) for y in ast.walk(x))]
                ctx.violation("B19", r, f"{m.qualname} answers `{norm(first)[:90]}`: the alternative `{norm(loose[0])[:50] if loose else '...'}` is not under the kind test (`and` binds "
                              f"tighter than `or`), so a {cls.name} is declared equivalent to a constructor of another kind and the matcher pairs a product with a union")
            elif isinstance(first, ast.Constant) and first.value is False:
                pass
            else:
                # answered through a guard: `if not isinstance(...): return (False, None)`
                gs = [(norm(t), p_) for t, p_ in C.flatten_guards(C.guards(f, r))]
                if any((p_ and t.startswith(f"isinstance({other},")) for t, p_ in gs):
                    ctx.ok("B19", f"{m.qualname}: answered under the kind test")
                else:
                    raise AnalysisError(f"B19: {m.qualname} answers `{norm(first)[:60]}`, where the kind test is not found")
    if n < 4:
        ctx.floor("B19", 99)


def b20_each_side_walks_its_own_chain(ctx) -> None:
    """`Isomorphism._get_eq_descendant` follows the equivalence rules of the two specifications
    side by side, one loop per side.  Everything a loop reads -- its rule, its table of rules,
    the list of nodes it has met -- belongs to that side."""
    P = ctx.P
    m = P.need_method("Isomorphism", "_get_eq_descendant", own=True)
    f = m.node
    ctx.analysed(m)
    ps = [p_ for p_ in m.params() if p_ != "self"]
    if len(ps) != 2:
        raise AnalysisError("B20: _get_eq_descendant(node1, node2) expected")
    seeds = {ps[0]: 1, ps[1]: 2}
    attr_sides = {"_rules1": 1, "_rules2": 2}
    loops = [l for l in walk_local(f) if isinstance(l, ast.While)]
    if len(loops) != 2:
        raise AnalysisError("B20: _get_eq_descendant no longer has one loop per side")
    for l in loops:
        sides = _side_of(f, l.test, seeds, attr_sides)
        for st in l.body:
            sides |= _side_of(f, st, seeds, attr_sides)
        if sides == {1} or sides == {2}:
            ctx.ok("B20", f"the loop over side {sorted(sides)[0]} reads only that side's rule, table and node list")
        elif sides == {1, 2}:
            mixed = [t for t in (l.test.values if isinstance(l.test, ast.BoolOp) else [l.test]) if len(_side_of(f, t, seeds, attr_sides)) == 2]
            ctx.violation("B20", l, f"a loop of _get_eq_descendant mixes the two sides (`{norm(mixed[0] if mixed else l.test)[:70]}`): the walk down one specification's equivalence chain is "
                          "stopped (or not stopped) by what was met in the other, so a specification compared with itself is cut short on one side only")
        else:
            raise AnalysisError("B20: cannot tell which side a loop of _get_eq_descendant belongs to")


# ------------------------------------------------------------------ B8 two-sided acceptance in the second search
def b8_two_sided_acceptance(ctx) -> None:
    """The second search of the parallel finder assigns one rule per label on *both* sides.  A
    base case that declares a pair settled because of what is already assigned must know it
    for both sides: `id1 in sp1` and `id2 in sp2` both necessarily true."""
    P = ctx.P
    n = 0
    for fi in P.all_functions():
        if not fi.name.startswith("_search_matching_info_recursion_base_cases"):
            continue
        f = fi.node
        ps = [x for x in D.param_names(f) if x not in ("self", "cls")]
        if len(ps) < 7:
            raise AnalysisError(f"B8: {fi.qualname} no longer takes (id1, id2, matching_info, mi1, mi2, sp1, sp2)")
        id1, id2, _mi, _m1, _m2, sp1, sp2 = ps[:7]
        ctx.analysed(fi)
        for r in C.returns_of(f):
            if r.value is None or not norm(r.value).endswith("._VALID"):
                continue
            gs = C.flatten_guards(C.guards(f, r))
            mentions = [t for t, pol in gs if any(isinstance(x, ast.Compare) and len(x.ops) == 1 and isinstance(x.ops[0], ast.In) and norm(x.comparators[0]) in (sp1, sp2) for x in ast.walk(t))]
            if not mentions:
                continue
            n += 1
            sure = {norm(t) for t, pol in gs if pol}
            if f"{id1} in {sp1}" in sure and f"{id2} in {sp2}" in sure:
                ctx.ok("B8", f"{fi.qualname}: a pair is settled from the spec maps only when both `{id1} in {sp1}` and `{id2} in {sp2}` hold")
            else:
                ctx.violation("B8", mentions[0], f"{fi.qualname} accepts a pair under `{norm(mentions[0])}`, which does not imply that both sides are assigned ({id1} in {sp1} and {id2} in {sp2}): "
                              "the side without a rule is never given one and the extracted tree has a leaf that is no atom")
    if n < 2:
        ctx.floor("B8", 99)


# ------------------------------------------------------------------ B9 matcher state is keyed by pairs
def b9_state_keyed_by_pairs(ctx) -> None:
    """Matching is a relation between the nodes of two specifications, not a function: one node
    may be matched with several nodes of the other side (a class reached twice, equivalent
    classes).  Whatever the matcher remembers between calls is therefore keyed by the *pair*;
    a table keyed by a node of one side only assumes a function and makes the test depend on
    which specification comes first."""
    P = ctx.P
    cls = P.need_class(ISO)
    attr = _init_attr_sides(P, ISO, 1)
    n = 0
    for m in cls.methods.values():
        if m.name == "__init__":
            continue
        f = m.node
        ps = D.param_names(f)
        seeds: Dict[str, int] = {}
        # node names: whatever indexes the rules table of a side
        for x in walk_local(f):
            if isinstance(x, ast.Subscript) and is_self_attr(x.value) and x.value.attr in attr and isinstance(x.slice, ast.Name):
                seeds[x.slice.id] = attr[x.value.attr]
        # parameters in (side 1, side 2) pairs as the matcher's methods are written: keep only what data flow gives
        keys = []
        for x in walk_local(f):
            t, v = PT.assign_value(x)
            if isinstance(t, ast.Subscript) and is_self_attr(t.value) and v is not None:
                keys.append((x, t.value.attr, t.slice))
            if isinstance(x, ast.Call) and isinstance(x.func, ast.Attribute) and x.func.attr in ("add", "setdefault") and is_self_attr(x.func.value) and x.args:
                keys.append((x, x.func.value.attr, x.args[0]))
        for node, a, k in keys:
            if a in attr:
                continue
            sides = _side_of(f, k, seeds, {})
            if not sides:
                continue
            n += 1
            if sides == {1, 2}:
                ctx.ok("B9", f"{m.qualname}: self.{a} is keyed by a pair (node of spec 1, node of spec 2)")
            else:
                ctx.violation("B9", node, f"{m.qualname}: self.{a} is keyed by `{norm(k)}`, a node of specification {sorted(sides)[0]} only: the matcher's memory must be keyed by pairs "
                              "(one node can be matched with several of the other side; a one-sided table also makes the test asymmetric)")
    if n < 2:
        ctx.floor("B9", 99)


# ------------------------------------------------------------------ B10 totality of the preparation
def b10_expansion_until_spec(ctx) -> None:
    """The queue running dry is a failure only if there still is no specification: the level
    that empties the queue may be the one that completes it."""
    P = ctx.P
    m = P.need_method("ParallelInfo", "_expand_until_spec", own=True)
    f = m.node
    ctx.analysed(m)
    n = 0
    for t in walk_local(f):
        if not isinstance(t, ast.Try):
            continue
        for h in t.handlers:
            if h.type is None or "NoMoreClassesToExpandError" not in norm(h.type):
                continue
            for r in [x for st in h.body for x in ast.walk(st) if isinstance(x, ast.Raise)]:
                n += 1
                gs = {(norm(e), pol) for e, pol in C.flatten_guards(C.guards(f, r, within=h))}
                if ("self.searcher.has_specification()", False) in gs:
                    ctx.ok("B10", "an exhausted queue is reported as 'nothing found' only after has_specification() was asked again")
                else:
                    ctx.violation("B10", r, "NoMoreClassesToExpandError is turned into a failure without asking has_specification() again inside the handler: do_level raises it "
                                  "when the queue empties during the level just worked on, which may be the level that completed the specification")
    if n == 0:
        # no handler that fails: the error must not escape either
        calls = [c for c in walk_local(f) if isinstance(c, ast.Call) and norm(c.func) == "self.searcher.do_level"]
        if calls and all(C.catching_handler(f, c, "NoMoreClassesToExpandError") is not None for c in calls):
            ctx.ok("B10", "do_level runs under a NoMoreClassesToExpandError handler")
        else:
            ctx.violation("B10", f, "ParallelInfo._expand_until_spec lets NoMoreClassesToExpandError escape: a finite universe makes the finder fail instead of answering",
                          construct="ParallelInfo._expand_until_spec handler")


# ------------------------------------------------------------------ B11 / B12 equivalence-path comparison
def _zip_calls(e: ast.AST) -> List[ast.Call]:
    """zip(a, b) -- and map(f, a, b), which pairs its two iterables the same way and also stops at the shorter."""
    return [c for c in ast.walk(e) if isinstance(c, ast.Call) and isinstance(c.func, ast.Name)
            and ((c.func.id == "zip" and len(c.args) == 2) or (c.func.id == "map" and len(c.args) == 3))]


def b11_paths_same_length(ctx) -> None:
    P = ctx.P
    m = P.need_method("EqPathParallelSpecFinder", "_eq_path_matches", own=True)
    f = m.node
    ctx.analysed(m)
    verdicts = [a for a in walk_local(f) if isinstance(a, ast.Assign) and isinstance(a.targets[0], ast.Subscript) and _zip_calls(a.value)]
    verdicts += [r for r in C.returns_of(f) if r.value is not None and _zip_calls(r.value)]
    if not verdicts:
        raise AnalysisError("B11: _eq_path_matches no longer compares the two rule paths pairwise (zip)")
    for v in verdicts:
        for z in _zip_calls(v.value):
            a, b = norm(z.args[-2]), norm(z.args[-1])
            strict = any(k.arg == "strict" and isinstance(k.value, ast.Constant) and k.value.value is True for k in z.keywords)
            conj = {norm(e) for e, pol in C.flatten_guards([(v.value, True)] + C.guards(f, v)) if pol}
            if strict or f"len({a}) == len({b})" in conj or f"len({b}) == len({a})" in conj:
                ctx.ok("B11", f"the rule paths `{a}` and `{b}` match only if they have the same length")
            else:
                ctx.violation("B11", z, f"`{norm(z)}` pairs the rules of the two equivalence paths without `len({a}) == len({b})`: zip stops at the shorter one (and "
                              "drops the element it already took from the longer one), so a path with an extra non-equivalence rule is accepted as matching")


def b12_path_checked_on_every_visit(ctx) -> None:
    P = ctx.P
    m = P.need_method("EqPathParallelSpecFinder", "_search_matching_info_recursion_base_cases_eq", own=True)
    f = m.node
    ctx.analysed(m)
    ps = [x for x in D.param_names(f) if x != "self"]
    id1, id2 = ps[0], ps[1]
    n = 0
    for r in C.returns_of(f):
        if r.value is None or not norm(r.value).endswith("._VALID"):
            continue
        gs = C.flatten_guards(C.guards(f, r))
        pos = {norm(e) for e, pol in gs if pol}
        if not any(t.startswith(f"{id1} in ") for t in pos):
            continue            # the atom case
        n += 1
        if any(t.startswith("self._eq_path_matches(") for t in pos):
            ctx.ok("B12", "a pair already placed in both specifications is accepted only if the rules along this visit's equivalence paths match")
        else:
            ctx.violation("B12", r, f"a pair ({id1}, {id2}) already placed in both specifications is accepted without `_eq_path_matches(...)` holding on this visit: the pair was "
                          "validated for the path it was first reached by, and this visit (another parent, or the recursion back to an ancestor) walks other rules")
    if n == 0:
        ctx.violation("B12", f, "no accepting return for pairs already placed in both specifications", construct=f"{m.qualname} accept")


# ------------------------------------------------------------------ B13 leaves reached on one side first
def b13_leaf_on_codomain_side(ctx) -> None:
    """The matcher walks equivalence steps on either side independently (B7), so it pairs a
    class that is merely *equivalent* to an atom with a plain atom.  The map must then be able to
    take the domain's equivalence step while the codomain's rule is already a leaf: the
    "domain moves, codomain stays" recursion has to be reachable before anything requires the
    codomain's rule to be a rule with children."""
    P = ctx.P
    m = P.need_method(PTM, "map_rec", own=True)
    f = m.node
    ctx.analysed(m)
    ps = [x for x in D.param_names(f) if x != "self"]
    if len(ps) != 3:
        raise AnalysisError("B13: map_rec(obj, rule1, rule2) expected")
    _, r1, r2 = ps
    stay = [c for c in walk_local(f) if isinstance(c, ast.Call) and norm(c.func) == "self.map_rec" and len(c.args) == 3
            and norm(c.args[2]) == r2 and norm(c.args[1]) == f"self.domain.rules_dict[{r1}.children[0]]"]
    if not stay:
        ctx.violation("B13", f, f"map_rec never takes an equivalence step of the domain alone (map_rec(..., self.domain.rules_dict[{r1}.children[0]], {r2}))",
                      construct=f"{PTM}.map_rec domain-only step")
        return

    def requires_inner(c: ast.Call) -> Optional[ast.AST]:
        """A statement before c (dominating it) that fails for a childless codomain rule."""
        for a in walk_local(f):
            if isinstance(a, ast.Assert) and C.dominates(f, a, c):
                for e, pol in C.flatten_guards([(a.test, True)]):
                    if pol and norm(e) == f"isinstance({r2}, Rule)":
                        return a
        for e, pol in C.flatten_guards(C.guards(f, c)):
            t = norm(e)
            if pol and t in (f"{r2}.children", f"isinstance({r2}, Rule)"):
                return e
        return None

    free = [c for c in stay if requires_inner(c) is None]
    if free:
        ctx.ok("B13", "the domain can take an equivalence step while the codomain's rule is already a leaf")
    else:
        blk = requires_inner(stay[0])
        ctx.violation("B13", blk, f"every domain-only equivalence step of map_rec comes after `{norm(blk)[:70]}`, which fails when `{r2}` is a leaf (a verification rule is not a "
                      "Rule): a class that is only equivalent to an atom, matched with a plain atom of the other specification, cannot be mapped (AssertionError), although "
                      "the isomorphism test accepts the pair")


# ------------------------------------------------------------------ B14 bookkeeping stacks are balanced
STACKS = (
    # (class, attribute, acquire method, release method): every method of the class (and its nested helpers) is looked at
    ("EqPathParallelSpecFinder", "_path", "append", "pop"),
    ("EqPathParallelSpecFinder", "_path_ancestors", "add", "remove"),
    ("ParallelSpecFinder", "_ancestors", "add", "remove"),
    ("Isomorphism", "_ancestors", "update", "difference_update"),
)


def b14_stacks_balanced(ctx, only_classes: Optional[Tuple[str, ...]] = None) -> None:
    """The matchers keep the current path / the pairs being compared in instance attributes
    that recursive calls read.  Whatever is entered before a recursive call is taken back on
    every way out of that step -- success, failure (break / continue) and the end of the
    iteration alike; a step that leaves its entry behind makes every later comparison look at a
    path that is not the current one."""
    P = ctx.P
    n = 0
    for cname, attr, acq, rel in STACKS:
        if only_classes is not None and cname not in only_classes:
            continue
        cls = P.need_class(cname)
        for m in cls.methods.values():
            # the code may sit in a nested helper (_rec) or in a small context manager of the class
            scopes = [m.node] + [x for x in ast.walk(m.node) if isinstance(x, ast.FunctionDef) and x is not m.node]
            for f in scopes:
                for c in walk_local(f):
                    if not (isinstance(c, ast.Call) and isinstance(c.func, ast.Attribute) and c.func.attr == acq and is_self_attr(c.func.value, attr)):
                        continue
                    n += 1
                    ctx.analysed(m)

                    def is_release(x, attr=attr, rel=rel):
                        return isinstance(x, ast.Call) and isinstance(x.func, ast.Attribute) and x.func.attr == rel and is_self_attr(x.func.value, attr)

                    paths = C.release_paths(f, c, is_release)
                    bad = [(k, kind, where) for k, kind, where in paths if kind != "raise" and k != 1]
                    if not bad:
                        ctx.ok("B14", f"{m.qualname}: self.{attr}.{acq}(...) is taken back exactly once on each of the {len(paths)} ways out of the step")
                    for k, kind, where in bad[:2]:
                        ctx.violation("B14", where if where is not None else c, f"{m.qualname}: after `{norm(c)[:60]}` the step can end by `{kind}` with self.{attr}.{rel}() executed "
                                      f"{k} time(s): the entry {'stays behind' if k == 0 else 'is taken back twice'} and later steps compare against a path that is not theirs")
    if n < (5 if only_classes is None else 1):
        ctx.floor("B14", 99)


# ------------------------------------------------------------------ B15 matches made under an assumption
def b15_assumed_matches_withdrawn(ctx) -> None:
    """The matcher is coinductive: a pair that is being compared further up is accepted
    (`_ancestors`), and every pair that succeeded is remembered for good (`_order_map`, read
    back as "already matched").  The two together are sound only if a pair that *fails* takes
    back what was remembered while it was assumed valid -- a match below it may have been
    accepted only because of that assumption (finding F13)."""
    P = ctx.P
    bc = P.need_method(ISO, "_base_cases", own=True)
    ctx.analysed(bc)
    rets = [r for r in C.returns_of(bc.node) if r.value is not None and norm(r.value).endswith("._VALID")]
    assumes = any(any(pol and "self._ancestors" in norm(t) for t, pol in C.flatten_guards(C.guards(bc.node, r))) for r in rets)
    memo_read = any(any(pol and norm(t).endswith("in self._order_map") for t, pol in C.flatten_guards(C.guards(bc.node, r))) for r in rets)
    if not (assumes and memo_read):
        ctx.ok("B15", "the matcher does not combine recursive acceptance with a permanent memo of matches" if not assumes or not memo_read else "")
        return
    m = P.need_method(ISO, "_are_isomorphic", own=True)
    f = m.node
    ctx.analysed(m)
    fails = [c for c in walk_local(f) if isinstance(c, ast.Call) and norm(c.func) == "self._failed.add"]
    if not fails:
        raise AnalysisError("B15: the failure exit of _are_isomorphic (self._failed.add) is gone")
    for fa in fails:
        blk = C.block_path(f, C.stmt_of(fa))[-1]
        stmts = blk[2]
        i_ret = next((i for i, s_ in enumerate(stmts) if isinstance(s_, ast.Return) and i > blk[3]), len(stmts))
        region = stmts[:i_ret]
        # withdrawal: entries of the memo are deleted on this exit
        dels = [x for s_ in region for x in ast.walk(s_)
                if (isinstance(x, ast.Delete) and any(isinstance(t, ast.Subscript) and norm(t.value) == "self._order_map" for t in x.targets))
                or (isinstance(x, ast.Call) and isinstance(x.func, ast.Attribute) and norm(x.func.value) == "self._order_map" and x.func.attr in ("pop", "clear", "popitem"))]
        whole = [x for x in dels if isinstance(x, ast.Call) and x.func.attr == "clear"]
        marked = bool(PT.find_all(f, "_M_mark = len(self._order_map)")) and any(isinstance(x, ast.Subscript) and isinstance(x.slice, ast.Slice) for s_ in region for x in ast.walk(s_))
        if dels and (whole or marked):
            ctx.ok("B15", "a pair that fails withdraws the matches remembered while it was assumed valid")
        elif dels:
            ctx.violation("B15", dels[0], "the failing pair removes something from _order_map, but not everything recorded since the pair was assumed valid (entries after "
                          "`len(self._order_map)` at entry, or the whole memo)")
        else:
            ctx.violation("B15", fa, "a pair that fails leaves in _order_map the matches that were made below it: some were accepted only because this pair was assumed valid "
                          "(recursive match through self._ancestors), and `_base_cases` later reads them back as 'already matched' -- specifications that are not isomorphic "
                          "are accepted, in one order of the arguments only")


# ------------------------------------------------------------------ B16 what counts as a step of an equivalence path
def b16_path_steps_filtered_by_equivalence(ctx) -> None:
    """The rules compared along an equivalence path are the ones that are not equivalence
    rules (`not rule.is_equivalence()`): the specification folds exactly the equivalence
    rules into a path.  Another predicate (is_two_way: a two-way rule need not be an
    equivalence) compares different sets of steps on the two sides than the specifications
    will contain."""
    P = ctx.P
    m = P.need_method("EquivalenceRuleExtractor", "_nonequivalent_rules_in_equiv_path", own=True)
    f = m.node
    ctx.analysed(m)
    ys = [y for y in C.yields_of(f) if isinstance(y, ast.Yield) and y.value is not None]
    if not ys:
        raise AnalysisError("B16: _nonequivalent_rules_in_equiv_path yields nothing")
    for y in ys:
        r = norm(y.value)
        gs = {(norm(e), p_) for e, p_ in C.flatten_guards(C.guards(f, y))}
        if (f"{r}.is_equivalence()", False) in gs:
            ctx.ok("B16", "a step of an equivalence path is kept for comparison exactly when it is not an equivalence rule")
        else:
            other = sorted(t for t, p_ in gs if t.startswith(f"{r}."))
            ctx.violation("B16", y, f"a step of an equivalence path is kept under {other or 'no test'}, not under `not {r}.is_equivalence()`: the steps compared are not the "
                          "rules the two specifications will show outside their equivalence paths, and a non-isomorphic pair is returned")


def b21_param_match_consults_both_sides(ctx) -> None:
    """`Constructor.extra_params_equiv(params1, params2)` and `_extra_params_match_single(par1, par2)`
    decide whether two constructors carry matching statistics; the matcher calls them with the two
    sides in either order.  An answer other than a literal False must depend -- through the
    tests it is reached under, or through its own value -- on *both* arguments: an exit taken
    after looking at one side only declares every other side equivalent to it (and makes the
    test asymmetric: (a, b) and (b, a) disagree)."""
    P = ctx.P
    n = 0
    for name in ("extra_params_equiv", "_extra_params_match_single"):
        m = P.need_method("Constructor", name, own=True)
        f = m.node
        ctx.analysed(m)
        ps = [p_ for p_ in m.params() if p_ not in ("self", "cls")]
        if len(ps) != 2:
            raise AnalysisError(f"B21: Constructor.{name} no longer takes the two sides as its two arguments")
        # names derived from each argument (assignments, loop targets, with-as; to a fixed point)
        taint: Dict[str, Set[str]] = {ps[0]: {ps[0]}, ps[1]: {ps[1]}}

        def srcs(e) -> Set[str]:
            out: Set[str] = set()
            # a comprehension's own variable is local to it: it stands for its iterable, which is walked anyway
            bound = {y.id for x in ast.walk(e) if isinstance(x, ast.comprehension) for y in ast.walk(x.target) if isinstance(y, ast.Name)}
            for x in ast.walk(e):
                if isinstance(x, ast.Name) and x.id in taint and x.id not in bound:
                    out |= taint[x.id]
            return out
        changed = True
        while changed:
            changed = False
            for s in walk_local(f):
                pairs = []
                if isinstance(s, ast.Assign):
                    pairs = [(t, s.value) for t in s.targets]
                elif isinstance(s, (ast.AnnAssign, ast.AugAssign)) and s.value is not None:
                    pairs = [(s.target, s.value)]
                elif isinstance(s, ast.NamedExpr):
                    pairs = [(s.target, s.value)]
                elif isinstance(s, ast.For):
                    pairs = [(s.target, s.iter)]
                for t, v in pairs:
                    got = srcs(v)
                    for x in ast.walk(t):
                        if isinstance(x, ast.Name):
                            old = taint.get(x.id, set())
                            if not got <= old:
                                taint[x.id] = old | got
                                changed = True
        rets = [r for r in C.returns_of(f) if r.value is not None]
        if not rets:
            raise AnalysisError(f"B21: Constructor.{name} no longer answers")
        for r in rets:
            if isinstance(r.value, ast.Constant) and r.value.value is False:
                continue
            n += 1
            seen = srcs(r.value)
            for t, _pol in C.guards(f, r):
                seen |= srcs(t)
            missing = [p_ for p_ in ps if p_ not in seen]
            if missing:
                ctx.violation("B21", r, f"Constructor.{name} answers `{norm(r.value)[:40]}` on a path that never looks at `{missing[0]}`: every value of that side is "
                              "declared a match for the other one, and the answer changes when the matcher swaps the sides -- constructors with different numbers "
                              "of statistics are paired and the bijection transports parameters that do not exist on the other side")
            else:
                ctx.ok("B21", f"Constructor.{name}: the answer at line {r.lineno} depends on both sides")
    if n == 0:
        raise AnalysisError("B21: no affirmative exit found in the parameter matchers")
