"""
Engine Q -- queue protocol of DefaultQueue (rules Q1-Q10).  DESIGN.md section 4 (C16).

Principle for verdicts: a *missing* guard / call / ordering is a definite fact about the
code and is reported as a violation; an anchor that cannot be located at all (method
gone, the staged-packet variable cannot be identified) is an analysis error.
"""
from __future__ import annotations

import ast
from typing import List, Optional, Set, Tuple

from ..core import control as C
from ..core import dataflow as D
from ..core.program import (
    AnalysisError,
    AnchorError,
    is_self_attr,
    norm,
    parent,
    unparse,
    walk_local,
)

Q = "DefaultQueue"
REMOVERS = {"discard", "remove", "pop", "clear", "difference_update", "intersection_update",
            "symmetric_difference_update", "__isub__", "__iand__"}


def _calls(f, text_prefix: str) -> List[ast.Call]:
    return [c for c in walk_local(f) if isinstance(c, ast.Call) and norm(c.func) == text_prefix]


def _guard_has(func, node, text: str, pol: bool) -> bool:
    return (text, pol) in C.guard_texts(func, node)


def _is_workpacket(e: ast.AST) -> bool:
    return isinstance(e, ast.Call) and isinstance(e.func, ast.Name) and e.func.id == "WorkPacket"


def _wp_args(call: ast.Call) -> Optional[Tuple[ast.AST, ast.AST, ast.AST]]:
    args = list(call.args)
    kw = {k.arg: k.value for k in call.keywords}
    names = ["label", "strategies", "inferral"]
    full = []
    for i, n in enumerate(names):
        if i < len(args):
            full.append(args[i])
        elif n in kw:
            full.append(kw[n])
        else:
            return None
    return tuple(full)  # type: ignore


# ------------------------------------------------------------------------ Q1
def q1_handout_check(ctx) -> None:
    nxt = ctx.P.need_method(Q, "__next__", own=True)
    f = nxt.node
    ctx.analysed(nxt)
    defs = D.definitions(f)
    rets = [r for r in C.returns_of(f) if r.value is not None]
    if not rets:
        raise AnchorError("DefaultQueue.__next__ returns nothing")
    for r in rets:
        v = r.value
        src = D.resolve(defs, v)
        taken = isinstance(src, ast.Call) and norm(src.func) in ("self.staging.popleft", "self.staging.pop")
        if not taken:
            ctx.violation("Q1", r, f"__next__ hands out `{norm(v)}` which is not a packet just taken out of self.staging")
            continue
        if norm(src.func) == "self.staging.pop" and not src.args:
            ctx.violation("Q1", src, "packets leave the staging area from the right end (pop()) although they are staged at the right end (extend): the packets of one batch "
                          "come out in reverse -- initial work before inferral work, later strategies of an expansion set before earlier ones")
            continue
        if not isinstance(v, ast.Name):
            ctx.violation("Q1", r, "__next__ returns the dequeued packet without looking at the ignore set (nothing to test it on)")
            continue
        gt = C.guard_texts(f, r)
        if (f"{v.id}.label not in self.ignore", True) in gt or (f"{v.id}.label in self.ignore", False) in gt \
                or (f"{v.id}[0] not in self.ignore", True) in gt or (f"{v.id}[0] in self.ignore", False) in gt:
            ctx.ok("Q1", f"__next__: return {v.id} guarded by `{v.id}.label not in self.ignore` after leaving staging")
        else:
            ctx.violation("Q1", r, f"work packet `{v.id}` is handed out without a `{v.id}.label not in self.ignore` test made "
                          "after it left the staging queue: a stop mark that arrives while the packet is staged is missed")
    # do_level only hands out what __next__ hands out
    dl = ctx.P.need_method(Q, "do_level", own=True)
    ctx.analysed(dl)
    ys = C.yields_of(dl.node)
    if not ys:
        raise AnchorError("DefaultQueue.do_level yields nothing")
    for y in ys:
        val = y.value
        if isinstance(y, ast.Yield) and val is not None and norm(val) in ("next(self)", "self.__next__()"):
            ctx.ok("Q1", "do_level yields next(self)")
        else:
            ctx.violation("Q1", y, "do_level must hand out exactly what __next__ hands out (the ignore check lives there)")


# ------------------------------------------------------------------------ Q2
def q2_ignore_monotone(ctx) -> None:
    P = ctx.P
    adds = 0
    for fi in P.all_functions():
        for node in walk_local(fi.node):
            if isinstance(node, ast.Attribute) and node.attr == "ignore":
                chain_ok = is_self_attr(node) or (isinstance(node.value, ast.Attribute) and node.value.attr == "classqueue")
                if not chain_ok:
                    continue
                par = parent(node)
                if isinstance(node.ctx, (ast.Store, ast.Del)):
                    if fi.qualname == f"{Q}.__init__":
                        ctx.ok("Q2", "DefaultQueue.__init__: initial binding of self.ignore")
                    else:
                        ctx.violation("Q2", par, "self.ignore re-bound: stopped labels are forgotten")
                elif isinstance(par, ast.Attribute) and isinstance(parent(par), ast.Call) and parent(par).func is par:
                    if par.attr in REMOVERS:
                        ctx.violation("Q2", parent(par), f"self.ignore.{par.attr}(...): the ignore set must only grow")
                    elif par.attr in ("add", "update"):
                        adds += 1
                elif isinstance(par, ast.AugAssign) and par.target is node:
                    if not isinstance(par.op, ast.BitOr):
                        ctx.violation("Q2", par, "self.ignore modified by a non-growing operator")
    if adds < 1:
        ctx.violation("Q2", P.need_class(Q).node, "nothing ever adds to self.ignore", construct="DefaultQueue.ignore writers")
    else:
        ctx.ok("Q2", f"self.ignore only grows ({adds} add site(s), no remover, no re-binding)")


# ------------------------------------------------------------------------ Q3
def q3_stop_marks(ctx) -> None:
    P = ctx.P
    ssy = P.need_method(Q, "set_stop_yielding", own=True)
    ctx.analysed(ssy)
    lab = ssy.params()[1]
    adds = [c for c in _calls(ssy.node, "self.ignore.add") if len(c.args) == 1 and norm(c.args[0]) == lab]
    uncond = [c for c in adds if C.stmt_of(c) in ssy.node.body and C.unconditional_in_stmt(c)
              and not any(C._may_leave(s) for s in ssy.node.body[: ssy.node.body.index(C.stmt_of(c))])]
    if uncond:
        ctx.ok("Q3", "set_stop_yielding adds the label to ignore unconditionally")
    else:
        ctx.violation("Q3", ssy.node, "set_stop_yielding does not unconditionally add the label to self.ignore",
                      construct="DefaultQueue.set_stop_yielding")
    sv = P.need_method(Q, "set_verified", own=True)
    ctx.analysed(sv)
    lab2 = sv.params()[1]
    calls = [c for c in _calls(sv.node, "self.set_stop_yielding") if len(c.args) == 1 and norm(c.args[0]) == lab2]
    direct = [c for c in _calls(sv.node, "self.ignore.add") if len(c.args) == 1 and norm(c.args[0]) == lab2]
    good = [c for c in calls + direct if C.stmt_of(c) in sv.node.body and C.unconditional_in_stmt(c)
            and not any(C._may_leave(s) for s in sv.node.body[: sv.node.body.index(C.stmt_of(c))])]
    if good:
        ctx.ok("Q3", "set_verified stops the label")
    else:
        ctx.violation("Q3", sv.node, "set_verified no longer stops the label (verified classes keep being handed out)",
                      construct="DefaultQueue.set_verified")


# ------------------------------------------------------------------------ Q4
def _flag_pair(ctx, kind: str) -> Tuple[str, str, str]:
    """(predicate, setter, backing set attribute) read from the predicate's body."""
    pred = f"can_do_{kind}"
    setter = {"inferral": "set_not_inferrable", "initial": "set_not_initial"}[kind]
    pm = ctx.P.need_method(Q, pred, own=True)
    sm = ctx.P.need_method(Q, setter, own=True)
    ctx.analysed(pm)
    ctx.analysed(sm)
    lab = pm.params()[1]
    read: Set[str] = set()
    for n in walk_local(pm.node):
        if isinstance(n, ast.Compare) and len(n.ops) == 1 and isinstance(n.ops[0], ast.NotIn) \
                and norm(n.left) == lab and is_self_attr(n.comparators[0]):
            read.add(n.comparators[0].attr)
    if not read:
        ctx.violation("Q4", pm.node, f"{pred} no longer tests `label not in self.<done set>`", construct=f"{Q}.{pred}")
        return pred, setter, ""
    slab = sm.params()[1]
    written = {c.func.value.attr for c in walk_local(sm.node) if isinstance(c, ast.Call) and isinstance(c.func, ast.Attribute)
               and c.func.attr == "add" and is_self_attr(c.func.value) and len(c.args) == 1 and norm(c.args[0]) == slab}
    common = read & written
    if common:
        ctx.ok("Q4", f"{pred} reads the set {sorted(common)} that {setter} writes")
    else:
        ctx.violation("Q4", sm.node, f"{setter} writes {sorted(written)} but {pred} reads {sorted(read)}: the once-only flag never takes effect",
                      construct=f"{Q}.{setter}")
    return pred, setter, (sorted(common)[0] if common else "")


def q4_once_only_flags(ctx) -> None:
    P = ctx.P
    ihw = P.need_method(Q, "_iter_helper_working", own=True)
    f = ihw.node
    ctx.analysed(ihw)
    defs = D.definitions(f)
    pairs = {k: _flag_pair(ctx, k) for k in ("inferral", "initial")}
    # the label worked on comes out of self.working
    seen = {"inferral": 0, "initial": 0}
    for y in C.yields_of(f):
        if not (isinstance(y, ast.Yield) and y.value is not None and _is_workpacket(y.value)):
            ctx.violation("Q4", y, "_iter_helper_working yields something that is not a WorkPacket(...) display")
            continue
        a = _wp_args(y.value)
        if a is None:
            raise AnalysisError("cannot read the fields of a WorkPacket(...) in _iter_helper_working")
        label, strategies, inferral = a
        lsrc = D.resolve(defs, label)
        if not (isinstance(lsrc, ast.Call) and norm(lsrc.func) in ("self.working.popleft", "self.working.pop")):
            ctx.violation("Q4", y, f"packet label `{norm(label)}` is not the label taken out of self.working")
            continue
        if not isinstance(inferral, ast.Constant) or not isinstance(inferral.value, bool):
            raise AnalysisError("WorkPacket inferral flag is not a literal in _iter_helper_working")
        kind = "inferral" if inferral.value else "initial"
        pred, setter, _attr = pairs[kind]
        seen[kind] += 1
        want_strats = {"inferral": "self.inferral_strategies", "initial": None}[kind]
        if kind == "inferral":
            if norm(strategies) != want_strats:
                ctx.violation("Q4", y, f"inferral packet carries `{norm(strategies)}` instead of self.inferral_strategies")
        else:
            # (strat,) with strat iterating self.initial_strategies
            loops = C.enclosing_loops(f, y)
            okstr = (isinstance(strategies, ast.Tuple) and len(strategies.elts) == 1 and loops
                     and isinstance(loops[0], ast.For) and norm(loops[0].iter) == "self.initial_strategies"
                     and norm(loops[0].target) == norm(strategies.elts[0]))
            if not okstr:
                ctx.violation("Q4", y, "initial packets must be (strat,) for each strat of self.initial_strategies, in order")
        ltxt = norm(label)
        if not _guard_has(f, y, f"self.{pred}({ltxt})", True):
            ctx.violation("Q4", y, f"{kind} packet staged without the `{pred}({ltxt})` guard: the same (label, strategy) can be handed out twice")
            continue
        # the outermost statement of the guarded region that contains the yield
        anchor: ast.AST = y
        loops = C.enclosing_loops(f, y)
        if loops:
            anchor = loops[-1]
        sets = [c for c in _calls(f, f"self.{setter}") if len(c.args) == 1 and norm(c.args[0]) == ltxt]
        good = [c for c in sets if C.followed_by(f, anchor, c) and C.unconditional_in_stmt(c)
                and _guard_has(f, c, f"self.{pred}({ltxt})", True)]
        if good:
            ctx.ok("Q4", f"_iter_helper_working: {kind} packet guarded by {pred} and followed by {setter}({ltxt}) in the same guard")
        else:
            before = [c for c in sets if not C.followed_by(f, anchor, c)]
            msg = (f"{setter}({ltxt}) does not follow the {kind} yield inside the same `{pred}` guard"
                   + (" (it is called before the packets are staged / on another path)" if before else " (it is never called)"))
            ctx.violation("Q4", y, msg)
    for kind, n in seen.items():
        if n == 0:
            ctx.violation("Q4", f, f"_iter_helper_working never stages {kind} work", construct=f"{Q}._iter_helper_working {kind} packets")
    # inferral before initial: the inferral yield precedes the initial one in the body
    ys = [y for y in C.yields_of(f) if isinstance(y, ast.Yield) and y.value is not None and _is_workpacket(y.value) and _wp_args(y.value)]
    inf = [y for y in ys if isinstance(_wp_args(y.value)[2], ast.Constant) and _wp_args(y.value)[2].value is True]
    ini = [y for y in ys if isinstance(_wp_args(y.value)[2], ast.Constant) and _wp_args(y.value)[2].value is False]
    if inf and ini:
        if max(y.lineno for y in inf) < min(y.lineno for y in ini) and all(
                _top_index(f, a) < _top_index(f, b) for a in inf for b in ini):
            ctx.ok("Q4", "inferral work is staged before initial work")
        else:
            ctx.violation("Q4", ini[0], "initial work is staged before inferral work")
    # after staging, the label goes to the next level exactly once
    upd = [c for c in _calls(f, "self.next_level.update")] + [c for c in _calls(f, "self.working.append")]
    # the Counter can also be bumped directly: self.next_level[label] += 1
    upd += [a for a in walk_local(f) if isinstance(a, ast.AugAssign) and isinstance(a.op, ast.Add) and isinstance(a.target, ast.Subscript)
            and norm(a.target.value) == "self.next_level"]
    if any(C.stmt_of(c) in f.body for c in upd):
        ctx.ok("Q4", "label is carried over to the next level after its staged work")
    else:
        ctx.violation("Q4", f, "_iter_helper_working drops the label instead of carrying it to the next level (its expansion sets would never run)",
                      construct=f"{Q}._iter_helper_working carry-over")


def _top_index(f, node) -> int:
    cur = node
    while parent(cur) is not f:
        cur = parent(cur)
    return f.body.index(cur)


# ------------------------------------------------------------------- Q5 / Q9
def q5_level_change(ctx) -> None:
    P = ctx.P
    ps = P.need_method(Q, "_populate_staging", own=True)
    cl = P.need_method(Q, "_change_level", own=True)
    ctx.analysed(ps)
    ctx.analysed(cl)
    # call sites of _change_level anywhere in the class
    sites = []
    for m in P.need_class(Q).methods.values():
        for c in _calls(m.node, "self._change_level"):
            sites.append((m, c))
    if not sites:
        ctx.violation("Q5", ps.node, "_change_level is never called: the queue never advances a level", construct=f"{Q}._change_level call sites")
    for m, c in sites:
        gt = C.guard_texts(m.node, c)
        if ("any(self.curr_level)", False) in gt:
            ctx.ok("Q5", f"{m.qualname}: _change_level() under `not any(self.curr_level)`")
        else:
            ctx.violation("Q5", c, "_change_level() called while the current level may still hold labels")
        # after the working-draining loop
        drains = [w for w in walk_local(m.node) if isinstance(w, ast.While)
                  and any(isinstance(x, ast.Call) and norm(x.func) == "self._iter_helper_working" for x in ast.walk(w))]
        if drains and all(C.dominates(m.node, w, c) for w in drains):
            ctx.ok("Q5", f"{m.qualname}: level change only after the working queue has been drained")
        else:
            ctx.violation("Q5", c, "_change_level() can run before the loop that drains self.working (inferral/initial work would be skipped past)")
    # inside: exhaustion is signalled before any bookkeeping
    f = cl.node
    raises = [r for r in C.raises_of(f) if r.exc is not None and "StopIteration" in norm(r.exc)]
    if not raises:
        ctx.violation("Q5", f, "_change_level no longer signals exhaustion with StopIteration", construct=f"{Q}._change_level exhaustion")
        return
    for r in raises:
        if _guard_has(f, r, "any(self.curr_level)", False):
            ctx.ok("Q5", "_change_level raises StopIteration only when nothing was carried over")
        else:
            ctx.violation("Q5", r, "StopIteration raised although the new level may be non-empty")
    writes = []
    for n in walk_local(f):
        if isinstance(n, ast.Call) and isinstance(n.func, ast.Attribute) and is_self_attr(n.func.value) \
                and n.func.value.attr in ("queue_sizes", "next_level") and n.func.attr in ("append", "clear", "extend", "pop", "update"):
            writes.append(n)
        if isinstance(n, (ast.Assign, ast.AnnAssign, ast.AugAssign)):
            tg = n.targets if isinstance(n, ast.Assign) else [n.target]
            if any(is_self_attr(t) and t.attr in ("queue_sizes", "next_level") for t in tg):
                writes.append(n)
    if not writes:
        ctx.violation("Q5", f, "_change_level no longer records the level (queue_sizes) / resets next_level", construct=f"{Q}._change_level bookkeeping")
    for w in writes:
        if _guard_has(f, w, "any(self.curr_level)", True):
            ctx.ok("Q5", f"_change_level: `{norm(w)[:50]}` happens after the exhaustion test")
        else:
            ctx.violation("Q5", w, "level bookkeeping happens before the exhaustion test: an exhausted queue changes state and stops signalling exhaustion")
    # Q10: the carried-over labels are distinct and next_level is emptied afterwards
    ext = [c for c in walk_local(f) if isinstance(c, ast.Call) and isinstance(c.func, ast.Attribute) and c.func.attr in ("extend",)
           and "curr_level" in norm(D.expanded(f, c.func.value))]
    if not ext:
        ctx.violation("Q10", f, "_change_level does not move next_level into the current level", construct=f"{Q}._change_level carry")
    for c in ext:
        t = norm(D.expanded(f, c))
        if "self.next_level.elements()" in t:
            ctx.violation("Q10", c, "labels are carried over with multiplicity: the same label is expanded several times per level")
        elif norm(D.expanded(f, c.func.value)) != "self.curr_level[0]":
            ctx.violation("Q10", c, "carried-over labels must start at the first expansion set (curr_level[0])")
        elif "self.next_level" in t:
            ctx.ok("Q10", "carried-over labels are the distinct keys of next_level, placed in curr_level[0]")
        else:
            ctx.violation("Q10", c, "current level is not filled from next_level")
        resets = [w for w in writes if ("next_level" in norm(w)) and _follows_modulo_exhaustion(f, c, w)]
        if resets:
            ctx.ok("Q10", "next_level is emptied after being carried over")
        else:
            ctx.violation("Q10", c, "next_level is not emptied after the level change: labels are expanded again at every level")
    # levels_completed counts level changes
    lc = P.need_method(Q, "levels_completed", own=True)
    r = C.returns_of(lc.node)
    if len(r) == 1 and r[0].value is not None and norm(r[0].value) == "len(self.queue_sizes)":
        ctx.ok("Q5", "levels_completed = len(queue_sizes)")
    else:
        ctx.violation("Q5", lc.node, "levels_completed no longer counts the recorded level changes", construct=f"{Q}.levels_completed")


def _follows_modulo_exhaustion(f, a, b) -> bool:
    """b is a later sibling of a's statement; the only thing that may leave in between is
    the exhaustion signal `if not any(self.curr_level): raise StopIteration`."""
    sa, sb = C.stmt_of(a), C.stmt_of(b)
    path = C.block_path(f, sa)
    blk = path[-1][2]
    if sb not in blk or blk.index(sb) <= blk.index(sa):
        return False
    for s in blk[blk.index(sa) + 1: blk.index(sb)]:
        if C._may_leave(s):
            is_exh = (isinstance(s, ast.If) and norm(s.test) == "not any(self.curr_level)" and not s.orelse
                      and len(s.body) == 1 and isinstance(s.body[0], ast.Raise) and "StopIteration" in norm(s.body[0]))
            if not is_exh:
                return False
    return True


def q9_lazy_staging(ctx) -> None:
    P = ctx.P
    n = 0
    for m in P.need_class(Q).methods.values():
        for c in walk_local(m.node):
            if isinstance(c, ast.Call) and isinstance(c.func, ast.Attribute) and is_self_attr(c.func.value, "staging") \
                    and c.func.attr in ("extend", "append", "appendleft", "extendleft"):
                n += 1
                ctx.analysed(m)
                if _guard_has(m.node, c, "self.staging", False):
                    ctx.ok("Q9", f"{m.qualname}: work is staged only when the staging queue is empty")
                else:
                    ctx.violation("Q9", c, "work is staged while earlier staged packets are still waiting: the can_do_* flags and "
                                  "marks that arrive before those packets are handed out are not seen")
    if n < 2:
        raise AnalysisError(f"Q9: {n} staging sites, floor 2")


# ------------------------------------------------------------------------ Q6
def q6_expansion_order(ctx) -> None:
    P = ctx.P
    m = P.need_method(Q, "_iter_helper_curr", own=True)
    f = m.node
    ctx.analysed(m)
    defs = D.definitions(f)
    ys = [y for y in C.yields_of(f) if isinstance(y, ast.Yield) and y.value is not None and _is_workpacket(y.value)]
    if not ys:
        ctx.violation("Q6", f, "_iter_helper_curr stages no expansion work", construct=f"{Q}._iter_helper_curr packets")
        return
    for y in ys:
        a = _wp_args(y.value)
        if a is None:
            raise AnalysisError("cannot read WorkPacket fields in _iter_helper_curr")
        label, strategies, inferral = a
        if not (isinstance(inferral, ast.Constant) and inferral.value is False):
            ctx.violation("Q6", y, "expansion packets must not be flagged inferral")
        loops = C.enclosing_loops(f, y)
        if not loops or not isinstance(loops[0], ast.For):
            ctx.violation("Q6", y, "expansion packets must be staged one per strategy of the current set, in tuple order")
            continue
        loop = loops[0]
        it = loop.iter
        if not (isinstance(it, ast.Subscript) and norm(it.value) == "self.expansion_strats"):
            ctx.violation("Q6", loop, f"strategies are taken from `{norm(it)}` instead of self.expansion_strats[idx]")
            continue
        idx_txt = norm(it.slice)
        if not isinstance(it.slice, ast.Name):
            from .tablemethod import affine
            a = affine(it.slice)
            names = [k for k in (a or {}) if k != "1"]
            if a is not None and len(names) == 1 and a[names[0]] == 1 and a.get("1", 0) != 0:
                ctx.violation("Q6", loop, f"the strategies handed out for the label taken from deque `{names[0]}` are those of set `{idx_txt}`: every expansion set is applied at the "
                              "wrong stage (and the last one never, or the first one twice)")
                idx_txt = names[0]
            else:
                raise AnalysisError(f"Q6: expansion set index `{idx_txt}` not understood")
        if not (isinstance(strategies, ast.Tuple) and len(strategies.elts) == 1 and norm(strategies.elts[0]) == norm(loop.target)):
            ctx.violation("Q6", y, "each expansion packet must carry exactly the loop's strategy")
        # idx and label come from the first non-empty deque in index order
        sel_ok = _first_nonempty_selection(f, defs, idx_txt, norm(label))
        if sel_ok is None:
            raise AnalysisError("Q6: cannot identify how (idx, label) are selected in _iter_helper_curr")
        if sel_ok:
            ctx.ok("Q6", "(idx, label) = first non-empty current-level deque in index order, label dequeued from it")
        else:
            ctx.violation("Q6", y, "the label expanded is not taken from the first non-empty deque of curr_level in index order")
        # moved to the next set afterwards
        moves = [c for c in walk_local(f) if isinstance(c, ast.Call) and isinstance(c.func, ast.Attribute) and c.func.attr == "append"
                 and isinstance(c.func.value, ast.Subscript) and norm(c.func.value.value) == "self.curr_level"]
        good = [c for c in moves if norm(c.func.value.slice) in (f"{idx_txt} + 1", f"1 + {idx_txt}")
                and len(c.args) == 1 and norm(c.args[0]) == norm(label) and C.followed_by(f, loop, c)]
        if good:
            ctx.ok("Q6", f"after set idx the label moves to curr_level[{idx_txt} + 1]")
        else:
            got = ", ".join(norm(c) for c in moves) or "nothing"
            ctx.violation("Q6", loop, f"after expansion set idx the label must be appended to curr_level[{idx_txt} + 1] (found: {got}); "
                          "otherwise later expansion sets are skipped or repeated")
        # the extra last deque only stops the label
        stops = [c for c in _calls(f, "self.set_stop_yielding") if len(c.args) == 1 and norm(c.args[0]) == norm(label)]
        okstop = False
        for c in stops:
            gt = C.guard_texts(f, c)
            if (f"{idx_txt} == len(self.expansion_strats)", True) in gt or (f"len(self.expansion_strats) == {idx_txt}", True) in gt \
                    or (f"{idx_txt} >= len(self.expansion_strats)", True) in gt:
                okstop = True
        guard_on_loop = C.guard_texts(f, loop)
        past_end_excluded = any(t in ((f"{idx_txt} == len(self.expansion_strats)", False), (f"{idx_txt} >= len(self.expansion_strats)", False),
                                      (f"{idx_txt} < len(self.expansion_strats)", True)) for t in guard_on_loop)
        if okstop and past_end_excluded:
            ctx.ok("Q6", "a label leaving the last expansion set is stopped, not expanded")
        else:
            ctx.violation("Q6", loop, "a label that has been through every expansion set must be stopped (set_stop_yielding) and nothing staged for it")


def _first_nonempty_selection(f, defs, idx_txt: str, label_txt: str) -> Optional[bool]:
    """Recognise  idx, label = next((idx, q.popleft()) for idx, q in enumerate(self.curr_level) if q)."""
    di = defs.get(idx_txt, [])
    dl = defs.get(label_txt, [])
    if len(di) != 1 or len(dl) != 1:
        return None
    st = di[0][0]
    if st is not dl[0][0] or not isinstance(st, ast.Assign):
        return None
    val = st.value
    if not (isinstance(val, ast.Call) and isinstance(val.func, ast.Name) and val.func.id == "next" and val.args):
        return None
    gen = val.args[0]
    if not isinstance(gen, (ast.GeneratorExp, ast.ListComp)):
        return None
    if len(gen.generators) != 1:
        return False
    g = gen.generators[0]
    if not (isinstance(g.iter, ast.Call) and norm(g.iter.func) == "enumerate" and len(g.iter.args) == 1
            and norm(g.iter.args[0]) == "self.curr_level"):
        return False
    if not (isinstance(g.target, ast.Tuple) and len(g.target.elts) == 2):
        return False
    i_name, q_name = norm(g.target.elts[0]), norm(g.target.elts[1])
    if not (len(g.ifs) == 1 and norm(g.ifs[0]) in (q_name, f"len({q_name}) > 0", f"bool({q_name})")):
        return False
    elt = gen.elt
    if not (isinstance(elt, ast.Tuple) and len(elt.elts) == 2):
        return False
    # order of the unpacking must match
    tg = st.targets[0]
    if not (isinstance(tg, ast.Tuple) and len(tg.elts) == 2):
        return None
    pos_idx = [norm(e) for e in tg.elts].index(idx_txt)
    pos_lab = 1 - pos_idx
    return norm(elt.elts[pos_idx]) == i_name and norm(elt.elts[pos_lab]) in (f"{q_name}.popleft()", f"{q_name}.pop(0)")


# ------------------------------------------------------------------------ Q7
def q7_do_level(ctx) -> None:
    m = ctx.P.need_method(Q, "do_level", own=True)
    f = m.node
    ctx.analysed(m)
    defs = D.definitions(f)
    rs = [r for r in C.raises_of(f) if r.exc is not None and "NoMoreClassesToExpandError" in norm(r.exc)]
    if not rs:
        ctx.violation("Q7", f, "do_level never raises the documented NoMoreClassesToExpandError", construct=f"{Q}.do_level error")
        return
    # the snapshot variable of the level counter
    snaps = [n for n, ds in defs.items() if len(ds) == 1 and ds[0][1] is not None and norm(ds[0][1]) == "self.levels_completed"]
    for r in rs:
        hs = [a for a in _anc(r, f) if isinstance(a, ast.ExceptHandler) and C.caught(C.handler_names(a), "StopIteration")]
        in_handler = bool(hs)
        # the counter must be compared *after* exhaustion was signalled: only tests made
        # inside the handler count (the loop header test is stale by then)
        gt = C.guard_texts(f, r, within=hs[0]) if hs else set()
        same = any((f"{s} == self.levels_completed", True) in gt or (f"self.levels_completed == {s}", True) in gt
                   or (f"{s} != self.levels_completed", False) in gt for s in snaps)
        if in_handler and same:
            ctx.ok("Q7", "NoMoreClassesToExpandError only when the queue ran dry before the level counter advanced")
        else:
            ctx.violation("Q7", r, "NoMoreClassesToExpandError must be raised only on exhaustion with the level counter unchanged")
    loops = [w for w in walk_local(f) if isinstance(w, ast.While)]
    if any(any(norm(w.test) in (f"{s} == self.levels_completed", f"self.levels_completed == {s}") for s in snaps) for w in loops):
        ctx.ok("Q7", "do_level hands out work until the level counter advances")
    else:
        ctx.violation("Q7", f, "do_level no longer iterates exactly until the level counter advances", construct=f"{Q}.do_level loop")


def _anc(node, stop):
    from ..core.program import ancestors
    for a in ancestors(node):
        if a is stop:
            return
        yield a


# ------------------------------------------------------------------------ Q8
def q8_add(ctx) -> None:
    m = ctx.P.need_method(Q, "add", own=True)
    f = m.node
    ctx.analysed(m)
    lab = m.params()[1]
    apps = [c for c in _calls(f, "self.working.append") if len(c.args) == 1 and norm(c.args[0]) == lab]
    if not apps:
        ctx.violation("Q8", f, "add never puts a label into the working queue: inferral and initial work is never staged", construct=f"{Q}.add working")
        return
    want = {f"self.can_do_inferral({lab})", f"self.can_do_initial({lab})"}
    for c in apps:
        gs = C.guards(f, c)
        # the positive guard(s) must be (a superset-tolerant form of) can_do_inferral OR can_do_initial
        ok = False
        if not gs:
            ok = True  # unconditional append to working: always stages outstanding work
        for e, pol in gs:
            if pol and isinstance(e, ast.BoolOp) and isinstance(e.op, ast.Or):
                terms = {norm(v) for v in e.values}
                if want <= terms:
                    ok = True
        others = [(norm(e), pol) for e, pol in C.flatten_guards(gs)
                  if not (isinstance(e, ast.BoolOp)) and norm(e) not in want and norm(e) not in (f"{lab} not in self.ignore", f"{lab} in self.ignore")]
        if ok and not others:
            ctx.ok("Q8", "add: label goes to working whenever inferral or initial work is outstanding")
        else:
            ctx.violation("Q8", c, "a label with outstanding inferral or initial work may bypass the working queue "
                          f"(guards: {[(norm(e), p) for e, p in gs]})")


# ------------------------------------------------------------------------ Q11
MUTABLE_MAKERS = {"deque", "list", "set", "dict", "defaultdict", "Counter", "OrderedDict"}


def q11_distinct_containers(ctx) -> None:
    """Each expansion set has its own deque (and every other per-slot container its own
    object): a tuple / list built by repeating one mutable element, `(deque(),) * n`, holds
    the *same* object n times, so a label put into one level is in all of them."""
    P = ctx.P
    cls = P.need_class(Q)
    n = 0
    for m in cls.methods.values():
        for x in walk_local(m.node):
            if isinstance(x, ast.BinOp) and isinstance(x.op, ast.Mult):
                for side in (x.left, x.right):
                    if isinstance(side, (ast.Tuple, ast.List)):
                        for e in side.elts:
                            mutable = isinstance(e, (ast.List, ast.Dict, ast.Set, ast.ListComp, ast.DictComp, ast.SetComp)) or \
                                (isinstance(e, ast.Call) and norm(e.func).split(".")[-1] in MUTABLE_MAKERS)
                            if mutable:
                                n += 1
                                ctx.violation("Q11", x, f"`{norm(x)[:80]}` repeats one mutable object: all positions are the same container, so what is queued at one stage is "
                                              "queued at every stage")
    init = P.need_method(Q, "__init__", own=True)
    ctx.analysed(init)
    fresh = [g for g in walk_local(init.node) if isinstance(g, (ast.GeneratorExp, ast.ListComp)) and isinstance(g.elt, ast.Call) and norm(g.elt.func).split(".")[-1] == "deque"
             and len(g.generators) == 1 and (norm(g.generators[0].iter) == "self.expansion_strats"
                                             or "len(self.expansion_strats)" in norm(D.expanded(init.node, g.generators[0].iter)))]
    if fresh:
        ctx.ok("Q11", "curr_level holds one fresh deque per expansion set")
    elif n == 0:
        ctx.violation("Q11", init.node, "DefaultQueue.__init__ must build curr_level with one fresh deque() per expansion set", construct=f"{Q}.__init__ curr_level")


def q12_working_label_carried(ctx) -> None:
    """Every label taken from the working queue is carried to the next level, whatever was (or
    was not) left to do for it: nothing can leave _iter_helper_working between the pop and the
    update of next_level."""
    P = ctx.P
    m = P.need_method(Q, "_iter_helper_working", own=True)
    f = m.node
    ctx.analysed(m)
    pops = [st for st in f.body if any(isinstance(c, ast.Call) and norm(c.func) in ("self.working.popleft", "self.working.pop") for c in ast.walk(st))]
    if not pops:
        raise AnalysisError("Q12: _iter_helper_working no longer pops the working queue")
    lab = None
    if isinstance(pops[0], ast.Assign) and isinstance(pops[0].targets[0], ast.Name):
        lab = pops[0].targets[0].id
    carries = [c for c in walk_local(f) if (isinstance(c, ast.Call) and norm(c.func) in ("self.next_level.update", "self.next_level.__setitem__"))
               or (isinstance(c, ast.AugAssign) and isinstance(c.target, ast.Subscript) and norm(c.target.value) == "self.next_level")]
    carries = [c for c in carries if lab is None or lab in {x.id for x in ast.walk(c) if isinstance(x, ast.Name)}]
    if not carries:
        ctx.violation("Q12", f, "a label taken from the working queue is never put into next_level: it is not expanded at the next level", construct=f"{Q}._iter_helper_working carry")
        return
    cst = C.stmt_of(carries[0]) if not isinstance(carries[0], ast.stmt) else carries[0]
    if cst in f.body and C.followed_by(f, pops[0], cst) and not C.guards(f, cst):
        ctx.ok("Q12", "every label popped from working reaches next_level (no exit in between)")
    else:
        leaves = [n for n in walk_local(f) if isinstance(n, (ast.Return, ast.Raise)) and n.lineno < cst.lineno]
        ctx.violation("Q12", leaves[0] if leaves else cst, "a label popped from the working queue can leave _iter_helper_working without being put into next_level: it is then never "
                      "expanded by the expansion sets")


def q13_staging_is_a_queue(ctx) -> None:
    """Packets are staged at the right end and handed out from the left: a batch comes out in
    the order it was made (inferral before initial work, the strategies of a set in order)."""
    P = ctx.P
    cls = P.need_class(Q)
    n = 0
    for m in cls.methods.values():
        for c in walk_local(m.node):
            if isinstance(c, ast.Call) and isinstance(c.func, ast.Attribute) and is_self_attr(c.func.value, "staging"):
                if c.func.attr in ("extend", "append"):
                    n += 1
                elif c.func.attr in ("extendleft", "appendleft", "insert", "rotate", "reverse"):
                    ctx.violation("Q13", c, f"{m.qualname}: `{norm(c)[:60]}` puts packets at the end they are taken from (and extendleft reverses the batch): a label's packets "
                                  "come out in reverse order -- initial work before inferral work")
    if n < 2:
        ctx.floor("Q13", 99)
    else:
        ctx.ok("Q13", f"packets are staged at the right end only ({n} sites) and taken from the left")
