"""
Rules E1-E7 for C11 (forest extraction).  DESIGN.md section 4 (C11).
"""
from __future__ import annotations

import ast
from typing import List, Optional, Set

from ..core import control as C
from ..core import dataflow as D
from ..core.program import AnalysisError, AnchorError, is_self_attr, norm, parent, walk_local

EX = "ForestRuleExtractor"


class UnorderedMinimizeOrder(Exception):
    def __init__(self, node):
        super().__init__("MINIMIZE_ORDER is a set")
        self.node = node


def _order_from_enum(P, v) -> Optional[List[str]]:
    """MINIMIZE_ORDER written as a walk over the enum itself -- `tuple(b for b in RuleBucket if b is not
    RuleBucket.X)`, `tuple(RuleBucket)`, either inside `reversed(...)` -- is the definition order of
    the members of RuleBucket (read from the class body), filtered: an order like any other."""
    rev = False
    while isinstance(v, ast.Call) and isinstance(v.func, ast.Name) and v.func.id in ("tuple", "list", "reversed") and len(v.args) == 1 and not v.keywords:
        if v.func.id == "reversed":
            rev = not rev
        v = v.args[0]
    node = None
    try:
        node = P.need_class("RuleBucket").node
    except Exception:       # noqa: BLE001 -- no such class: not this form
        return None
    members = [t.id for st in node.body if isinstance(st, ast.Assign) for t in st.targets if isinstance(t, ast.Name)]
    if isinstance(v, ast.Name) and v.id == "RuleBucket":
        out = list(members)
    elif isinstance(v, (ast.GeneratorExp, ast.ListComp)) and len(v.generators) == 1 and norm(v.generators[0].iter) == "RuleBucket" \
            and isinstance(v.generators[0].target, ast.Name) and norm(v.elt) == v.generators[0].target.id:
        var = v.generators[0].target.id
        drop: Set[str] = set()
        tests = []
        for t in v.generators[0].ifs:
            tests += list(t.values) if isinstance(t, ast.BoolOp) and isinstance(t.op, ast.And) else [t]
        for t in tests:
            if isinstance(t, ast.Compare) and len(t.ops) == 1 and isinstance(t.ops[0], (ast.IsNot, ast.NotEq)) and norm(t.left) == var \
                    and isinstance(t.comparators[0], ast.Attribute) and norm(t.comparators[0].value) == "RuleBucket":
                drop.add(t.comparators[0].attr)
            elif isinstance(t, ast.Compare) and len(t.ops) == 1 and isinstance(t.ops[0], ast.NotIn) and norm(t.left) == var \
                    and isinstance(t.comparators[0], (ast.Tuple, ast.List, ast.Set)) \
                    and all(isinstance(e, ast.Attribute) and norm(e.value) == "RuleBucket" for e in t.comparators[0].elts):
                drop |= {e.attr for e in t.comparators[0].elts}
            else:
                raise AnalysisError(f"MINIMIZE_ORDER filter `{norm(t)}` not understood")
        out = [m_ for m_ in members if m_ not in drop]
    else:
        return None
    return out[::-1] if rev else out


def _minimize_order(P) -> List[str]:
    cls = P.need_class(EX)
    v = cls.class_attrs.get("MINIMIZE_ORDER")
    if isinstance(v, (ast.Set, ast.SetComp)) or (isinstance(v, ast.Call) and isinstance(v.func, ast.Name) and v.func.id in ("set", "frozenset")):
        raise UnorderedMinimizeOrder(v)
    derived = _order_from_enum(P, v)
    if derived is not None:
        return derived
    if v is None or not isinstance(v, (ast.Tuple, ast.List)):
        raise AnchorError("ForestRuleExtractor.MINIMIZE_ORDER is no longer a literal tuple")
    out = []
    for e in v.elts:
        if isinstance(e, ast.Attribute) and norm(e.value) == "RuleBucket":
            out.append(e.attr)
        else:
            raise AnalysisError(f"MINIMIZE_ORDER element `{norm(e)}` not understood")
    return out


def e1_bucket_exhaustiveness(ctx) -> None:
    P = ctx.P
    try:
        order = _minimize_order(P)
    except UnorderedMinimizeOrder as u:
        order = [e.attr for e in getattr(u.node, "elts", []) if isinstance(e, ast.Attribute)]
    produced: Set[str] = set()
    n = 0
    for fi in P.all_functions():
        if fi.name != "forest_key":
            continue
        for c in walk_local(fi.node):
            if isinstance(c, ast.Call) and norm(c.func) == "ForestRuleKey":
                n += 1
                ctx.analysed(fi)
                args = list(c.args) + [k.value for k in c.keywords]
                if len(args) != 4:
                    raise AnalysisError(f"ForestRuleKey(...) with {len(args)} arguments in {fi.qualname}")
                buckets = {a.attr for a in ast.walk(args[3]) if isinstance(a, ast.Attribute) and norm(a.value) == "RuleBucket"}
                if not buckets:
                    raise AnalysisError(f"cannot enumerate the buckets of {fi.qualname}: `{norm(args[3])}`")
                produced |= buckets
                missing = sorted(buckets - set(order))
                if missing:
                    ctx.violation("E1", c, f"{fi.qualname} can produce bucket(s) {missing} that ForestRuleExtractor.MINIMIZE_ORDER does not handle: "
                                  "the database accepts the rule and extraction then raises")
                else:
                    ctx.ok("E1", f"{fi.qualname}: buckets {sorted(buckets)} are all minimised")
    if n < 3:
        ctx.floor("E1", 99)
    ctx.extra["buckets_produced"] = sorted(produced)
    ctx.extra["minimize_order"] = order
    if len(set(order)) != len(order):
        ctx.violation("E1", P.need_class(EX).node, "MINIMIZE_ORDER lists a bucket twice", construct="ForestRuleExtractor.MINIMIZE_ORDER")
    # the sorting table has a list for each bucket of the order
    m = P.need_method(EX, "_sorted_stable_rules", own=True)
    from ..core import pattern as PT
    t = norm(m.node)
    if PT.find_all(m.node, "{_M_b: [] for _M_b in self.MINIMIZE_ORDER}") or PT.find_all(m.node, "{_M_b: [] for _M_b in ForestRuleExtractor.MINIMIZE_ORDER}"):
        ctx.ok("E1", "_sorted_stable_rules prepares one list per bucket of MINIMIZE_ORDER")
    else:
        ctx.violation("E1", m.node, "_sorted_stable_rules no longer prepares a list for every bucket of MINIMIZE_ORDER", construct=f"{EX}._sorted_stable_rules")
    if "ruledb.pumping_subuniverse()" in t or ".pumping_subuniverse()" in t:
        ctx.ok("E1", "only rules of the pumping sub-universe are sorted into buckets")
    else:
        ctx.violation("E1", m.node, "_sorted_stable_rules must take its rules from pumping_subuniverse()", construct=f"{EX}._sorted_stable_rules source")


def e2_reverse_first(ctx) -> None:
    P = ctx.P
    try:
        order = _minimize_order(P)
    except UnorderedMinimizeOrder as u:
        ctx.violation("E2", u.node, "MINIMIZE_ORDER is a set: the buckets are minimised in hash order, so REVERSE is not guaranteed to come first and the rules chosen differ "
                      "from one interpreter (hash seed) to the next")
        return
    if order and order[0] == "REVERSE":
        ctx.ok("E2", f"REVERSE is minimised first (order {order})")
    else:
        ctx.violation("E2", P.need_class(EX).node, f"REVERSE must be minimised before every other bucket (order is {order}): otherwise an earlier "
                      "bucket sheds rules that only reverse rules can replace, and reverse rules are used although a choice without them exists",
                      construct="ForestRuleExtractor.MINIMIZE_ORDER")
    m = P.need_method(EX, "_minimize", own=True)
    ctx.analysed(m)
    loops = [n for n in walk_local(m.node) if isinstance(n, ast.For)]
    good = False
    for l in loops:
        if norm(l.iter) in ("ForestRuleExtractor.MINIMIZE_ORDER", "self.MINIMIZE_ORDER"):
            calls = [c for c in walk_local(l) if isinstance(c, ast.Call) and norm(c.func) == "self._minimize_key"
                     and len(c.args) == 1 and norm(c.args[0]) == norm(l.target)]
            good = bool(calls)
    if good:
        ctx.ok("E2", "_minimize walks MINIMIZE_ORDER in order")
    else:
        ctx.violation("E2", m.node, "_minimize no longer minimises the buckets in MINIMIZE_ORDER order", construct=f"{EX}._minimize")


def e3_key_function_agreement(ctx) -> None:
    P = ctx.P
    mod = P.module("rule_db.forest")
    want = ("self.classdb.get_label", "self.classdb.is_empty")
    n = 0
    for cls in mod.classes.values():
        for m in cls.methods.values():
            for c in walk_local(m.node):
                if isinstance(c, ast.Call) and isinstance(c.func, ast.Attribute) and c.func.attr == "forest_key":
                    n += 1
                    ctx.analysed(m)
                    args = [norm(a) for a in c.args] + [f"{k.arg}={norm(k.value)}" for k in c.keywords]
                    plain = [norm(a) for a in c.args]
                    kw = {k.arg: norm(k.value) for k in c.keywords}
                    gl = plain[0] if plain else kw.get("get_label")
                    ie = plain[1] if len(plain) > 1 else kw.get("is_empty")
                    if (gl, ie) == want:
                        ctx.ok("E3", f"{m.qualname}: forest_key(classdb.get_label, classdb.is_empty)")
                    else:
                        ctx.violation("E3", c, f"forest_key called with ({', '.join(args)}); the other sites use (classdb.get_label, classdb.is_empty): "
                                      "keys computed here do not equal the keys that were inserted, so the rule can never be found again")
    if n < 4:
        ctx.floor("E3", 99)
    # every reverse form is tried / inserted
    for cname, mname in ((EX, "_find_rule"), ("RuleDBForest", "add")):
        m = P.need_method(cname, mname, own=True)
        f = m.node
        ctx.analysed(m)
        revs = [c for c in walk_local(f) if isinstance(c, ast.Call) and isinstance(c.func, ast.Attribute) and c.func.attr == "to_reverse_rule"]
        if not revs:
            ctx.violation("E3", f, f"{m.qualname} no longer considers the reverse forms of a rule", construct=f"{m.qualname} reverse forms")
            continue
        for c in revs:
            rule_txt = norm(c.func.value)
            gen = None
            for a in _anc(c):
                if isinstance(a, (ast.GeneratorExp, ast.ListComp)):
                    gen = a
                    break
                if isinstance(a, ast.For):
                    gen = a
                    break
            okr = False
            if gen is not None:
                it = gen.generators[0].iter if not isinstance(gen, ast.For) else gen.iter
                tgt = gen.generators[0].target if not isinstance(gen, ast.For) else gen.target
                ifs = gen.generators[0].ifs if not isinstance(gen, ast.For) else []
                okr = (norm(it) == f"range(len({rule_txt}.children))" and len(c.args) == 1 and norm(c.args[0]) == norm(tgt) and not ifs)
            gt = C.guard_texts(f, c)
            rev_guard = (f"{rule_txt}.is_reversible()", True) in gt
            # nothing else may restrict which rules get their reverse forms (self.reverse is the database's own option)
            extra = sorted(t for t, p in gt if p and t not in (f"{rule_txt}.is_reversible()", "self.reverse") and not t.startswith("isinstance("))
            if okr and rev_guard and extra and mname == "_find_rule":
                ctx.violation("E3", c, f"reverse forms are only rebuilt under the extra condition(s) {extra}: a reverse rule filed under another bucket "
                              "(the reverse of an equivalence is filed as EQUIV) can then never be turned back into a rule")
                continue
            if okr and rev_guard:
                ctx.ok("E3", f"{m.qualname}: to_reverse_rule(i) for every i in range(len({rule_txt}.children)) under is_reversible()")
            elif not okr:
                ctx.violation("E3", c, "not every reverse form is considered: the index must range over range(len(rule.children)) unfiltered; "
                              "a key inserted for a skipped index can never be turned back into a rule")
            else:
                ctx.violation("E3", c, "reverse forms are built without the is_reversible() test")


def _anc(n):
    from ..core.program import ancestors
    return ancestors(n)


def e5_find_rule_exact(ctx) -> None:
    P = ctx.P
    m = P.need_method(EX, "_find_rule", own=True)
    f = m.node
    ctx.analysed(m)
    key_p = m.params()[1]
    rets = [r for r in C.returns_of(f) if r.value is not None]
    if not rets:
        ctx.violation("E5", f, "_find_rule returns nothing", construct=f"{EX}._find_rule returns")
    for r in rets:
        rt = norm(r.value)
        gt = C.guard_texts(f, r)
        good = any(p and (t.startswith(f"{rt}.forest_key(") and t.endswith(f"== {key_p}") or
                          t.startswith(f"{key_p} == {rt}.forest_key(")) for t, p in gt)
        if good:
            ctx.ok("E5", f"_find_rule returns `{rt}` only when its forest key equals the requested key")
        else:
            ctx.violation("E5", r, f"_find_rule returns `{rt}` without checking that its forest key equals the requested key")
    # all classes of the key are replayed
    t = norm(f)
    if f"({key_p}.parent,) + {key_p}.children" in t or f"({key_p}.parent, *{key_p}.children)" in t:
        ctx.ok("E5", "_find_rule replays the pack on the parent and on every child of the key (reverse rules live on a child)")
    else:
        ctx.violation("E5", f, "_find_rule must replay the pack on the parent and on every child of the key: a reverse rule is found from the class of one of its children",
                      construct=f"{EX}._find_rule classes")
    # rules(): cache lookup by key, only empty rules skipped
    rm = P.need_method(EX, "rules", own=True)
    g = rm.node
    ctx.analysed(rm)
    conts = [n for n in walk_local(g) if isinstance(n, ast.Continue)]
    for c in conts:
        gt = C.guard_texts(g, c)
        if any(p and t.startswith("isinstance(") and "EmptyStrategy" in t for t, p in gt):
            ctx.ok("E5", "rules(): only empty rules are left out (the specification adds them lazily)")
        else:
            ctx.violation("E5", c, "rules() skips a needed rule that is not an empty rule: the extracted specification has a class without a rule")
    loops = [n for n in walk_local(g) if isinstance(n, ast.For) and norm(n.iter) == "self.needed_rules"]
    if loops:
        ctx.ok("E5", "rules() turns every needed key into a rule")
    else:
        ctx.violation("E5", g, "rules() no longer walks self.needed_rules", construct=f"{EX}.rules loop")
    ys = C.yields_of(g)
    if not ys:
        ctx.violation("E5", g, "rules() yields nothing", construct=f"{EX}.rules yields")


def e7_minimise_bookkeeping(ctx) -> None:
    P = ctx.P
    m = P.need_method(EX, "_minimize_key", own=True)
    f = m.node
    ctx.analysed(m)
    apps = [c for c in walk_local(f) if isinstance(c, ast.Call) and norm(c.func) == "self.needed_rules.append"]
    if not apps:
        ctx.violation("E7", f, "_minimize_key never records a needed rule", construct=f"{EX}._minimize_key needed_rules")
    for c in apps:
        gt = C.guard_texts(f, c)
        if any((not p) and t.startswith("self._is_productive(") for t, p in gt):
            ctx.ok("E7", "a rule is kept only when the remaining rules are not productive without it")
        else:
            ctx.violation("E7", c, "a rule is recorded as needed without the `not self._is_productive(<all other rules>)` test")
    ip = P.need_method(EX, "_is_productive", own=True)
    t = norm(ip.node)
    if "TableMethod()" in t and ".add_rule_key(" in t and ".is_pumping(self.root_label)" in t:
        ctx.ok("E7", "_is_productive = a fresh TableMethod over the given keys pumps the root")
    else:
        ctx.violation("E7", ip.node, "_is_productive must rebuild a fresh TableMethod from the given keys and ask is_pumping(root_label)", construct=f"{EX}._is_productive")
    ch = P.need_method(EX, "check", own=True)
    t = norm(ch.node)
    if "self._is_productive(self.needed_rules)" in t and "len(lhs) == len(self.needed_rules)" in t:
        ctx.ok("E7", "check() asserts one rule per class and productivity of the result")
    else:
        ctx.note("ForestRuleExtractor.check no longer asserts productivity/uniqueness (informational)")
    gs = P.need_method("RuleDBForest", "get_specification_rules", own=True)
    t = norm(gs.node)
    if "ForestRuleExtractor(self.root_label, self, self.classdb, self.strategy_pack)" in t:
        ctx.ok("E7", "extraction is for the database's own root, classes and pack")
    else:
        ctx.violation("E7", gs.node, "get_specification_rules must extract for (self.root_label, self, self.classdb, self.strategy_pack)",
                      construct="RuleDBForest.get_specification_rules extractor")


INPLACE = {"pop", "clear", "append", "extend", "remove", "insert", "add", "discard", "update", "sort", "reverse", "popleft", "appendleft"}


def e8_alias_discipline(ctx) -> None:
    """A local name that aliases a container owned by `self` (x = self.attr[...] / self.attr)
    and is emptied / filled in place is never re-bound: sibling calls read the container
    through its owner, so `x = x[:i]` silently stops updating what they see."""
    P = ctx.P
    n = 0
    for cname in ("ForestRuleExtractor", "TableMethod", "RuleDBForest"):
        cls = P.need_class(cname)
        for m in cls.methods.values():
            f = m.node
            defs = D.definitions(f)
            for name, ds in defs.items():
                owners = [d for d in ds if d[3] == "assign" and d[1] is not None and not d[2] and _is_self_container(d[1])]
                if not owners:
                    continue
                muts = [c for c in walk_local(f) if isinstance(c, ast.Call) and isinstance(c.func, ast.Attribute) and c.func.attr in INPLACE
                        and isinstance(c.func.value, ast.Name) and c.func.value.id == name]
                if not muts:
                    continue
                n += 1
                ctx.analysed(m)
                others = [d for d in ds if d not in owners]
                if others:
                    for d in others:
                        ctx.violation("E8", d[0], f"`{name}` aliases `{norm(owners[0][1])}` and is updated in place elsewhere in {m.qualname}, but here it is re-bound: "
                                      "the container its owner (and every later minimisation step) sees is left untouched")
                else:
                    ctx.ok("E8", f"{m.qualname}: `{name}` (alias of {norm(owners[0][1])}) is only ever updated in place")
    scanned = sum(len(P.need_class(c).methods) for c in ("ForestRuleExtractor", "TableMethod", "RuleDBForest"))
    if scanned < 30:
        ctx.floor("E8", 99)
    elif n < 1:
        # the canonical form reads single-definition aliases through; only a re-bound one is still a local
        ctx.ok("E8", f"{scanned} methods of the forest classes: no local alias of a container owned by self is re-bound")


def _is_self_container(e: ast.AST) -> bool:
    while isinstance(e, ast.Subscript):
        e = e.value
    return isinstance(e, ast.Attribute) and isinstance(e.value, ast.Name) and e.value.id == "self"


PROJECTIONS = {"key", "parent", "children", "shifts", "bucket"}


def e9_every_key_is_filed(ctx) -> None:
    """_sorted_stable_rules files *every* key of the pumping sub-universe in its bucket.  Two
    keys that agree on a projection (parent and children) but differ in shifts or bucket are
    different rules; skipping on a projection loses the one inserted later, which may be the
    only productive / reverse-free one.  A skip on the whole key (exact duplicates) is fine."""
    P = ctx.P
    m = P.need_method(EX, "_sorted_stable_rules", own=True)
    f = m.node
    ctx.analysed(m)
    n = 0
    for loop in walk_local(f):
        if not isinstance(loop, ast.For) or "pumping_subuniverse()" not in norm(loop.iter):
            continue
        if not isinstance(loop.target, ast.Name):
            raise AnalysisError(f"{m.qualname}: loop target over the pumping sub-universe is not a plain name")
        v = loop.target.id
        appends = [c for c in walk_local(loop) if isinstance(c, ast.Call) and isinstance(c.func, ast.Attribute) and c.func.attr == "append"
                   and len(c.args) == 1 and isinstance(c.args[0], ast.Name) and c.args[0].id == v]
        if not appends:
            ctx.violation("E9", loop, f"{m.qualname}: the keys of the pumping sub-universe are no longer appended to a bucket as they are")
            n += 1
            continue
        for ap in appends:
            n += 1
            bad = False
            for t, _pol in C.flatten_guards(C.guards(f, ap, within=loop)):
                names = {x.id for x in ast.walk(t) if isinstance(x, ast.Name)}
                if v not in names:
                    continue
                proj = sorted({a.attr for a in ast.walk(t) if isinstance(a, ast.Attribute) and isinstance(a.value, ast.Name) and a.value.id == v and a.attr in PROJECTIONS})
                whole = any(isinstance(c, ast.Compare) and isinstance(c.left, ast.Name) and c.left.id == v and len(c.ops) == 1 and isinstance(c.ops[0], (ast.In, ast.NotIn))
                            for c in ast.walk(t))
                if proj:
                    bad = True
                    ctx.violation("E9", t, f"{m.qualname}: a key of the pumping sub-universe is filed only under a test on its projection(s) {proj}: "
                                  "two keys with the same classes but other shifts / bucket are different rules, and the one met later is lost")
                elif whole:
                    continue
                else:
                    raise AnalysisError(f"{m.qualname}: filing of `{v}` guarded by `{norm(t)}`, which is not understood")
            if not bad:
                ctx.ok("E9", f"{m.qualname}: every key is appended to res[<its bucket>] (no projection-based skip)")
    if n < 1:
        ctx.floor("E9", 99)


# Parameters whose every admissible argument decides the same thing: a memo may ignore them.
ORACLE_PARAMS = {
    "is_empty": "every admissible argument decides emptiness of the class; the answer does not depend on who is asked",
}


def e10_memo_keyed_by_arguments(ctx, modules=None) -> None:
    """A value stored on `self` under the memo idiom (`if self.x is None: self.x = v; return self.x`)
    must not depend on the method's arguments: the second call would get the first call's
    answer.  forest_key(get_label, is_empty) in particular depends on the class database of
    the searcher that asks (rules are re-keyed by a second searcher after expand_verified and
    through rule_cache)."""
    P = ctx.P
    n = 0
    for fi in P.all_functions():
        f = fi.node
        if not fi.cls or not isinstance(f, ast.FunctionDef):
            continue
        params = [p for p in D.param_names(f) if p not in ("self", "cls")]
        defs = D.definitions(f)

        def deps(e, depth=0, seen=None):
            out = set()
            for x in ast.walk(e):
                if isinstance(x, ast.Name):
                    if x.id in params:
                        out.add(x.id)
                    elif x.id in defs and depth < 6:
                        for d in defs[x.id]:
                            if d[1] is not None and d[1] is not e:
                                out |= deps(d[1], depth + 1)
            return out

        for st in walk_local(f):
            if not isinstance(st, (ast.Assign, ast.AnnAssign)) or st.value is None:
                continue
            tg = st.targets if isinstance(st, ast.Assign) else [st.target]
            for t in tg:
                if not is_self_attr(t):
                    continue
                memo = [g for g in C.flatten_guards(C.guards(f, st)) if g[1] and (_is_none_test(g[0], norm(t)) or _is_none_test_of_alias(f, g[0], t))]
                if not memo:
                    continue
                # a one-time link whose other branch *refuses* (raises) is not a memo: nobody is ever answered from the first value
                ifs = [i for i in walk_local(f) if isinstance(i, ast.If) and any(st is x for b_ in i.body for x in ast.walk(b_)) and i.orelse
                       and all(isinstance(o, ast.Raise) for o in i.orelse)]
                if ifs:
                    continue
                n += 1
                ctx.analysed(fi)
                d = sorted(deps(st.value) - set(ORACLE_PARAMS))
                if d:
                    ctx.violation("E10", st, f"{fi.qualname}: `{norm(t)}` is filled once (under `{norm(memo[0][0])}`) with a value that depends on the argument(s) {d}: "
                                  "a later call with other arguments is answered from the first call's arguments")
                else:
                    ctx.ok("E10", f"{fi.qualname}: memo `{norm(t)}` does not depend on the arguments")
    # the same for a table kept across calls: `hit = T.get(key); if hit is not None: return hit; ...; T[key] = v`
    for fi in P.all_functions():
        f = fi.node
        if not isinstance(f, ast.FunctionDef):
            continue
        params = [p for p in D.param_names(f) if p not in ("self", "cls")]
        if not params:
            continue
        defs = D.definitions(f)

        def pdeps(e, depth=0):
            out = set()
            for x in ast.walk(e):
                if isinstance(x, ast.Name):
                    if x.id in params:
                        out.add(x.id)
                    elif x.id in defs and depth < 6:
                        for d in defs[x.id]:
                            if d[1] is not None and d[1] is not e:
                                out |= pdeps(d[1], depth + 1)
            return out

        for st in walk_local(f):
            if not isinstance(st, ast.Assign) or len(st.targets) != 1 or not isinstance(st.targets[0], ast.Subscript):
                continue
            tab = st.targets[0].value
            if not isinstance(tab, ast.Attribute):
                continue            # a local table lives for one call only
            tabt = norm(tab)
            key = st.targets[0].slice
            hits = [r for r in C.returns_of(f) if r.value is not None and r.lineno < st.lineno and any(
                (isinstance(x, ast.Subscript) and norm(x.value) == tabt) or (isinstance(x, ast.Call) and norm(x.func) == f"{tabt}.get")
                for v in [r.value] + [d[1] for nm in {y.id for y in ast.walk(r.value) if isinstance(y, ast.Name)} for d in defs.get(nm, []) if d[1] is not None]
                for x in ast.walk(v))]
            if not hits:
                continue
            n += 1
            ctx.analysed(fi)
            missing = sorted(pdeps(st.value) - pdeps(key) - set(ORACLE_PARAMS))
            if missing:
                ctx.violation("E10", st, f"{fi.qualname}: the value kept in `{tabt}` depends on the argument(s) {missing}, which are not part of its key `{norm(key)}`: a later call "
                              "that differs only there is answered with the earlier result")
            else:
                ctx.ok("E10", f"{fi.qualname}: table `{tabt}` is keyed by everything its values depend on")
    # forest_key itself: what it returns is built in the call
    k = 0
    for fi in P.all_functions():
        if fi.name != "forest_key" or not fi.cls:
            continue
        rets = [r for r in C.returns_of(fi.node) if r.value is not None]
        for r in rets:
            k += 1
            v = D.resolve(D.definitions(fi.node), r.value)
            if is_self_attr(v) or (isinstance(v, ast.Attribute) and not isinstance(v, ast.Call)):
                ctx.violation("E10", r, f"{fi.qualname} returns stored state `{norm(v)}` instead of a key computed with the get_label it was handed")
            else:
                ctx.ok("E10", f"{fi.qualname}: the key returned is computed in the call")
    if n < 4 or k < 3:
        ctx.floor("E10", 99)


def _is_none_test_of_alias(f, t: ast.AST, target: ast.Attribute) -> bool:
    """`x is None` where x was read from the memo attribute (x = self.a / getattr(self, "a", None))."""
    if not (isinstance(t, ast.Compare) and len(t.ops) == 1 and isinstance(t.ops[0], ast.Is) and isinstance(t.left, ast.Name)
            and isinstance(t.comparators[0], ast.Constant) and t.comparators[0].value is None):
        return False
    for d in D.definitions(f).get(t.left.id, []):
        v = d[1]
        if v is None:
            continue
        if norm(v) == norm(target):
            return True
        if isinstance(v, ast.Call) and norm(v.func) == "getattr" and len(v.args) >= 2 and norm(v.args[0]) == "self" \
                and isinstance(v.args[1], ast.Constant) and v.args[1].value == target.attr:
            return True
    return False


def _is_none_test(t: ast.AST, target: str) -> bool:
    return (isinstance(t, ast.Compare) and len(t.ops) == 1 and isinstance(t.ops[0], ast.Is) and norm(t.left) == target
            and isinstance(t.comparators[0], ast.Constant) and t.comparators[0].value is None)


def e12_cache_before_recompute(ctx) -> None:
    """The extractor is handed the rules it already knows (expand_verified passes the rules
    of the specification being expanded, which the offered pack may be unable to make
    again); a needed key found there is not recomputed.  `d.get(k, f(k))` evaluates f(k)
    whether or not k is in d."""
    P = ctx.P
    m = P.need_method(EX, "rules", own=True)
    f = m.node
    ctx.analysed(m)
    calls = [c for c in walk_local(f) if isinstance(c, ast.Call) and norm(c.func) == "self._find_rule"]
    if not calls:
        ctx.violation("E12", f, "ForestRuleExtractor.rules no longer recomputes the keys that are not cached", construct=f"{EX}.rules _find_rule")
        return
    for c in calls:
        par = getattr(c, "_parent", None)
        if isinstance(par, ast.Call) and isinstance(par.func, ast.Attribute) and par.func.attr in ("get", "setdefault", "pop") and c in par.args[1:]:
            ctx.violation("E12", par, f"`{norm(par)[:80]}` evaluates `{norm(c)}` before looking the key up: a cached rule that the pack cannot make again makes the extraction "
                          "raise although the rule is at hand")
            continue
        key = norm(c.args[0]) if c.args else "?"
        gs = C.guard_texts(f, c)
        # `x = cache.get(key)` ... `if x is None: x = self._find_rule(key)`
        via_get = False
        for t, pol in gs:
            if pol and t.endswith(" is None"):
                nm = t[: -len(" is None")]
                for d in D.definitions(f).get(nm, []):
                    if d[1] is not None and isinstance(d[1], ast.Call) and isinstance(d[1].func, ast.Attribute) and d[1].func.attr == "get" \
                            and len(d[1].args) == 1 and norm(d[1].args[0]) == key and C.dominates(f, d[0], c):
                        via_get = True
        if via_get or any((not pol) and t.startswith(f"{key} in ") for t, pol in gs) or any(pol and t.startswith(f"{key} not in ") for t, pol in gs):
            ctx.ok("E12", "a needed key is recomputed only when the cache does not hold it")
        else:
            ctx.violation("E12", c, f"`{norm(c)}` is evaluated without `{key} not in <cache>`: cached rules are recomputed (and fail when the pack cannot make them)")


def e13_reverse_switch_read_live(ctx) -> None:
    """`reverse` is a switch of a live database: expand_comb_class seeds the new database with
    reverse=False and turns it on afterwards (`ruledb.reverse = reverse`).  RuleDBForest.add
    therefore asks `self.reverse` each time it is handed a rule; a copy taken in __init__ (or
    anything derived from one) never sees the switch being turned."""
    P = ctx.P
    m = P.need_method("RuleDBForest", "add", own=True)
    f = m.node
    ctx.analysed(m)
    revs = [c for c in walk_local(f) if isinstance(c, ast.Call) and isinstance(c.func, ast.Attribute) and c.func.attr == "to_reverse_rule"]
    if not revs:
        ctx.violation("E13", f, "RuleDBForest.add no longer inserts the reverse forms of a reversible rule", construct="RuleDBForest.add reverse forms")
        return
    for c in revs:
        gs = {(norm(e), p_) for e, p_ in C.flatten_guards(C.guards(f, c))}
        if ("self.reverse", True) in gs:
            ctx.ok("E13", "reverse forms are inserted under the database's current `reverse` switch")
        else:
            ctx.violation("E13", c, "the reverse forms are inserted under " + str(sorted(t for t, p_ in gs if p_)[:3]) + ", not under `self.reverse` as it is now: the switch is turned "
                          "on after a database was seeded (expand_verified's second attempt), and a value remembered at construction never sees that")
    cons = P.need_method("CombinatorialSpecification", "expand_comb_class", own=True)
    ctx.analysed(cons)
    mk = [c for c in walk_local(cons.node) if isinstance(c, ast.Call) and norm(c.func) == "RuleDBForest"]
    if mk and all(any(k.arg == "reverse" and isinstance(k.value, ast.Constant) and k.value.value is False for k in c.keywords) for c in mk):
        ctx.ok("E13", "the database that is seeded with the old rules is created with reverse=False")
    else:
        ctx.violation("E13", mk[0] if mk else cons.node, "expand_comb_class must create the database it seeds with reverse=False (the default is True): the old rules would be "
                      "inserted with all their reverse forms, including reverses of rules that are themselves reverse rules")


def e14_every_bucket_minimised(ctx) -> None:
    """_minimize runs _minimize_key for every bucket of MINIMIZE_ORDER: the rules of a bucket
    that is skipped are all kept as they are -- or, after the others were minimised against
    them, none of them is in needed_rules at all."""
    P = ctx.P
    m = P.need_method(EX, "_minimize", own=True)
    f = m.node
    ctx.analysed(m)
    loops = [l for l in walk_local(f) if isinstance(l, ast.For) and "MINIMIZE_ORDER" in norm(l.iter)]
    if not loops:
        raise AnalysisError("E14: _minimize no longer walks MINIMIZE_ORDER")
    lp = loops[0]
    calls = [c for c in walk_local(lp) if isinstance(c, ast.Call) and norm(c.func) == "self._minimize_key"]
    skips = [n for n in walk_local(lp) if isinstance(n, (ast.Continue, ast.Break))]
    guarded = [c for c in calls if C.guards(f, c, within=lp)]
    if calls and not skips and not guarded and norm(calls[0].args[0]) == norm(lp.target):
        ctx.ok("E14", "every bucket of MINIMIZE_ORDER is minimised, unconditionally")
    else:
        bad = (skips or guarded or [lp])[0]
        ctx.violation("E14", bad, "a bucket of MINIMIZE_ORDER can be skipped in _minimize: its rules are never moved to needed_rules, so a class that is only counted through that "
                      "bucket (a cached reverse rule in a database created with reverse=False) ends up without a rule")


def e15_lookup_table_keyed_by_own_key(ctx) -> None:
    """rules() answers a needed key from a table before it recomputes the rule.  What the
    table holds under a key k is a rule whose own forest_key is k: every entry is visibly
    `(r.forest_key(...), r)`.  A table brought in from elsewhere is traced to its writers."""
    P = ctx.P
    m = P.need_method(EX, "rules", own=True)
    f = m.node
    loops = [n for n in walk_local(f) if isinstance(n, ast.For) and norm(n.iter) == "self.needed_rules" and isinstance(n.target, ast.Name)]
    if not loops:
        return      # E5 reports this
    rk = loops[0].target.id
    tables: Set[str] = set()
    for n in walk_local(loops[0]):
        if isinstance(n, ast.Compare) and len(n.ops) == 1 and isinstance(n.ops[0], (ast.In, ast.NotIn)) and norm(n.left) == rk and isinstance(n.comparators[0], ast.Name):
            tables.add(n.comparators[0].id)
        if isinstance(n, ast.Call) and isinstance(n.func, ast.Attribute) and n.func.attr == "get" and isinstance(n.func.value, ast.Name) and n.args and norm(n.args[0]) == rk:
            tables.add(n.func.value.id)
        if isinstance(n, ast.Subscript) and isinstance(n.value, ast.Name) and norm(n.slice) == rk and isinstance(n.ctx, ast.Load):
            tables.add(n.value.id)
    if not tables:
        raise AnalysisError("E15: rules() no longer answers needed keys from a table")

    def own_pair(k: ast.AST, v: ast.AST) -> bool:
        return isinstance(k, ast.Call) and isinstance(k.func, ast.Attribute) and k.func.attr == "forest_key" and norm(k.func.value) == norm(v)

    def foreign(src: ast.AST) -> None:
        """`src` is poured into the table as it is: find who fills it."""
        s = D.expanded(f, src)
        while isinstance(s, ast.Call) and norm(s.func) in ("dict",) and len(s.args) == 1:
            s = s.args[0]
        if isinstance(s, ast.IfExp):
            for arm in (s.body, s.orelse):
                if not (isinstance(arm, (ast.Dict, ast.Tuple, ast.List)) and not getattr(arm, "keys", getattr(arm, "elts", None))):
                    foreign(arm)
            return
        if not (isinstance(s, ast.Name) and s.id in m.params()):
            raise AnalysisError(f"E15: the table of rules() is filled from `{norm(src)[:60]}`, which the analysis cannot trace")
        pos = m.params().index(s.id) - 1
        n_call = 0
        for fi in P.all_functions():
            for c in walk_local(fi.node):
                if not (isinstance(c, ast.Call) and isinstance(c.func, ast.Attribute) and c.func.attr == "rules" and fi.cls is not None
                        and (len(c.args) > pos or any(k.arg == s.id for k in c.keywords))):
                    continue
                recv = D.expanded(fi.node, c.func.value)
                if not (isinstance(recv, ast.Call) and norm(recv.func) == EX):
                    continue
                arg = c.args[pos] if len(c.args) > pos else [k.value for k in c.keywords if k.arg == s.id][0]
                if not is_self_attr(arg):
                    raise AnalysisError(f"E15: {fi.qualname} hands `{norm(arg)[:40]}` to rules() as a table")
                n_call += 1
                attr = arg.attr
                for mm in (x for k in P.mro(fi.cls) for x in k.methods.values()):
                    g = mm.node
                    for w in walk_local(g):
                        kv = None
                        if isinstance(w, ast.Assign) and len(w.targets) == 1 and isinstance(w.targets[0], ast.Subscript) and is_self_attr(w.targets[0].value, attr):
                            kv = (w.targets[0].slice, w.value)
                        elif isinstance(w, ast.Call) and isinstance(w.func, ast.Attribute) and w.func.attr == "setdefault" and is_self_attr(w.func.value, attr) and len(w.args) == 2:
                            kv = (w.args[0], w.args[1])
                        elif isinstance(w, ast.Call) and isinstance(w.func, ast.Attribute) and w.func.attr == "update" and is_self_attr(w.func.value, attr):
                            raise AnalysisError(f"E15: {mm.qualname} fills self.{attr} in bulk")
                        if kv is None:
                            continue
                        k, v = kv
                        cands = [D.expanded(g, k)]
                        if isinstance(k, ast.Name):
                            # a loop variable: every element the list can hold
                            for lp in C.enclosing_loops(g, w):
                                if isinstance(lp, ast.For) and norm(lp.target) == k.id and isinstance(lp.iter, ast.Name):
                                    cands = []
                                    for d in D.definitions(g).get(lp.iter.id, []):
                                        if isinstance(d[1], (ast.List, ast.Tuple)):
                                            cands.extend(d[1].elts)
                                    for x in walk_local(g):
                                        if isinstance(x, ast.Call) and isinstance(x.func, ast.Attribute) and norm(x.func.value) == lp.iter.id and x.func.attr in ("append", "extend") and x.args:
                                            a0 = x.args[0]
                                            cands.append(a0.elt if isinstance(a0, (ast.GeneratorExp, ast.ListComp)) else a0)
                        if not cands:
                            raise AnalysisError(f"E15: cannot tell which keys {mm.qualname} files rules under")
                        bad = [x for x in cands if not own_pair(x, v)]
                        if bad:
                            ctx.violation("E15", w, f"{mm.qualname} files `{norm(v)[:30]}` under `{norm(bad[0])[:70]}`, which is not that rule's own forest key; rules() answers a "
                                          "needed key from this table, so for such a key it hands back a rule of another class (one class gets two rules, another none)")
                        else:
                            ctx.ok("E15", f"{mm.qualname}: rules are filed in self.{attr} under their own forest key")
        if not n_call:
            raise AnalysisError("E15: no caller of rules() found for the extra table")

    for t in sorted(tables):
        for d in D.definitions(f).get(t, []):
            v = d[1]
            if v is None:
                raise AnalysisError(f"E15: `{t}` in rules() is bound in a way the analysis does not read")
            if isinstance(v, ast.DictComp):
                if own_pair(v.key, v.value):
                    ctx.ok("E15", "the table of known rules is keyed by each rule's own forest key")
                else:
                    ctx.violation("E15", v, f"the table rules() answers from maps `{norm(v.key)[:60]}` to `{norm(v.value)[:30]}`: the rule found under a key is not the rule with that key")
            elif isinstance(v, ast.Dict) and not v.keys:
                pass
            elif isinstance(v, ast.Call) and norm(v.func) == "dict" and not v.args and not v.keywords:
                pass
            else:
                foreign(v)
        for x in walk_local(f):
            if isinstance(x, ast.Call) and isinstance(x.func, ast.Attribute) and isinstance(x.func.value, ast.Name) and x.func.value.id == t and x.func.attr == "update" and x.args:
                a0 = x.args[0]
                if isinstance(a0, (ast.GeneratorExp, ast.ListComp)) and isinstance(a0.elt, ast.Tuple) and len(a0.elt.elts) == 2:
                    if own_pair(a0.elt.elts[0], a0.elt.elts[1]):
                        ctx.ok("E15", "the table of known rules is keyed by each rule's own forest key")
                    else:
                        ctx.violation("E15", x, f"`{norm(x)[:80]}` files a rule under a key that is not its own forest key")
                elif isinstance(a0, ast.DictComp):
                    if not own_pair(a0.key, a0.value):
                        ctx.violation("E15", x, f"`{norm(x)[:80]}` files a rule under a key that is not its own forest key")
                    else:
                        ctx.ok("E15", "the table of known rules is keyed by each rule's own forest key")
                else:
                    foreign(a0)
            if isinstance(x, ast.Assign) and len(x.targets) == 1 and isinstance(x.targets[0], ast.Subscript) and isinstance(x.targets[0].value, ast.Name) and x.targets[0].value.id == t:
                if not own_pair(x.targets[0].slice, x.value):
                    ctx.violation("E15", x, f"`{norm(x)[:80]}` files a rule under a key that is not its own forest key")
