"""
Driver of engine S for C10: shapes, obligations S1/S2 (affine certificates), S3, S4.
"""
from __future__ import annotations

import ast
import itertools
from typing import Any, Dict, List, Optional, Tuple

from ..core import control as C
from ..core import dataflow as D
from ..core.program import AnalysisError, AnchorError, ClassInfo, Program, norm, walk_local
from . import provenance as PV
from .sizeflow import (
    NONE, UNK, Aff, Bnd, BoolV, ClassObj, Inst, Interp, Join, Prov, Record, Summ, Tup, nonneg_certificate,
)

N = Aff.atom("n")


def partitions(k: int) -> List[List[int]]:
    """Set partitions of range(k) as block-id lists (restricted growth strings)."""
    out = []

    def rec(prefix, mx):
        if len(prefix) == k:
            out.append(list(prefix))
            return
        for b in range(mx + 2):
            rec(prefix + [b], max(mx, b))

    rec([0], 0) if k else out.append([])
    return out


def strategy_families(P: Program) -> List[ClassInfo]:
    base = P.need_class("Strategy")
    fams = []
    for c in P.classes.values():
        if base in P.mro(c) and c is not base and all(m in c.methods for m in ("shifts", "constructor", "reverse_constructor")):
            fams.append(c)
    if len(fams) < 2:
        raise AnchorError(f"expected at least two concrete strategy families (product, union), found {[c.name for c in fams]}")
    return sorted(fams, key=lambda c: c.name)


def _upper_bounds(v: Any) -> Optional[List[Aff]]:
    if isinstance(v, Aff):
        return [v]
    if isinstance(v, Bnd):
        return list(v.ups)
    if isinstance(v, Join):
        # every alternative must be bounded; the weakest alternative decides
        alts = [_upper_bounds(x) for x in v.vals]
        if any(a is None for a in alts):
            return None
        # a bound valid for all alternatives: try each candidate of the first against the others later
        return [u for a in alts for u in a] if len(alts) == 1 else None
    return None


class ShapeResult:
    def __init__(self):
        self.obligations: List[dict] = []


def _make_children(k: int, blocks: List[int], nonempty: Optional[int] = None) -> Tup:
    items = []
    for i in range(k):
        c = ClassObj(f"child{i}", f"c{blocks[i]}")
        c.index = i  # type: ignore[attr-defined]
        c.empty = None if nonempty is None else (i != nonempty)  # type: ignore[attr-defined]
        items.append(c)
    return Tup(items)


def _subst_shift(a: Aff) -> Aff:
    return a


def run_family(ctx, fam: ClassInfo, K: int, alias_k: int) -> Dict[str, int]:
    P = ctx.P
    stats = {"shapes": 0, "obligations": 0, "records": 0}
    for k in range(1, K + 1):
        parts = partitions(k) if k <= alias_k else [list(range(k))]
        for blocks in parts:
            _run_shape(ctx, fam, k, blocks, stats)
    return stats


def _fresh(P) -> Interp:
    return Interp(P)


def _call(I: Interp, fi, self_val, args, kwargs=None):
    return I.call_function(fi, self_val, list(args), kwargs or {}, [])


def _check_records(ctx, I: Interp, shape: str, shifts: Tup, stats, rule_fn: str) -> None:
    for node, msg in I.defects:
        ctx.violation("S1", node, f"{shape}: {msg}")
    I.defects.clear()
    for r in I.records:
        stats["records"] += 1
        ups = _upper_bounds(r.arg)
        site = f"{shape} {r.func} `{norm(r.node)[:60]}` provider={r.pid}"
        if r.pid == "self":
            allowed = N - Aff.const(1)
            rule = "S2"
            what = "its own terms only below n"
        else:
            q = int(r.pid[3:])
            if q >= len(shifts.items):
                ctx.violation("S1", r.node, f"{shape}: provider {r.pid} has no declared shift (shifts has {len(shifts.items)} entries)")
                continue
            sh = shifts.items[q]
            alts = sh.vals if isinstance(sh, Join) else [sh]
            if not all(isinstance(a, Aff) for a in alts):
                raise AnalysisError(f"sizeflow: declared shift of position {q} is not affine in {shape}: {sh!r}")
            # a shift that is one of several alternatives (max/min/conditional) must bound the reads whichever it is:
            # check against each; report the first that fails
            allowed = N - alts[0]
            for a in alts[1:]:
                cand = N - a
                ups_ = _upper_bounds(r.arg)
                if ups_ is not None and not any(nonneg_certificate(cand - u, r.facts) for u in ups_):
                    allowed = cand
            rule = "S1"
            what = f"child {q} at most at n - shift = {allowed!r}"
        if ups is None:
            raise AnalysisError(f"sizeflow: cannot bound the size `{r.arg!r}` asked of {r.pid} in {site}")
        cert = None
        for u in ups:
            cert = nonneg_certificate(allowed - u, r.facts)
            if cert:
                used = u
                break
        stats["obligations"] += 1
        if cert:
            ctx.ok(rule, f"{site}: reads <= {used!r}; allowed {allowed!r}; diff {(allowed - used)!r} >= 0 [{cert}]")
        else:
            ctx.violation(rule, r.node, f"{shape}: provider {r.pid} is asked for size up to {ups[0]!r} but the rule may read {what} "
                          f"(path facts: {[repr(f) + ' >= 0' for f in r.facts]}); the table method would accept a specification this rule cannot evaluate",
                          function=r.func, construct=f"{rule_fn} :: {norm(r.node)[:100]} :: {r.pid}")


def _run_shape(ctx, fam: ClassInfo, k: int, blocks: List[int], stats) -> None:
    P = ctx.P
    alias = "" if len(set(blocks)) == k else f" alias={blocks}"
    parent = ClassObj("parent", "P")
    parent.empty = False  # type: ignore[attr-defined]
    children = _make_children(k, blocks)
    strat = Inst(fam)
    # ---------------------------------------------------------------- forward
    I = _fresh(P)
    shifts = _as_tuple(ctx, _call(I, P.find_method(fam, "shifts"), strat, [parent, children]), f"{fam.name}.shifts")
    if not isinstance(shifts, Tup):
        raise AnalysisError(f"sizeflow: {fam.name}.shifts did not evaluate to a tuple for k={k}: {shifts!r}")
    shape = f"({fam.name}, forward, k={k}{alias})"
    stats["shapes"] += 1
    if len(shifts.items) != k:
        ctx.violation("S1", P.find_method(fam, "shifts").node, f"{shape}: shifts has {len(shifts.items)} entries for {k} children",
                      construct=f"{fam.name}.shifts arity")
        return
    cons = _call(I, P.find_method(fam, "constructor"), strat, [parent, children])
    if not isinstance(cons, Inst):
        raise AnalysisError(f"sizeflow: {fam.name}.constructor did not evaluate to a constructor instance: {cons!r}")
    gt = P.find_method(cons.cls, "get_terms")
    if gt is None:
        raise AnchorError(f"{cons.cls.name}.get_terms not found")
    ctx.analysed(gt)
    I.records.clear()
    subterms = Tup([Prov(f"sub{q}") for q in range(k)])
    _call(I, gt, cons, [Prov("self"), subterms, N])
    if not I.records:
        ctx.violation("S1", gt.node, f"{shape}: {cons.cls.name}.get_terms asks no provider for anything", construct=f"{cons.cls.name}.get_terms providers")
    _check_records(ctx, I, shape + f" {cons.cls.name}", shifts, stats, f"{cons.cls.name}.get_terms")
    ctx.extra.setdefault("declared_shifts", {})[shape] = [repr(s) for s in shifts.items]
    # ---------------------------------------------------------------- reverse
    rev = P.find_method(fam, "is_reversible")
    rr = P.need_class("ReverseRule")
    for idx in range(k):
        shape = f"({fam.name}, reverse, k={k}, idx={idx}{alias})"
        stats["shapes"] += 1
        I = _fresh(P)
        # the original rule object, as far as ReverseRule touches it
        orig = Inst(P.need_class("Rule"))
        tagged = Tup([Aff.atom(f"s{j}") for j in range(k)])
        orig.attrs.update({"comb_class": parent, "_children": children, "_strategy": strat, "_shifts": tagged,
                           "_constructor": NONE, "_non_empty_children": NONE})
        rinst = Inst(rr)
        _call(I, P.need_method("ReverseRule", "__init__", own=True), rinst, [orig, Aff.const(idx)])
        rchildren = rinst.attrs.get("_children")
        if not isinstance(rchildren, Tup) or len(rchildren.items) != k:
            raise AnalysisError(f"sizeflow: ReverseRule.__init__ children not understood for {shape}: {rchildren!r}")
        rsh_t = _as_tuple(ctx, _call(I, P.need_method("ReverseRule", "shifts", own=True), rinst, []), "ReverseRule.shifts")
        if not isinstance(rsh_t, Tup):
            raise AnalysisError(f"sizeflow: ReverseRule.shifts did not evaluate to a tuple for {shape}: {rsh_t!r}")
        if len(rsh_t.items) != k:
            ctx.violation("S1", P.need_method("ReverseRule", "shifts", own=True).node,
                          f"{shape}: ReverseRule.shifts has {len(rsh_t.items)} entries for {k} children", construct="ReverseRule.shifts arity")
            continue
        sub = {f"s{j}": shifts.items[j] for j in range(k)}

        def _sub(x):
            if isinstance(x, Aff):
                return x.subst(sub)
            if isinstance(x, Join):
                return Join([_sub(v) for v in x.vals])
            return x

        rshifts = Tup([_sub(x) for x in rsh_t.items])
        # S4r: position q of the children and position q of the shifts talk about the same class
        ok_map = True
        for q in range(k):
            cobj = rchildren.items[q]
            sh = rsh_t.items[q]
            alts = list(sh.vals) if isinstance(sh, Join) else [sh]
            if not all(isinstance(v, Aff) for v in alts) or not isinstance(cobj, ClassObj):
                raise AnalysisError(f"sizeflow: reverse position {q} not understood in {shape}")
            good = True
            for v in alts:      # every way the shifts can be computed must describe the same class
                plus = sorted(a for a, c_ in v.c.items() if c_ > 0)
                if q == 0:
                    good = good and cobj.name == "parent" and not plus
                else:
                    good = good and cobj.name.startswith("child") and plus == [f"s{cobj.name[5:]}"] and cobj.name != f"child{idx}"
            if not good:
                ok_map = False
                ctx.violation("S4", P.need_method("ReverseRule", "shifts", own=True).node,
                              f"{shape}: reverse child {q} is {cobj.name} but the shift declared at position {q} is {sh!r} "
                              "(s_j = shift of original child j): labels and shifts of the forest key do not correspond",
                              construct=f"ReverseRule.shifts position {q} vs children")
        if ok_map:
            ctx.ok("S4", f"{shape}: reverse children and reverse shifts are indexed alike")
        rcons = _call(I, P.find_method(fam, "reverse_constructor"), strat, [Aff.const(idx), parent, children])
        if not isinstance(rcons, Inst):
            raise AnalysisError(f"sizeflow: {fam.name}.reverse_constructor did not evaluate to an instance: {rcons!r}")
        rgt = P.find_method(rcons.cls, "get_terms")
        ctx.analysed(rgt)
        I.records.clear()
        _call(I, rgt, rcons, [Prov("self"), Tup([Prov(f"sub{q}") for q in range(k)]), N])
        if not I.records:
            ctx.violation("S1", rgt.node, f"{shape}: {rcons.cls.name}.get_terms asks no provider for anything", construct=f"{rcons.cls.name}.get_terms providers")
        _check_records(ctx, I, shape + f" {rcons.cls.name}", rshifts, stats, f"{rcons.cls.name}.get_terms")
        ctx.extra.setdefault("declared_shifts", {})[shape] = [repr(s) for s in rshifts.items]


# ------------------------------------------------------------- derived forms
def _as_tuple(ctx, v, what: str):
    """A Tup, or the position-wise join of the alternatives a function can return.  An
    alternative the interpreter knows nothing about (a value read from a table kept across
    calls, say) cannot be judged: it is noted as a shortfall -- which yields to violations
    found elsewhere in the run -- and the known alternatives are analysed."""
    if isinstance(v, Tup):
        return v
    if isinstance(v, Join):
        tups = [x for x in v.vals if isinstance(x, Tup)]
        rest = [x for x in v.vals if not isinstance(x, Tup)]
        if tups and len({len(t.items) for t in tups}) == 1:
            if rest:
                ctx.shortfalls.append(f"sizeflow: {what} can also return {rest!r}, which the analysis cannot follow")
            k = len(tups[0].items)
            items = []
            for q in range(k):
                alts = []
                for t in tups:
                    if not any(_same_val(t.items[q], a) for a in alts):
                        alts.append(t.items[q])
                items.append(alts[0] if len(alts) == 1 else Join(alts))
            return Tup(items)
    return None


def _same_val(a, b) -> bool:
    return repr(a) == repr(b)


def _plain_rule(P, strat, parent, children) -> Inst:
    r = Inst(P.need_class("Rule"))
    r.attrs.update({"comb_class": parent, "_children": children, "_strategy": strat, "_shifts": NONE,
                    "_constructor": NONE, "_non_empty_children": NONE})
    return r


def run_derived(ctx, fam: ClassInfo, K: int, stats) -> None:
    """EquivalenceRule, the equivalence form of a reverse rule, and EquivalencePathRule:
    constructors are built in rule.py, shifts come from AbstractRule.shifts."""
    P = ctx.P
    for k in range(1, K + 1):
        for j in range(k):
            parent = ClassObj("parent", "P")
            parent.empty = False  # type: ignore[attr-defined]
            children = _make_children(k, list(range(k)), nonempty=j)
            strat = Inst(fam)
            for form in ("equivalence", "reverse-equivalence"):
                shape = f"({fam.name}, {form}, k={k}, nonempty={j})"
                I = _fresh(P)
                rule = _plain_rule(P, strat, parent, children)
                if form == "reverse-equivalence":
                    rev = Inst(P.need_class("ReverseRule"))
                    _call(I, P.need_method("ReverseRule", "__init__", own=True), rev, [rule, Aff.const(j)])
                    src = rev
                else:
                    src = rule
                er = Inst(P.need_class("EquivalenceRule"))
                _call(I, P.need_method("EquivalenceRule", "__init__", own=True), er, [src])
                ch = er.attrs.get("_children")
                if not isinstance(ch, Tup) or len(ch.items) != 1:
                    raise AnalysisError(f"sizeflow: EquivalenceRule.__init__ children not understood in {shape}: {ch!r}")
                shifts = _call(I, P.find_method(er.cls, "shifts"), er, [])
                cons = I.getattr(er, "constructor", er.cls.node, _dummy_frame(I))
                if not isinstance(cons, Inst):
                    ctx.note(f"{shape}: the library builds no constructor for this form (NotImplementedError) -- nothing to bound")
                    continue
                if not isinstance(shifts, Tup) or len(shifts.items) != 1:
                    ctx.violation("S1", P.find_method(er.cls, "shifts").node, f"{shape}: shifts of the equivalence form is {shifts!r}, expected one entry",
                                  construct="EquivalenceRule shifts arity")
                    continue
                stats["shapes"] += 1
                gt = P.find_method(cons.cls, "get_terms")
                ctx.analysed(gt)
                I.records.clear()
                _call(I, gt, cons, [Prov("self"), Tup([Prov("sub0")]), N])
                if not I.records:
                    ctx.violation("S1", gt.node, f"{shape}: {cons.cls.name}.get_terms asks no provider", construct=f"{cons.cls.name}.get_terms providers")
                _check_records(ctx, I, shape + f" {cons.cls.name}", shifts, stats, f"{cons.cls.name}.get_terms")
    # equivalence paths of length 1..3 made of one-child forward rules
    for length in (1, 2, 3):
        shape = f"({fam.name}, equivalence-path, length={length})"
        I = _fresh(P)
        strat = Inst(fam)
        classes = [ClassObj(f"class{i}", f"p{i}") for i in range(length + 1)]
        for c in classes:
            c.empty = False  # type: ignore[attr-defined]
        rules = Tup([_plain_rule(P, strat, classes[i], Tup([classes[i + 1]])) for i in range(length)])
        ep = Inst(P.need_class("EquivalencePathRule"))
        _call(I, P.need_method("EquivalencePathRule", "__init__", own=True), ep, [rules])
        shifts = _call(I, P.find_method(ep.cls, "shifts"), ep, [])
        cons = I.getattr(ep, "constructor", ep.cls.node, _dummy_frame(I))
        if not isinstance(cons, Inst):
            ctx.note(f"{shape}: the library builds no constructor for this form -- nothing to bound")
            continue
        if not isinstance(shifts, Tup) or len(shifts.items) != 1:
            ctx.violation("S1", P.find_method(ep.cls, "shifts").node, f"{shape}: shifts of the path is {shifts!r}, expected one entry", construct="EquivalencePathRule shifts arity")
            continue
        stats["shapes"] += 1
        gt = P.find_method(cons.cls, "get_terms")
        I.records.clear()
        _call(I, gt, cons, [Prov("self"), Tup([Prov("sub0")]), N])
        if not I.records:
            ctx.violation("S1", gt.node, f"{shape}: {cons.cls.name}.get_terms asks no provider", construct=f"{cons.cls.name}.get_terms providers")
        _check_records(ctx, I, shape + f" {cons.cls.name}", shifts, stats, f"{cons.cls.name}.get_terms")


def _dummy_frame(I):
    from .sizeflow import Frame
    return Frame(None, None, {}, [], None)


# ----------------------------------------------------------------- S3 / S4
def s3_ensure_level(ctx) -> None:
    P = ctx.P
    m = P.need_method("Rule", "_ensure_level", own=True)
    f = m.node
    ctx.analysed(m)
    calls = [c for c in walk_local(f) if isinstance(c, ast.Call) and norm(c.func) == "self.constructor.get_terms"]
    if len(calls) != 1:
        ctx.violation("S3", f, "Rule._ensure_level must compute a level by exactly one call of self.constructor.get_terms", construct="Rule._ensure_level get_terms")
        return
    c = calls[0]
    a = [norm(x) for x in c.args]
    from .mapplumbing import _is_first_missing_level
    loops0 = [w for w in walk_local(f) if isinstance(w, ast.While)]
    apps0 = [x for x in walk_local(f) if isinstance(x, ast.Call) and norm(x.func) == "self.terms_cache.append"]
    if (len(a) == 3 and a[:2] == ["self.get_terms", "self.subterms"] and len(loops0) == 1 and len(apps0) == 1
            and _is_first_missing_level(f, loops0[0], c.args[2], "terms_cache", apps0[0])):
        ctx.ok("S3", "level computed = constructor.get_terms(self.get_terms, self.subterms, len(self.terms_cache)): n is exactly the first missing level")
    else:
        ctx.violation("S3", c, f"get_terms is called with ({', '.join(a)}): the size computed must be len(self.terms_cache) (the first missing level), "
                      "its own terms must be self.get_terms and the children's self.subterms")
    loops = [w for w in walk_local(f) if isinstance(w, ast.While)]
    apps = [x for x in walk_local(f) if isinstance(x, ast.Call) and norm(x.func) == "self.terms_cache.append"]
    okl = (len(loops) == 1 and norm(loops[0].test) in ("n >= len(self.terms_cache)", "len(self.terms_cache) <= n")
           and len(apps) == 1 and C.stmt_of(apps[0]) in loops[0].body
           and (C.followed_by(f, c, apps[0]) or any(x is c for x in ast.walk(apps[0]))))
    if okl:
        ctx.ok("S3", "exactly one level is appended per iteration, until level n exists")
    else:
        ctx.violation("S3", f, "Rule._ensure_level must append exactly one level per iteration of `while n >= len(self.terms_cache)`", construct="Rule._ensure_level loop")
    g = P.need_method("AbstractRule", "get_terms", own=True)
    t = norm(g.node)
    if "self._ensure_level(n)" in t and "return self.terms_cache[n]" in t:
        ctx.ok("S3", "get_terms(n) = ensure level n, then the cached level n")
    else:
        ctx.violation("S3", g.node, "AbstractRule.get_terms must ensure level n and return terms_cache[n]", construct="AbstractRule.get_terms")
    ss = P.need_method("AbstractRule", "set_subrecs", own=True)
    ctx.analysed(ss)
    done = False
    for n in walk_local(ss.node):
        if isinstance(n, ast.Assign) and any(norm(t) == "self.subterms" for t in n.targets):
            done = True
            v = n.value
            good = False
            if isinstance(v, ast.Call) and norm(v.func) == "tuple" and len(v.args) == 1 and isinstance(v.args[0], (ast.GeneratorExp, ast.ListComp)):
                g0 = v.args[0]
                if len(g0.generators) == 1 and not g0.generators[0].ifs and norm(g0.generators[0].iter) == "self.children":
                    tgt = norm(g0.generators[0].target)
                    good = norm(g0.elt) == f"get_subrule({tgt}).get_terms"
            if good:
                ctx.ok("S3", "subterms[q] is get_terms of the rule of children[q] (aligned, unfiltered)")
            else:
                ctx.violation("S3", n, "self.subterms must be the get_terms of the rules of self.children, in order and unfiltered")
    if not done:
        ctx.violation("S3", ss.node, "set_subrecs no longer binds self.subterms", construct="AbstractRule.set_subrecs subterms")


def s4_forest_keys(ctx) -> None:
    P = ctx.P
    n = 0
    for fi in P.all_functions():
        if fi.name != "forest_key" or fi.cls is None:
            continue
        f = fi.node
        for c in walk_local(f):
            if isinstance(c, ast.Call) and norm(c.func) == "ForestRuleKey":
                n += 1
                ctx.analysed(fi)
                args = list(c.args) + [k.value for k in c.keywords]
                gl = fi.params()[1]
                okp = norm(args[0]) == f"{gl}(self.comb_class)"
                okc = PV.aligned_image(f, args[1], {"self.children"}, fn_suffix=gl)
                oks = norm(args[2]) == "self.shifts()"
                if okp and okc and oks:
                    ctx.ok("S4", f"{fi.qualname}: key = (label of comb_class, labels of children in order, self.shifts())")
                else:
                    bad = [w for w, o in (("parent label", okp), ("children labels (aligned image of self.children)", okc), ("shifts = self.shifts()", oks)) if not o]
                    ctx.violation("S4", c, f"{fi.qualname}: forest key component(s) wrong: {', '.join(bad)}; position q of the shifts must describe position q of the children")
    if n < 3:
        ctx.floor("S4", 99)
    sh = P.need_method("AbstractRule", "shifts", own=True)
    ctx.analysed(sh)
    want = "self.strategy.shifts(self.comb_class, self.children)"
    asg = [n for n in walk_local(sh.node) if isinstance(n, (ast.Assign, ast.AnnAssign)) and any(norm(t) == "self._shifts" for t in (n.targets if isinstance(n, ast.Assign) else [n.target]))]
    rets = [r for r in C.returns_of(sh.node) if r.value is not None]
    vals = [norm(D.expanded(sh.node, n.value)) for n in asg] + [norm(D.expanded(sh.node, r.value)) for r in rets if norm(r.value) != "self._shifts"]
    if vals and all(v == want for v in vals):
        ctx.ok("S4", "Rule.shifts() = strategy.shifts(comb_class, children) of the rule's own classes, on every path")
    else:
        other = [v for v in vals if v != want]
        ctx.violation("S4", asg[0] if asg else sh.node, f"AbstractRule.shifts must be {want} on every path; it can also be `{(other or ['?'])[0][:70]}`: a made-up shift "
                      "tells the table method (and the reverse rule built from it) that terms are available which the constructor then reads beyond", construct="AbstractRule.shifts")
    # the counted child's entry is dropped by position, never by value (two children can have the same shift)
    rs = P.need_method("ReverseRule", "shifts", own=True)
    for c in walk_local(rs.node):
        if isinstance(c, ast.Call) and isinstance(c.func, ast.Attribute) and c.func.attr in ("remove", "index", "discard"):
            ctx.violation("S4", c, f"ReverseRule.shifts selects an entry of the shifts by value (`{norm(c)[:60]}`): when two children have the same shift the entry of the wrong "
                          "child goes, and positions no longer correspond to children")


# ------------------------------------------------------------------------ S0
def s0_compositions(ctx) -> None:
    """The summary engine S uses for utils.compositions (every yielded tuple t has arity k,
    sum n, mins_i <= t_i <= maxs_i, hence t_i <= n - sum of the other minima) and its
    completeness (every such tuple is yielded -- products count through it) are re-derived
    from the body: emptiness guard, base case, range of the first part, recursion."""
    from ..core import pattern as PT
    P = ctx.P
    fi = P.need_function("utils", "compositions")
    f = fi.node
    ctx.analysed(fi)
    ps = fi.params()
    if ps != ["n", "k", "min_sizes", "max_sizes"]:
        raise AnalysisError(f"S0: utils.compositions has parameters {ps}; the summary was written for (n, k, min_sizes, max_sizes)")
    # (a) nothing is yielded when the minima cannot fit
    rets = [r for r in C.returns_of(f) if r.value is None]
    guard_ok = False
    for r in rets:
        for e, pol in C.guards(f, r):
            if pol and isinstance(e, ast.BoolOp) and isinstance(e.op, ast.Or):
                terms = {norm(v) for v in e.values}
                if "n < sum(min_sizes)" in terms or "sum(min_sizes) > n" in terms:
                    guard_ok = True
            if pol and norm(e) in ("n < sum(min_sizes)", "sum(min_sizes) > n"):
                guard_ok = True
    # ... and gives up *only* when no composition can exist: each disjunct of the early return is one of the
    # known infeasibility conditions
    accepted = ("n < 0", "k <= 0", "k < 1", "n < sum(min_sizes)", "sum(min_sizes) > n",
                "all((_M_s is not None for _M_s in max_sizes)) and sum(max_sizes) < n",
                "all((_M_s is not None for _M_s in max_sizes)) and sum(cast(_A_, max_sizes)) < n")
    for r in rets:
        if C.enclosing_loops(f, r) or ("k == 1", True) in C.guard_texts(f, r):
            continue  # the return that ends the base case
        for e, pol in C.guards(f, r):
            if not pol:
                continue
            terms = e.values if isinstance(e, ast.BoolOp) and isinstance(e.op, ast.Or) else [e]
            for t in terms:
                if any(PT.match(PT.compile_pattern(a), t) is not None for a in accepted):
                    continue
                # leaving when the iterable of the final loop is empty is what that loop does anyway
                if isinstance(t, ast.UnaryOp) and isinstance(t.op, ast.Not) and isinstance(t.operand, ast.Name) and isinstance(f.body[-1], ast.For) \
                        and isinstance(f.body[-1].iter, ast.Name) and f.body[-1].iter.id == t.operand.id and not f.body[-1].orelse \
                        and len(D.definitions(f).get(t.operand.id, [])) == 1:
                    continue
                ctx.violation("S0", t, f"compositions returns nothing under `{norm(t)}`, which does not exclude that a composition exists "
                              "(accepted: n < 0, k <= 0, n < sum(min_sizes), all maxima known and sum(max_sizes) < n): products silently lose terms")
    if guard_ok:
        ctx.ok("S0", "compositions yields nothing when n < sum(min_sizes): every yielded part is at most n minus the other minima")
    else:
        ctx.violation("S0", f, "compositions no longer returns early when n < sum(min_sizes); the bound t_i <= n - sum(other minima) engine S relies on is not guaranteed",
                      construct="utils.compositions emptiness guard")
    # (b) base case
    base = [y for y in C.yields_of(f) if isinstance(y, ast.Yield) and y.value is not None and norm(y.value) == "(n,)"]
    if base and all(("k == 1", True) in C.guard_texts(f, y) for y in base):
        ctx.ok("S0", "base case k == 1 yields exactly (n,)")
    else:
        ctx.violation("S0", f, "the base case of compositions must yield (n,) exactly when k == 1", construct="utils.compositions base case")
    # (c) the first part ranges over [min_sizes[0], M] with M = its maximum, or anything >= n - sum(min_sizes[1:]) when unbounded
    def _rng(l):
        it = D.expanded(f, l.iter) if isinstance(l.iter, ast.Name) else l.iter
        return it if isinstance(it, ast.Call) and norm(it.func) == "range" and len(it.args) == 2 else None
    loops = [l for l in walk_local(f) if isinstance(l, ast.For) and _rng(l) is not None]
    if len(loops) != 1:
        raise AnalysisError("S0: cannot find the loop over the first part in utils.compositions")
    loop = loops[0]
    i = norm(loop.target)
    lo, hi = _rng(loop).args
    okr = norm(lo) == "min_sizes[0]"
    hi_src = hi
    if isinstance(hi, ast.BinOp) and isinstance(hi.op, ast.Add) and norm(hi.right) == "1":
        hi_src = hi.left
    else:
        okr = False
    if isinstance(hi_src, ast.Name):
        r = D.reaching_value(f, hi_src, hi_src.id)
        hi_src = r[1] if r is not None else hi_src
    m = PT.match(PT.compile_pattern("max_sizes[0] if max_sizes[0] is not None else _E_unb"), hi_src)
    unb = m["_E_unb"] if m else None
    ok_hi = unb in ("n", "n - sum(min_sizes[1:])")
    if okr and ok_hi:
        ctx.ok("S0", f"the first part ranges over min_sizes[0] .. (max_sizes[0] or {unb}): every feasible first part is tried, none below its minimum")
    else:
        ctx.violation("S0", loop, f"the first part of a composition must range over range(min_sizes[0], M + 1) with M = max_sizes[0], or n (at least "
                      f"n - sum(min_sizes[1:])) when unbounded; found range({norm(lo)}, {norm(hi)}) with unbounded case `{unb}`: compositions are missed "
                      "(products undercount) or parts fall below their minimum")
    # (d) recursion on the rest, prefixed by the first part
    rec = [c for c in walk_local(loop) if isinstance(c, ast.Call) and norm(c.func) == "compositions"]
    okrec = len(rec) == 1 and [norm(D.expanded(f, a)) for a in rec[0].args] == [f"n - {i}", "k - 1", "min_sizes[1:]", "max_sizes[1:]"]
    pref = PT.find_all(loop, "map((_M_i,).__add__, _A_)", {"_M_i": i}) or PT.find_all(loop, "(_M_i,) + _M_rest", {"_M_i": i})
    if okrec and pref:
        ctx.ok("S0", "the rest is composed recursively from n - first part, with the remaining minima / maxima, and prefixed by the first part")
    else:
        ctx.violation("S0", loop, "compositions must recurse on (n - i, k - 1, min_sizes[1:], max_sizes[1:]) and prefix each result with (i,)")


# ------------------------------------------------------------------------ V9 (C20)
def v9_equation_forms(ctx, K: int = 4) -> None:
    """Algebraic form of the equations of the four constructors, for classes without
    statistics and every arity up to K / flipped index: evaluated by the same abstract
    interpreter over Laurent polynomials in opaque function symbols f0, f1, ...:
      union  F = f0 + f1 + ...        complement  F = f0 - f1 - ...   (f0 = original parent)
      product F = f0 * f1 * ...       quotient    F = f0 / (f1 * ...)"""
    from .sizeflow import Poly, StrV
    P = ctx.P
    n = 0
    for fam in strategy_families(P):
        for k in range(1, K + 1):
            parent = ClassObj("parent", "P")
            children = _make_children(k, list(range(k)))
            strat = Inst(fam)
            I = _fresh(P)
            forms = []
            cons = _call(I, P.find_method(fam, "constructor"), strat, [parent, children])
            if isinstance(cons, Inst):
                forms.append(("forward", None, cons))
            for idx in range(k):
                rc = _call(I, P.find_method(fam, "reverse_constructor"), strat, [Aff.const(idx), parent, children])
                if isinstance(rc, Inst):
                    forms.append(("reverse", idx, rc))
            for direction, idx, c in forms:
                ge = P.find_method(c.cls, "get_equation")
                if ge is None:
                    continue
                ctx.analysed(ge)
                lhs = Poly.sym("F")
                fs = [Poly.sym(f"f{q}") for q in range(k)]
                I.defects.clear()
                res = _call(I, ge, c, [lhs, Tup(fs)])
                shape = f"({c.cls.name}, k={k}" + (f", idx={idx})" if idx is not None else ")")
                n += 1
                if I.defects:
                    for dn, msg in I.defects:
                        ctx.violation("V9", dn, f"{shape}: {msg}")
                    I.defects.clear()
                    continue
                if not (isinstance(res, Tup) and len(res.items) == 3 and isinstance(res.items[0], StrV) and isinstance(res.items[2], Poly) and res.items[1] == lhs):
                    raise AnalysisError(f"V9: {c.cls.name}.get_equation did not evaluate to Eq(lhs, <polynomial>) for {shape}: {res!r}")
                got = res.items[2]
                cname = c.cls.name
                if cname == "DisjointUnion":
                    want = Poly()
                    for x in fs:
                        want = want + x
                elif cname == "CartesianProduct":
                    want = Poly.const(1)
                    for x in fs:
                        want = want * x
                elif cname == "Complement":
                    want = fs[0]
                    for x in fs[1:]:
                        want = want - x
                elif cname == "Quotient":
                    want = fs[0]
                    for x in fs[1:]:
                        want = want.div(x)
                else:
                    raise AnalysisError(f"V9: no expected equation form for constructor {cname}")
                if got == want:
                    ctx.ok("V9", f"{shape}: F = {got!r}")
                else:
                    ctx.violation("V9", ge.node, f"{shape}: get_equation gives F = {got!r}, the rule means F = {want!r} (f0 is the first child of the form; for reverse "
                                  "forms the original parent)", construct=f"{cname}.get_equation form")
    if n < 10:
        ctx.floor("V9", 99)
