"""
Engine P -- provenance, alignment and (class, label) pairing (rules A1-A7 for C04; the
helpers are shared with C10/S4, C11, C19).  DESIGN.md section 3 (engine P), section 4.
"""
from __future__ import annotations

import ast
from typing import Dict, List, Optional, Set, Tuple

from ..core import control as C
from ..core import dataflow as D
from ..core.program import (
    AnalysisError,
    AnchorError,
    enclosing_function,
    is_self_attr,
    norm,
    parent,
    walk_local,
)

SEARCHER = "CombinatorialSpecificationSearcher"


# ------------------------------------------------------------------ alignment
def rv(f: ast.AST, e: ast.AST) -> ast.AST:
    """Follow dominating plain assignments of a name."""
    for _ in range(6):
        if isinstance(e, ast.Name) and parent(e) is not None:
            r = D.reaching_value(f, e, e.id)
            if r is None:
                return e
            e = r[1]
        else:
            return e
    return e


def aligned_image(f: ast.AST, e: ast.AST, base_texts: Set[str], fn_suffix: str = "get_label", depth: int = 0) -> bool:
    """e is an order-preserving, unfiltered, elementwise image of one of `base_texts`
    (e.g. 'rule.children') under a function whose dotted name ends with fn_suffix."""
    if depth > 6:
        return False
    e = D.strip_casts(rv(f, e))
    if isinstance(e, ast.Call) and norm(e.func) in ("tuple", "list") and len(e.args) == 1:
        return aligned_image(f, e.args[0], base_texts, fn_suffix, depth + 1)
    if isinstance(e, (ast.ListComp, ast.GeneratorExp)):
        if len(e.generators) != 1 or e.generators[0].ifs:
            return False
        g = e.generators[0]
        if not _is_base(f, g.iter, base_texts):
            return False
        elt = e.elt
        return (isinstance(elt, ast.Call) and norm(elt.func).endswith(fn_suffix) and len(elt.args) == 1
                and not elt.keywords and norm(elt.args[0]) == norm(g.target))
    if isinstance(e, ast.Call) and norm(e.func) == "map" and len(e.args) == 2:
        return norm(e.args[0]).endswith(fn_suffix) and _is_base(f, e.args[1], base_texts)
    return False


def _is_base(f: ast.AST, e: ast.AST, base_texts: Set[str]) -> bool:
    if norm(e) in base_texts:
        return True
    r = rv(f, e)
    return norm(r) in base_texts


# ------------------------------------------------------------------------ A1 / A2
def a1_a2_expand_yield(ctx) -> None:
    P = ctx.P
    m = P.need_method(SEARCHER, "_expand_class_with_strategy", own=True)
    f = m.node
    ctx.analysed(m)
    params = m.params()
    cc_p = params[1]
    defs = D.definitions(f)
    ys = [y for y in C.yields_of(f) if isinstance(y, ast.Yield)]
    if not ys:
        raise AnchorError("_expand_class_with_strategy yields nothing")
    # the rule variable: target of the loop over _rules_from_strategy
    rule_var = None
    for n in walk_local(f):
        if isinstance(n, ast.For) and isinstance(n.iter, ast.Call) and norm(n.iter.func).endswith("_rules_from_strategy"):
            rule_var = norm(n.target)
            it = n.iter
            if not (it.args and norm(it.args[0]) == cc_p):
                ctx.violation("A1", it, f"rules are computed for `{norm(it.args[0]) if it.args else '?'}`, not for the class being expanded ({cc_p})")
    if rule_var is None:
        raise AnalysisError("A1: loop over _rules_from_strategy not found in _expand_class_with_strategy")
    # label normalisation: label (param) may only be completed by get_label(comb_class) under `label is None`
    label_p = "label" if "label" in params else None
    label_clean = True
    if label_p:
        for st, val, path, kind in defs.get(label_p, []):
            if kind == "param":
                continue
            okn = (val is not None and isinstance(val, ast.Call) and norm(val.func).endswith("classdb.get_label")
                   and len(val.args) == 1 and norm(val.args[0]) == cc_p and (f"{label_p} is None", True) in C.guard_texts(f, st))
            if not okn:
                label_clean = False
                ctx.violation("A1", st, f"`{label_p}` (the label of the class being expanded) is re-bound to `{norm(val) if val is not None else '?'}`: "
                              "every later rule of the same call is recorded under that other label")
    # A1c: a rule is dropped as "returned the same class" only when its *own* parent is its only child
    # (a factory may hand back a rule for another class whose child is the class being expanded)
    for n in walk_local(f):
        if not isinstance(n, ast.Continue):
            continue
        for e, pol in C.flatten_guards(C.guards(f, n)):
            if not (pol and isinstance(e, ast.Compare) and len(e.ops) == 1 and isinstance(e.ops[0], ast.Eq)):
                continue
            sides = [norm(D.expanded(f, e.left)), norm(D.expanded(f, e.comparators[0]))]
            kid = f"{rule_var}.children[0]"
            if kid not in sides:
                continue
            other = sides[1 - sides.index(kid)]
            if other == f"{rule_var}.comb_class":
                ctx.ok("A1", "a rule is skipped as trivial only when its own parent equals its only child")
            else:
                ctx.violation("A1", e, f"a rule is skipped when `{other}` equals its only child; the rule's own parent is `{rule_var}.comb_class`: a rule handed back for "
                              "another class whose child is the class being expanded is thrown away (and a rule from the class to itself is kept)")
    for y in ys:
        v = y.value
        if not (isinstance(v, ast.Tuple) and len(v.elts) == 3):
            raise AnalysisError("A1: _expand_class_with_strategy does not yield a triple")
        s_e, e_e, r_e = v.elts
        if norm(r_e) != rule_var:
            ctx.violation("A2", y, f"the rule handed on is `{norm(r_e)}`, not the rule the labels were computed from (`{rule_var}`)")
        # ---- A1
        cands: List[Tuple[ast.AST, ast.AST]] = []  # (site, value)
        if isinstance(s_e, ast.Name):
            r = D.reaching_value(f, s_e, s_e.id)
            if r is not None:
                cands.append(r)
            else:
                for st, val, path, kind in defs.get(s_e.id, []):
                    if val is None or path:
                        raise AnalysisError(f"A1: definition of {s_e.id} not understood")
                    cands.append((st, val))
        else:
            cands.append((y, s_e))
        # a conditional expression is two definitions, each under its arm's condition
        flat: List[Tuple[ast.AST, ast.AST]] = []
        while cands:
            site, val = cands.pop()
            val = D.strip_casts(val)
            if isinstance(val, ast.IfExp):
                cands.extend([(val.body, val.body), (val.orelse, val.orelse)])
            else:
                flat.append((site, val))
        for site, val in flat:
            if isinstance(val, ast.Call) and norm(val.func).endswith("classdb.get_label") and len(val.args) == 1 \
                    and norm(val.args[0]) == f"{rule_var}.comb_class":
                ctx.ok("A1", f"start label = get_label({rule_var}.comb_class)")
            elif isinstance(val, ast.Name) and val.id == label_p:
                gt = C.guard_texts(f, site)
                if (f"{rule_var}.comb_class == {cc_p}", True) in gt or (f"{cc_p} == {rule_var}.comb_class", True) in gt \
                        or (f"{rule_var}.comb_class != {cc_p}", False) in gt or (f"{cc_p} != {rule_var}.comb_class", False) in gt:
                    if label_clean:
                        ctx.ok("A1", f"start label = {label_p} under `{rule_var}.comb_class == {cc_p}`")
                else:
                    ctx.violation("A1", site, f"the expanded class's label is used as parent label without the `{rule_var}.comb_class == {cc_p}` test: "
                                  "a rule whose parent is another class (factory rules) is recorded under the wrong label")
            else:
                ctx.violation("A1", site, f"parent label `{norm(val)}` is neither get_label({rule_var}.comb_class) nor the guarded label of the expanded class")
        # ---- A2
        if aligned_image(f, e_e, {f"{rule_var}.children"}):
            ctx.ok("A2", f"end labels are the labels of {rule_var}.children, in order, unfiltered")
        else:
            ctx.violation("A2", y, f"recorded child labels `{norm(rv(f, e_e))[:80]}` are not an order-preserving, unfiltered image of {rule_var}.children under classdb.get_label")


# ------------------------------------------------------------------------ A3
def _for_targets_of(f: ast.AST, name_node: ast.Name) -> Optional[Tuple[ast.For, Tuple[int, ...]]]:
    """If the name is bound (only) as a target of a `for`, return the loop and the
    position path of the name in the target."""
    defs = D.definitions(f)
    ds = defs.get(name_node.id, [])
    if len(ds) == 1 and ds[0][3] == "for" and isinstance(ds[0][0], ast.For):
        return ds[0][0], ds[0][2]
    return None


def _is_expand_iter(loop: ast.For) -> bool:
    return isinstance(loop.iter, ast.Call) and norm(loop.iter.func).endswith("_expand_class_with_strategy")


def a3_recording_sites(ctx) -> None:
    P = ctx.P
    n = 0
    for fi in P.all_functions():
        f = fi.node
        for c in walk_local(f):
            if not (isinstance(c, ast.Call) and isinstance(c.func, ast.Attribute)):
                continue
            recv = norm(c.func.value)
            is_db_add = c.func.attr == "add" and (recv.endswith("ruledb") or recv == "ruledb" or _is_ruledb_local(P, f, c.func.value))
            is_add_rule = c.func.attr == "add_rule"
            if not (is_db_add or is_add_rule):
                continue
            n += 1
            ctx.analysed(fi)
            if len(c.args) != 3 or c.keywords:
                ctx.violation("A3", c, "recording call without the positional (start, ends, rule) triple")
                continue
            why = _triple_provenance(P, fi, f, c)
            if why.startswith("!"):
                ctx.violation("A3", c, f"recorded triple has no sanctioned origin: {why[1:]}")
            else:
                ctx.ok("A3", f"{fi.qualname}: {norm(c)[:70]} <- {why}")
    if n < 7:
        ctx.floor("A3", 7)


def _is_ruledb_local(P, f, e: ast.AST) -> bool:
    """A local name bound to a freshly constructed rule database."""
    if not isinstance(e, ast.Name):
        return False
    r = D.reaching_value(f, e, e.id)
    if r is None or not isinstance(r[1], ast.Call):
        return False
    name = norm(r[1].func).split(".")[-1]
    cls = P.classes.get(name)
    return cls is not None and any(c.name == "RuleDBAbstract" for c in P.mro(cls))


def _triple_provenance(P, fi, f, c: ast.Call) -> str:
    a0, a1, a2 = c.args
    params = fi.params()
    # (v) pass-through of the function's own (start, ends, rule) parameters
    if all(isinstance(a, ast.Name) for a in (a0, a1, a2)):
        names = [a.id for a in (a0, a1, a2)]
        defs = D.definitions(f)
        if all(len(defs.get(nm, [])) == 1 and defs[nm][0][3] == "param" for nm in names) and fi.name in ("add_rule", "add"):
            idx = [params.index(nm) for nm in names]
            if idx == sorted(idx) and idx[1] == idx[0] + 1 and idx[2] == idx[1] + 1:
                return "its own (start, ends, rule) parameters, unchanged"
            return "!parameters passed on in another order"
    # (i) triple iterated out of _expand_class_with_strategy
    if all(isinstance(a, ast.Name) for a in (a0, a1, a2)):
        t = [_for_targets_of(f, a) for a in (a0, a1, a2)]
        if all(x is not None for x in t) and len({id(x[0]) for x in t}) == 1 and _is_expand_iter(t[0][0]):
            if [x[1] for x in t] == [(0,), (1,), (2,)]:
                return "a triple iterated out of _expand_class_with_strategy"
            return "!components of the expanded triple are permuted"
    # (ii) symmetry form (start_label, (end_labels[0],), rule)
    if isinstance(a0, ast.Name) and isinstance(a2, ast.Name) and isinstance(a1, ast.Tuple) and len(a1.elts) == 1:
        t0, t2 = _for_targets_of(f, a0), _for_targets_of(f, a2)
        e = rv(f, a1.elts[0])
        if t0 and t2 and t0[0] is t2[0] and _is_expand_iter(t0[0]) and t0[1] == (0,) and t2[1] == (2,):
            if isinstance(e, ast.Subscript) and isinstance(e.value, ast.Name) and isinstance(e.slice, ast.Constant) and e.slice.value == 0:
                te = _for_targets_of(f, e.value)
                if te and te[0] is t0[0] and te[1] == (1,):
                    return "symmetry form (start, (ends[0],), rule) of an expanded triple"
            return "!single child label is not ends[0] of the same expanded triple"
    # (iii) empty rule of the forest: (label, (), empty_strategy(comb_class))
    if isinstance(a1, ast.Tuple) and not a1.elts and isinstance(a0, ast.Name):
        r = rv(f, a2)
        t0 = _for_targets_of(f, a0)
        if isinstance(r, ast.Call) and len(r.args) == 1 and isinstance(r.args[0], ast.Name) and t0 is not None:
            callee = rv(f, r.func) if isinstance(r.func, ast.Name) else r.func
            mod = fi.module
            is_empty_strat = False
            if isinstance(r.func, ast.Name):
                # module-level `empty_strategy: EmptyStrategy = EmptyStrategy()`
                for st in mod.tree.body:
                    tgt = None
                    if isinstance(st, ast.AnnAssign) and isinstance(st.target, ast.Name):
                        tgt, val = st.target.id, st.value
                    elif isinstance(st, ast.Assign) and len(st.targets) == 1 and isinstance(st.targets[0], ast.Name):
                        tgt, val = st.targets[0].id, st.value
                    if tgt == r.func.id and val is not None and norm(val).startswith("EmptyStrategy"):
                        is_empty_strat = True
            elif norm(r.func).startswith("EmptyStrategy"):
                is_empty_strat = True
            tc = _for_targets_of(f, r.args[0])
            loop = t0[0]
            if is_empty_strat and tc is not None and tc[0] is loop and isinstance(loop.iter, ast.Call) and norm(loop.iter.func) == "zip":
                za = loop.iter.args
                pos_l, pos_c = t0[1], tc[1]
                if len(za) == 2 and len(pos_l) == 1 and len(pos_c) == 1:
                    lab_src, cls_src = norm(za[pos_l[0]]), norm(za[pos_c[0]])
                    gt = C.guard_texts(f, c)
                    emp = any(t.endswith(f"classdb.is_empty({r.args[0].id}, {a0.id})") and p for t, p in gt)
                    pe = any(t.endswith(".possibly_empty") and p for t, p in gt)
                    if cls_src.endswith(".children") and emp and pe:
                        return f"empty rule for a child drawn from zip({lab_src}, {cls_src}) under possibly_empty and is_empty"
                    return "!empty rule recorded without both the possibly_empty and the is_empty(child, label) guards on the paired (label, class)"
        return "!rule with no children that is not a guarded empty rule"
    # (iv) labels computed by get_label from the very rule passed
    if isinstance(a2, ast.Name):
        rname = a2.id
        s = rv(f, a0)
        if isinstance(s, ast.Call) and norm(s.func).endswith("classdb.get_label") and len(s.args) == 1 and norm(s.args[0]) == f"{rname}.comb_class":
            if aligned_image(f, a1, {f"{rname}.children"}):
                return f"labels computed by get_label from {rname}.comb_class / {rname}.children"
            return f"!child labels are not an aligned image of {rname}.children"
    return "!arguments are none of: expanded triple, symmetry form, guarded empty rule, get_label of the rule's own classes, pass-through parameters"


# ------------------------------------------------------------------------ A4
def a4_drop_guard(ctx) -> None:
    P = ctx.P
    m = P.need_method("RuleDBBase", "_clean_labels", own=True)
    f = m.node
    ctx.analysed(m)
    ends_p, rule_p = m.params()[1], m.params()[2]
    loops = [n for n in walk_local(f) if isinstance(n, ast.For) and isinstance(n.iter, ast.Call) and norm(n.iter.func) == "zip"]
    if len(loops) != 1:
        ctx.violation("A4", f, "_clean_labels no longer walks zip(rule.children, ends): children cannot be dropped pairwise", construct="RuleDBBase._clean_labels loop")
        return
    loop = loops[0]
    za = [norm(a) for a in loop.iter.args]
    if sorted(za) != sorted([f"{rule_p}.children", ends_p]) or not isinstance(loop.target, ast.Tuple) or len(loop.target.elts) != 2:
        ctx.violation("A4", loop, f"the drop loop pairs {za}, expected exactly ({rule_p}.children, {ends_p}) unmodified (aligned)")
        return
    cls_v = norm(loop.target.elts[za.index(f"{rule_p}.children")])
    lab_v = norm(loop.target.elts[za.index(ends_p)])
    ctx.ok("A4", f"drop loop pairs {rule_p}.children with {ends_p} (aligned zip)")
    # every way of skipping a child is under both guards
    skips = [n for n in walk_local(loop) if isinstance(n, ast.Continue)]
    appends = [c for c in walk_local(loop) if isinstance(c, ast.Call) and isinstance(c.func, ast.Attribute) and c.func.attr == "append"
               and len(c.args) == 1 and norm(c.args[0]) == lab_v]
    other_mut = [c for c in walk_local(f) if isinstance(c, ast.Call) and isinstance(c.func, ast.Attribute)
                 and c.func.attr in ("discard", "remove", "pop", "add", "insert", "extend", "clear")
                 and isinstance(c.func.value, ast.Name)]
    want_pe = (f"{rule_p}.possibly_empty", True)
    want_em = (f"self.classdb.is_empty({cls_v}, {lab_v})", True)
    for s in skips:
        gt = C.guard_texts(f, s)
        if want_pe in gt and want_em in gt:
            ctx.ok("A4", "a child is skipped only under possibly_empty AND is_empty(child_class, child_label)")
        else:
            missing = [t for t in (want_pe, want_em) if t not in gt]
            ctx.violation("A4", s, "a child label is dropped without " + " and ".join(f"`{t[0]}`" for t in missing)
                          + ": a non-empty child (or a child of a strategy that never produces empty children) disappears from the recorded rule")
    if len(appends) != 1:
        ctx.violation("A4", loop, f"every child that is not skipped must be kept exactly once (list.append({lab_v})); found {len(appends)} append(s)"
                      + (f" and other mutations: {[norm(c) for c in other_mut]}" if other_mut else ""))
        return
    app = appends[0]
    # the label is kept on every path on which the child is not dropped: either the append is
    # unconditional in the loop body (after the guarded skip), or the only condition on it is
    # the negation of a test that implies possibly_empty AND is_empty
    if C.stmt_of(app) in loop.body:
        ctx.ok("A4", "every non-skipped child label is kept")
    else:
        cond_ok = True
        raw = C.guards(f, app, within=loop)
        for t, pol in raw:
            stripped = C.flatten_guards([(t, pol)])
            if len(stripped) == 1 and stripped[0][1] is False:
                conj = {norm(x) for x, p in C.flatten_guards([(stripped[0][0], True)]) if p}
                if {want_pe[0], want_em[0]} <= conj:
                    continue
            cond_ok = False
        if raw and cond_ok:
            ctx.ok("A4", "a child label is kept unless possibly_empty AND is_empty(child_class, child_label)")
        else:
            ctx.violation("A4", app, "the kept label is appended conditionally: some non-empty children are not recorded")
    if other_mut:
        for c in other_mut:
            ctx.violation("A4", c, f"`{norm(c)}` alters the kept labels outside the guarded skip")
    lst = norm(app.func.value)
    # the list starts empty and the result contains every kept label (multiset-preserving)
    defs = D.definitions(f)
    init = defs.get(lst, [])
    if not (len(init) == 1 and init[0][1] is not None and norm(init[0][1]) in ("[]", "list()")):
        ctx.violation("A4", f, f"`{lst}` must start as an empty list", construct=f"RuleDBBase._clean_labels {lst} initial value")
    for r in C.returns_of(f):
        t = norm(r.value) if r.value is not None else ""
        if t in (f"tuple(sorted({lst}))", f"tuple({lst})", f"tuple(sorted({lst}, key=None))") or (r.value is not None and D.sorted_tuple_of(f, r) == lst):
            ctx.ok("A4", f"result is {t}: every kept label, with multiplicity")
        else:
            ctx.violation("A4", r, f"result `{t}` is not the kept labels themselves (tuple(sorted({lst}))): repeated or kept children may be lost")


# ------------------------------------------------------------------------ A5
REPLAY_LOOPS = (
    (SEARCHER, "_rules_from_strategy"),
    (SEARCHER, "_expand_class_with_strategy"),
    ("RecomputingDict", "__getitem__"),
    ("ForestRuleExtractor", "_rules_for_class"),
)


def a5_application_discipline(ctx, rule_id: str = "A5", only: Optional[Set[str]] = None) -> None:
    P = ctx.P
    for cname, mname in REPLAY_LOOPS:
        m = P.need_method(cname, mname, own=True)
        if only is not None and m.qualname not in only:
            continue
        f = m.node
        ctx.analysed(m)
        # (a) applications of a strategy object: x(comb_class) where x is known to be an AbstractStrategy
        n_app = 0
        for c in walk_local(f):
            if not (isinstance(c, ast.Call) and isinstance(c.func, ast.Name) and len(c.args) == 1 and not c.keywords):
                continue
            x = c.func.id
            gt = C.guard_texts(f, c)
            if (f"isinstance({x}, AbstractStrategy)", True) not in gt:
                continue
            n_app += 1
            h = C.catching_handler(f, c, "StrategyDoesNotApply")
            if h is None:
                ctx.violation(rule_id, c, f"strategy application `{norm(c)}` is outside any StrategyDoesNotApply handler: a strategy that does not apply aborts the run instead of being skipped")
            elif _handler_records(h):
                ctx.violation(rule_id, h, "the StrategyDoesNotApply handler yields/records something: a rule is produced for a class the strategy does not apply to")
            elif not _handler_is_per_item(f, c, h, x):
                ctx.violation(rule_id, h, f"one StrategyDoesNotApply handler covers the whole loop over `{x}`: the first strategy (or factory-made rule) that does not apply "
                              "ends the loop, and the ones after it -- possibly the one that made the rule being looked for -- are never tried")
            else:
                ctx.ok(rule_id, f"{m.qualname}: `{norm(c)}` applied under a StrategyDoesNotApply handler that skips")
        # (b) first touch of .children of a rule that may come ready-made from a factory
        rule_vars = _rule_vars(f, mname)
        for rvn in rule_vars:
            touches = [n for n in walk_local(f) if isinstance(n, ast.Attribute) and n.attr == "children"
                       and isinstance(n.value, ast.Name) and n.value.id == rvn]
            touches.sort(key=lambda n: (n.lineno, n.col_offset))
            if not touches:
                if mname == "_rules_for_class":
                    ctx.violation(rule_id, f, f"ready-made rule `{rvn}` from a factory is handed on without probing `{rvn}.children` under a "
                                  "StrategyDoesNotApply handler (the searcher and the memory-saving database skip such rules; extraction then fails)",
                                  construct=f"{m.qualname} factory rule {rvn}")
                continue
            first = touches[0]
            h = C.catching_handler(f, first, "StrategyDoesNotApply")
            if h is not None and not _handler_records(h) and not _handler_is_per_item(f, first, h, rvn):
                ctx.violation(rule_id, h, f"one StrategyDoesNotApply handler covers the whole loop that produces `{rvn}`: the first rule that does not apply ends the loop and the "
                              "remaining strategies / rules are never tried")
            elif h is not None and not _handler_records(h):
                ctx.ok(rule_id, f"{m.qualname}: first access of {rvn}.children is under a StrategyDoesNotApply handler")
                # later touches must be dominated by the first or handled themselves
                for t in touches[1:]:
                    if not (C.dominates(f, _outer_try(f, first), t) or C.catching_handler(f, t, "StrategyDoesNotApply") is not None
                            or C.dominates(f, C.stmt_of(first), t)):
                        ctx.violation(rule_id, t, f"`{rvn}.children` is also touched on a path that bypasses the guarded first access")
            else:
                ctx.violation(rule_id, first, f"first access of `{rvn}.children` is outside any StrategyDoesNotApply handler: a factory-made rule that "
                              "does not apply aborts instead of being skipped")
        if mname == "_rules_from_strategy" and n_app < 2:
            ctx.floor(rule_id, 99)


def _handler_is_per_item(f, node, h: ast.ExceptHandler, var: str) -> bool:
    """The try that h belongs to lies inside the innermost loop that binds `var` (or binds the
    name `var` was derived from in that loop): failing for one item skips that item only."""
    tr = getattr(h, "_parent", None)
    # a comprehension that binds `var` between the node and the try: the try is around all items
    cur = getattr(node, "_parent", None)
    while cur is not None and cur is not tr:
        if isinstance(cur, (ast.ListComp, ast.SetComp, ast.DictComp, ast.GeneratorExp)):
            if any(isinstance(x, ast.Name) and x.id == var for g in cur.generators for x in ast.walk(g.target)):
                return False
        cur = getattr(cur, "_parent", None)
    loops = C.enclosing_loops(f, node)
    for lp in loops:
        if isinstance(lp, ast.For):
            bound = {x.id for x in ast.walk(lp.target) if isinstance(x, ast.Name)}
            derived = var in bound
            if not derived:
                for d in D.definitions(f).get(var, []):
                    if d[1] is not None and any(isinstance(x, ast.Name) and x.id in bound for x in ast.walk(d[1])) and any(d[0] is y for y in ast.walk(lp)):
                        derived = True
            if derived:
                # is the Try inside this loop?
                return any(tr is y for y in ast.walk(lp))
    return True


def _handler_records(h: ast.ExceptHandler) -> bool:
    for n in ast.walk(h):
        if isinstance(n, (ast.Yield, ast.YieldFrom)):
            return True
        if isinstance(n, ast.Call) and isinstance(n.func, ast.Attribute) and n.func.attr in ("add", "add_rule"):
            return True
    return False


def _outer_try(f, node):
    for a in _anc(node):
        if isinstance(a, ast.Try):
            return a
        if a is f:
            break
    return C.stmt_of(node)


def _anc(n):
    from ..core.program import ancestors
    return ancestors(n)


def _rule_vars(f: ast.AST, mname: str) -> List[str]:
    """Names that may hold a rule coming ready-made from a factory."""
    out = []
    if mname == "_expand_class_with_strategy":
        for n in walk_local(f):
            if isinstance(n, ast.For) and isinstance(n.iter, ast.Call) and norm(n.iter.func).endswith("_rules_from_strategy"):
                out.append(norm(n.target))
    elif mname == "__getitem__":
        # the name that receives `x(comb_class)` for a strategy x (and x itself when x is a ready rule)
        for n in walk_local(f):
            if isinstance(n, (ast.Assign, ast.AnnAssign)) and getattr(n, "value", None) is not None and isinstance(n.value, ast.Call) and isinstance(n.value.func, ast.Name) \
                    and len(n.value.args) == 1:
                tg = n.targets[0] if isinstance(n, ast.Assign) and len(n.targets) == 1 else getattr(n, "target", None)
                if isinstance(tg, ast.Name) and (f"isinstance({n.value.func.id}, AbstractStrategy)", True) in C.guard_texts(f, n) and tg.id not in out:
                    out.append(tg.id)
    elif mname == "_rules_for_class":
        # the loop variable over strats_or_rules, in the branch where it is not a strategy
        for n in walk_local(f):
            if isinstance(n, ast.For) and isinstance(n.target, ast.Name):
                tests = [t for t in walk_local(n) if isinstance(t, ast.Call) and norm(t.func) == "isinstance" and len(t.args) == 2
                         and norm(t.args[0]) == n.target.id and "AbstractStrategy" in norm(t.args[1])]
                if tests:
                    out.append(n.target.id)
    return out


# ------------------------------------------------------------------------ A7
PAIR_SINKS = {
    # callee suffix : (class arg position / kw, label arg position / kw)
    "try_verify": ((0, "comb_class"), (1, "label")),
    "_symmetry_expand": ((0, "comb_class"), (1, "label")),
    "_inferral_expand": ((0, "comb_class"), (1, "label")),
    "_expand": ((0, "comb_class"), (1, "label")),
    "_expand_class_with_strategy": ((0, "comb_class"), (2, "label")),
    "classdb.is_empty": ((0, "comb_class"), (1, "label")),
}


def _arg(c: ast.Call, pos_kw) -> Optional[ast.AST]:
    pos, kw = pos_kw
    for k in c.keywords:
        if k.arg == kw:
            return k.value
    if pos < len(c.args):
        return c.args[pos]
    return None


def _pair_key(f: ast.AST, fi, e: ast.AST, role: str):
    """Identity of the (class, label) pair an expression belongs to."""
    e0 = e
    e = D.strip_casts(e)
    if isinstance(e, ast.Name):
        defs = D.definitions(f)
        ds = defs.get(e.id, [])
        # for-target of a zip
        if len(ds) == 1 and ds[0][3] == "for" and isinstance(ds[0][0], ast.For):
            loop = ds[0][0]
            it = loop.iter
            if isinstance(it, ast.Call) and norm(it.func) == "zip" and len(ds[0][2]) == 1:
                src = norm(D.expanded(f, it.args[ds[0][2][0]])) if ds[0][2][0] < len(it.args) else "?"
                return ("zip", id(loop), src)
            return ("for", id(loop), ds[0][2])
        if len(ds) == 1 and ds[0][3] == "param":
            return ("param", fi.qualname)
        if ds and all(d[3] == "param" or (d[1] is not None and role == "label" and isinstance(d[1], ast.Call)
                                          and norm(d[1].func).endswith("classdb.get_label")) for d in ds) and any(d[3] == "param" for d in ds):
            return ("param", fi.qualname)
        r = D.reaching_value(f, e, e.id) if parent(e) is not None else None
        if r is not None:
            return _pair_key(f, fi, r[1], role)
        if len(ds) == 1 and ds[0][1] is not None and not ds[0][2]:
            return _pair_key(f, fi, ds[0][1], role)
        return None
    if isinstance(e, ast.Subscript) and isinstance(e.slice, ast.UnaryOp) and isinstance(e.slice.op, ast.USub) \
            and isinstance(e.slice.operand, ast.Constant) and isinstance(e.slice.operand.value, int):
        e = ast.copy_location(ast.Subscript(value=e.value, slice=ast.Constant(value=-e.slice.operand.value), ctx=e.ctx), e)
    if isinstance(e, ast.Subscript) and isinstance(e.slice, ast.Constant) and isinstance(e.slice.value, int):
        base = e.value
        if isinstance(base, ast.Attribute) and base.attr == "children":
            return ("idx", e.slice.value, norm(base.value))
        if isinstance(base, ast.Name):
            t = _for_targets_of(f, base)
            if t is not None and _is_expand_iter(t[0]) and t[1] == (1,):
                # ends of an expanded triple: pairs with rule.children of the same triple
                loop = t[0]
                rule_name = norm(loop.target.elts[2]) if isinstance(loop.target, ast.Tuple) and len(loop.target.elts) == 3 else "?"
                return ("idx", e.slice.value, rule_name)
    if isinstance(e, ast.Call) and norm(e.func).endswith("classdb.get_class") and len(e.args) == 1:
        return ("label-of", norm(e.args[0]))
    if role == "label" and is_self_attr(e):
        # self.<attr> assigned in this very function from get_label(<class expr>)
        for n in walk_local(f):
            if isinstance(n, ast.Assign) and any(is_self_attr(t, e.attr) for t in n.targets) and isinstance(n.value, ast.Call) \
                    and norm(n.value.func).endswith("classdb.get_label") and len(n.value.args) == 1:
                return ("label-of-class", norm(n.value.args[0]))
    if isinstance(e, ast.Attribute) and e.attr in ("start_label", "start_class"):
        return ("start", norm(e.value))
    return None


def a7_pairing(ctx) -> None:
    """(class, label) argument pairs handed to the searcher's helpers belong together."""
    P = ctx.P
    n = 0
    unresolved = []
    for fi in P.all_functions():
        if fi.module.short not in ("comb_spec_searcher", "rule_db.base", "rule_db.forest", "rule_db.forget", "specification"):
            continue
        f = fi.node
        for c in walk_local(f):
            if not isinstance(c, ast.Call):
                continue
            name = norm(c.func)
            sink = None
            for suf, spec in PAIR_SINKS.items():
                if name == f"self.{suf}" or name.endswith("." + suf) and (suf.startswith("classdb") or name.startswith(("self.", "css."))):
                    sink = spec
                    break
            if sink is None:
                continue
            ce, le = _arg(c, sink[0]), _arg(c, sink[1])
            if ce is None or le is None:
                continue
            n += 1
            ctx.analysed(fi)
            kc, kl = _pair_key(f, fi, ce, "class"), _pair_key(f, fi, le, "label")
            ok = None
            if kc is not None and kl is not None:
                if kc[0] == "zip" and kl[0] == "zip":
                    ok = kc[1] == kl[1] and _zip_sources_match(kc[2], kl[2])
                elif kl[0] == "label-of-class":
                    ok = norm(ce) == kl[1]
                elif kc[0] == "label-of":
                    ok = kl == ("label-of", kc[1]) or norm(le) == kc[1] or _same_label_expr(f, le, kc[1])
                elif kc[0] == kl[0]:
                    ok = kc == kl
                else:
                    ok = False
            if ok is True:
                ctx.ok("A7", f"{fi.qualname}: {name}({norm(ce)}, {norm(le)}) is a matched (class, label) pair [{kc[0]}]")
            elif ok is False:
                ctx.violation("A7", c, f"`{norm(ce)}` and `{norm(le)}` do not belong to the same (class, label) pair ({kc} vs {kl}): "
                              "work done on the class is recorded under another class's label")
            elif (kc is None) != (kl is None) and (kc or kl)[0] in ("idx", "zip"):
                known, which, other = (kl, "label", norm(ce)) if kc is None else (kc, "class", norm(le))
                ctx.violation("A7", c, f"the {which} handed to {name} is position {known[1] if known[0] == 'idx' else '?'} of a rule's children / labels, but its partner `{other}` is "
                              f"not taken from the same position (`{norm(D.expanded(f, ce if kc is None else le))[:90]}`): whenever the two differ, work on one class is "
                              "recorded under another class's label")
            else:
                unresolved.append(f"{fi.qualname}: {norm(c)[:70]}")
    ctx.extra["a7_unresolved_pairs"] = unresolved
    if len(unresolved) > 2:
        raise AnalysisError("A7: cannot identify the (class, label) pairs at: " + "; ".join(unresolved))
    if n < 10:
        ctx.floor("A7", 99)


def _zip_sources_match(cls_src: str, lab_src: str) -> bool:
    return cls_src.endswith(".children") and not lab_src.endswith(".children")


def _same_label_expr(f, le, txt: str) -> bool:
    r = rv(f, le)
    return norm(r) == txt


def a7_zip_alignment(ctx) -> None:
    """Loops that pair a rule's children with labels use the plain sequences."""
    P = ctx.P
    sites = [(SEARCHER, "add_rule"), ("RuleDBForest", "_add_empty_rule")]
    for cname, mname in sites:
        m = P.need_method(cname, mname, own=True)
        f = m.node
        ctx.analysed(m)
        loops = [n for n in walk_local(f) if isinstance(n, ast.For) and isinstance(n.iter, ast.Call) and norm(n.iter.func) == "zip"]
        if not loops:
            ctx.violation("A7", f, f"{m.qualname} no longer walks the children together with their labels", construct=f"{m.qualname} zip")
        for l in loops:
            za = [norm(D.expanded(f, a)) if isinstance(a, ast.Name) and a.id not in m.params() else norm(a) for a in l.iter.args]
            params = set(m.params())
            ok = len(za) == 2 and sum(1 for a in za if a.endswith(".children")) == 1 and sum(1 for a in za if a in params) == 1
            if ok:
                ctx.ok("A7", f"{m.qualname}: zip({', '.join(za)}) pairs children with their labels positionally")
            else:
                ctx.violation("A7", l, f"children and labels are paired through `zip({', '.join(za)})`: a sorted/filtered/sliced side breaks the positional correspondence")


def a8_memo_key_coherence(ctx) -> None:
    """A value remembered together with the key it was computed for (`if key != last: value =
    f(key); last = key`) stays in step with it: wherever the remembered key is updated, the
    value has been recomputed for that key on the same path -- either before the update, or
    after it with nothing in between that can leave.  Otherwise a later round with the same
    key uses the value of an earlier key (the class of another label is expanded under this
    label)."""
    P = ctx.P
    n = 0
    for fi in P.all_functions():
        f = fi.node
        for iff in walk_local(f):
            # `key != last and <more>`: the value is brought up to date only when <more> holds as well, although the key moved on
            if isinstance(iff, ast.If) and isinstance(iff.test, ast.BoolOp) and isinstance(iff.test.op, ast.And):
                cmp_ = [v for v in iff.test.values if isinstance(v, ast.Compare) and len(v.ops) == 1 and isinstance(v.ops[0], (ast.NotEq, ast.IsNot))
                        and isinstance(v.left, ast.Name) and isinstance(v.comparators[0], ast.Name)]
                for cm in cmp_:
                    pair = {cm.left.id, cm.comparators[0].id}
                    upd_ = [st for st in walk_local(iff) if isinstance(st, ast.Assign) and len(st.targets) == 1 and isinstance(st.targets[0], ast.Name)
                            and isinstance(st.value, ast.Name) and {st.targets[0].id, st.value.id} == pair]
                    if upd_:
                        n += 1
                        rest = [norm(v) for v in iff.test.values if v is not cm]
                        ctx.violation("A8", iff.test, f"{fi.qualname}: the value remembered for `{upd_[0].targets[0].id}` is brought up to date only when {rest} holds as well: when "
                                      f"`{upd_[0].value.id}` moves on while that is false, the next use works with the value of an earlier `{upd_[0].value.id}` (the class of "
                                      "another label)")
            if not isinstance(iff, ast.If) or not isinstance(iff.test, ast.Compare) or len(iff.test.ops) != 1 or not isinstance(iff.test.ops[0], (ast.NotEq, ast.IsNot)):
                continue
            a, b = iff.test.left, iff.test.comparators[0]
            if not (isinstance(a, ast.Name) and isinstance(b, ast.Name)):
                continue
            # which one is the remembered key: the one assigned from the other inside the branch
            upd = [st for st in walk_local(iff) if isinstance(st, ast.Assign) and len(st.targets) == 1 and isinstance(st.targets[0], ast.Name)
                   and isinstance(st.value, ast.Name) and {st.targets[0].id, st.value.id} == {a.id, b.id} and any(st is x for blk in [iff.body] for y in blk for x in ast.walk(y))]
            if not upd:
                continue
            last, key = upd[0].targets[0].id, upd[0].value.id
            # values recomputed from the key anywhere in the function, used outside the branch
            vals = {}
            for st in walk_local(f):
                t, v = PT_assign(st)
                if isinstance(t, ast.Name) and v is not None and t.id not in (last, key) and key in {x.id for x in ast.walk(v) if isinstance(x, ast.Name)} \
                        and isinstance(v, ast.Call):
                    used_outside = any(isinstance(x, ast.Name) and x.id == t.id and isinstance(x.ctx, ast.Load) and not any(x is y for y in ast.walk(iff)) for x in walk_local(f))
                    if used_outside:
                        vals.setdefault(t.id, []).append(st)
            if not vals:
                continue
            ctx.analysed(fi)
            for vname, sts in vals.items():
                n += 1
                ok = True
                for u in upd:
                    fine = any(any(s is x for y in iff.body for x in ast.walk(y)) and (C.dominates(f, s, u) or C.followed_by(f, u, s)) for s in sts)
                    if not fine:
                        ok = False
                        ctx.violation("A8", u, f"{fi.qualname}: `{last}` is set to `{key}` on a path where `{vname}` is not recomputed for that `{key}` (it is computed "
                                      f"at line {sts[0].lineno}): the next packet with the same `{key}` finds `{key} == {last}` and uses the `{vname}` of an earlier `{key}`")
                outside = [s for s in sts if not any(s is x for y in iff.body for x in ast.walk(y))]
                if ok and not outside:
                    ctx.ok("A8", f"{fi.qualname}: `{vname}` is recomputed whenever `{last}` is updated to a new `{key}`")
                elif ok:
                    ctx.ok("A8", f"{fi.qualname}: `{vname}` follows `{key}`")
    if n < 1:
        ctx.floor("A8", 99)


def PT_assign(st):
    if isinstance(st, ast.Assign) and len(st.targets) == 1:
        return st.targets[0], st.value
    if isinstance(st, ast.AnnAssign):
        return st.target, st.value
    return None, None


def a4b_clean_labels_call_site(ctx) -> None:
    """_clean_labels pairs rule.children with the labels it is given *by position*.  Its call
    site must therefore hand it the labels exactly as they arrived (aligned with the rule's
    children): anything that reorders, sorts, de-duplicates or filters them first makes it
    test emptiness of one child and drop the label of another."""
    P = ctx.P
    n = 0
    for fi in P.all_functions():
        f = fi.node
        for c in walk_local(f):
            if isinstance(c, ast.Call) and isinstance(c.func, ast.Attribute) and c.func.attr == "_clean_labels" and len(c.args) == 2:
                n += 1
                ctx.analysed(fi)
                a0 = c.args[0]
                params = D.param_names(f)
                ok = False
                if isinstance(a0, ast.Name) and a0.id in params:
                    rv = D.reaching_value(f, a0, a0.id)
                    # no re-binding of the parameter reaches the call
                    redefs = [d for d in D.definitions(f).get(a0.id, []) if d[3] != "param" and d[0] is not C.stmt_of(c) and getattr(d[0], "lineno", 0) <= c.lineno]
                    ok = rv is None and not redefs
                par_ = getattr(c, "_parent", None)
                if not isinstance(par_, (ast.Assign, ast.AnnAssign, ast.Return, ast.Expr)):
                    ctx.violation("A4", par_ if par_ is not None else c, f"{fi.qualname}: what _clean_labels hands back is reworked (`{norm(par_)[:70]}`) before it is used as the key: the kept "
                                  "labels are a multiset (a rule may have the same child twice), and a rule with one label fewer is another rule -- with one label left it is "
                                  "even filed as an equivalence")
                if ok:
                    ctx.ok("A4", f"{fi.qualname}: _clean_labels receives the labels as they arrived (aligned with rule.children)")
                else:
                    ctx.violation("A4", c, f"{fi.qualname}: the labels handed to _clean_labels (`{norm(D.expanded(f, a0))[:60]}`) are not the `ends` this function received, unchanged: "
                                  "_clean_labels zips them with rule.children, so any reordering makes it drop the label of another child than the empty one")
                if C.guards(f, c):
                    gs = [norm(t) for t, _p in C.guards(f, c)]
                    ctx.note(f"{fi.qualname}: _clean_labels is applied under {gs}")
    if n < 1:
        ctx.floor("A4", 99)


# ------------------------------------------------------------------------ A9 .. A12
def a9_factory_output_as_is(ctx) -> None:
    """What a strategy factory hands out is used as it is: a ready rule is yielded itself (its
    parent may be another class than the one being expanded), a strategy is applied to the
    class being expanded, and the loop variable is not re-bound on the way."""
    P = ctx.P
    m = P.need_method(SEARCHER, "_rules_from_strategy", own=True)
    f = m.node
    ctx.analysed(m)
    cc = [p for p in m.params() if p not in ("self", "cls")][0]
    loops = [l for l in walk_local(f) if isinstance(l, ast.For) and isinstance(l.target, ast.Name) and isinstance(l.iter, ast.Call)
             and any((f"isinstance({norm(l.iter.func)}, StrategyFactory)", True) == g for g in C.guard_texts(f, l))]
    if not loops:
        raise AnalysisError("A9: _rules_from_strategy no longer iterates over what a StrategyFactory yields")
    lp = loops[0]
    x = lp.target.id
    rebinds = [n for n in walk_local(lp) if isinstance(n, ast.Name) and n.id == x and isinstance(n.ctx, ast.Store) and n is not lp.target]
    for n in rebinds:
        ctx.violation("A9", n, f"`{x}` (what the factory yielded) is re-bound inside the loop: the tests on its kind that follow no longer speak about what the factory "
                      "handed out (a ready rule turned into its strategy is re-applied to the class being expanded, whatever the rule's own parent was)")
    ys = [y for y in C.yields_of(lp) if isinstance(y, ast.Yield) and y.value is not None]
    as_is = [y for y in ys if norm(y.value) == x and (f"isinstance({x}, AbstractRule)", True) in C.guard_texts(f, y)]
    applied = [y for y in ys if norm(y.value) == f"{x}({cc})" and (f"isinstance({x}, AbstractStrategy)", True) in C.guard_texts(f, y)]
    if as_is and applied and len(as_is) + len(applied) == len(ys) and not rebinds:
        ctx.ok("A9", f"a ready rule from a factory is yielded itself, a strategy from a factory is applied to `{cc}`")
    elif not rebinds:
        other = [y for y in ys if y not in as_is and y not in applied]
        ctx.violation("A9", other[0] if other else lp, f"inside the loop over a factory's output every yield must be `{x}` under isinstance({x}, AbstractRule) or `{x}({cc})` under "
                      f"isinstance({x}, AbstractStrategy)")


def a10_call_computes_children(ctx) -> None:
    """Every strategy kind builds its rule from decomposition_function(comb_class) when no
    children are given and refuses (StrategyDoesNotApply) when that is None -- the hook user
    strategies override.  Sibling agreement over the __call__ methods of the strategy bases."""
    P = ctx.P
    base = P.need_class("AbstractStrategy")
    n = 0
    for cls in P.subclasses(base, strict=False):
        m = cls.methods.get("__call__")
        if m is None or any(d.endswith('abstractmethod') for d in m.decorators):
            continue
        f = m.node
        ps = [p for p in m.params() if p != "self"]
        if len(ps) < 2:
            continue
        n += 1
        ctx.analysed(m)
        cc, ch = ps[0], ps[1]
        asg = [a for a in walk_local(f) if isinstance(a, (ast.Assign, ast.AnnAssign)) and any(isinstance(t, ast.Name) and t.id == ch for t in (a.targets if isinstance(a, ast.Assign) else [a.target]))]
        good = [a for a in asg if a.value is not None and norm(a.value) == f"self.decomposition_function({cc})" and (f"{ch} is None", True) in C.guard_texts(f, a)]
        bad = [a for a in asg if a not in good]
        rs = [r for r in C.raises_of(f) if r.exc is not None and "StrategyDoesNotApply" in norm(r.exc)]
        refuses = any((f"{ch} is None", True) in C.guard_texts(f, r) and good and C.dominates(f, good[0], r) for r in rs)
        if good and not bad and refuses:
            ctx.ok("A10", f"{m.qualname}: children default to decomposition_function({cc}); None there means the strategy does not apply")
        else:
            ctx.violation("A10", (bad or asg or [f])[0], f"{m.qualname} must take missing children from self.decomposition_function({cc}) and raise StrategyDoesNotApply when that is "
                          "None: the rule otherwise records other children than the strategy computes (a verification strategy with dependencies loses them)",
                          construct=f"{m.qualname} children default")
    if n < 2:
        ctx.floor("A10", 99)


def a12_guard_reads_the_parameter(ctx) -> None:
    """RuleDBForest._add_empty_rule re-binds `rule` to the empty rules it adds; the question
    `possibly_empty` is about the rule that was passed in and is asked before that happens."""
    P = ctx.P
    m = P.need_method("RuleDBForest", "_add_empty_rule", own=True)
    f = m.node
    ctx.analysed(m)
    ps = m.params()
    r = ps[2] if len(ps) > 2 else "rule"
    reads = [a for a in walk_local(f) if isinstance(a, ast.Attribute) and a.attr == "possibly_empty" and isinstance(a.value, ast.Name) and a.value.id == r]
    if not reads:
        ctx.violation("A12", f, "_add_empty_rule no longer asks whether the rule declared its children possibly empty", construct="RuleDBForest._add_empty_rule possibly_empty")
        return
    stores = [n for n in walk_local(f) if isinstance(n, ast.Name) and n.id == r and isinstance(n.ctx, ast.Store)]
    for a in reads:
        loops = C.enclosing_loops(f, a)
        stale = [s for s in stores if any(any(s is y for y in ast.walk(l)) for l in loops)]
        if stale:
            ctx.violation("A12", a, f"`{r}.possibly_empty` is read inside the loop that re-binds `{r}` to the empty rule it has just made: from the second empty child on the "
                          "question is asked of that empty rule, and the remaining empty children get no rule")
        else:
            ctx.ok("A12", f"`{r}.possibly_empty` is asked of the rule passed in, before the loop re-binds the name")


def a13_add_rule_bookkeeping(ctx) -> None:
    """`add_rule` does four things for every child of a rule, each under the one flag of the
    rule that governs it and nothing else: queue it (workable), mark it not inferrable
    (inferrable), record non-emptiness (possibly_empty), try to verify it (always).  In
    particular whether a child is queued does not depend on what the database knows about it at
    that moment: a class that is verified now is still expanded when a later caller (the
    fall-back with reverse rules of expand_verified, a search continued after more rules) needs
    what lies below it."""
    P = ctx.P
    m = P.need_method("CombinatorialSpecificationSearcher", "add_rule", own=True)
    f = m.node
    ctx.analysed(m)
    rule_p = m.params()[3] if len(m.params()) > 3 else "rule"
    want = {
        "self.classqueue.add": {(f"{rule_p}.workable", True)},
        "self.classqueue.set_not_inferrable": {(f"{rule_p}.inferrable", False)},
        "self.try_verify": set(),
    }
    loops = [l for l in walk_local(f) if isinstance(l, ast.For)]
    for name, guards in want.items():
        calls = [c for c in walk_local(f) if isinstance(c, ast.Call) and norm(c.func) == name]
        if not calls:
            ctx.violation("A13", f, f"add_rule no longer calls {name} for the children of the rule", construct=f"add_rule {name}")
            continue
        for c in calls:
            gs = {(norm(D.expanded(f, t)) if isinstance(t, ast.Name) else norm(t), p_)
                  for t, p_ in C.flatten_guards(C.guards(f, c, within=loops[0] if loops and any(c is x for x in ast.walk(loops[0])) else None))}
            if gs == guards:
                ctx.ok("A13", f"add_rule: {name} under exactly {sorted(t for t, _ in guards) or 'no condition'}")
            else:
                extra = sorted(t for t, _p in gs - guards)
                ctx.violation("A13", c, f"add_rule calls {name} under {sorted(t for t, _ in gs) or 'no condition'} instead of {sorted(t for t, _ in guards) or 'no condition'}"
                              + (f": `{extra[0][:50]}` makes the child's treatment depend on what is known about it right now" if extra else ""))
