"""
Rules for C06 (equivalence database): representation discipline of the union-find, the
verified flag, the recorded edges and the explanation path.  Uses engine K for label kinds
(`self[x]` is a representative inside EquivalenceDB).
"""
from __future__ import annotations

import ast
from typing import List, Optional

from ..core import control as C
from ..core import dataflow as D
from ..core import pattern as PT
from ..core.program import AnalysisError, AnchorError, is_self_attr, norm, parent, walk_local
from .labelkind import Kinds, is_rep

DB = "EquivalenceDB"


def k13_verified_on_representatives(ctx, K: Kinds) -> None:
    """verified_roots holds representatives: what is added to it and what is looked up in it
    is `self[x]`; is_verified / equivalent are decided through find."""
    P = ctx.P
    cls = P.need_class(DB)
    n = 0
    for m in cls.methods.values():
        f = m.node
        for x in walk_local(f):
            if is_self_attr(x, "verified_roots"):
                p = parent(x)
                if isinstance(p, ast.Attribute) and p.attr in ("add", "discard", "remove") and isinstance(parent(p), ast.Call):
                    call = parent(p)
                    n += 1
                    ctx.analysed(m)
                    if p.attr != "add":
                        ctx.violation("K13", call, f"{m.qualname}: a class once verified stays verified; `{norm(call)}` removes the mark")
                    elif call.args and is_rep(K.kind(call.args[0], f)):
                        ctx.ok("K13", f"{m.qualname}: the verified mark is stored on the representative `{norm(call.args[0])}`")
                    else:
                        ctx.violation("K13", call, f"{m.qualname}: the verified mark is stored on `{norm(call.args[0]) if call.args else '?'}`, not on the class's "
                                      "representative (self[...]): other members of the class are then reported unverified")
                elif isinstance(p, ast.Compare) and x in p.comparators and len(p.ops) == 1 and isinstance(p.ops[0], (ast.In, ast.NotIn)):
                    n += 1
                    ctx.analysed(m)
                    if is_rep(K.kind(p.left, f)):
                        ctx.ok("K13", f"{m.qualname}: the verified mark is looked up on the representative")
                    else:
                        ctx.violation("K13", p, f"{m.qualname}: `{norm(p)}` looks the verified mark up on a label that is not normalised to its representative")
    if n < 2:
        ctx.floor("K13", 99)
    eq = P.need_method(DB, "equivalent", own=True)
    a, b = eq.params()[1], eq.params()[2]
    rets = [r for r in C.returns_of(eq.node) if r.value is not None]
    if len(rets) == 1 and norm(rets[0].value) in (f"self[{a}] == self[{b}]", f"self[{b}] == self[{a}]"):
        ctx.ok("K13", "equivalent(a, b) is self[a] == self[b]")
    else:
        ctx.violation("K13", eq.node, "EquivalenceDB.equivalent must compare the representatives self[a] == self[b]", construct=f"{DB}.equivalent")
    iv = P.need_method(DB, "is_verified", own=True)
    x = iv.params()[1]
    rets = [r for r in C.returns_of(iv.node) if r.value is not None]
    if len(rets) == 1 and norm(rets[0].value) == f"self[{x}] in self.verified_roots":
        ctx.ok("K13", "is_verified(x) is self[x] in verified_roots")
    else:
        ctx.violation("K13", iv.node, "EquivalenceDB.is_verified must be `self[x] in self.verified_roots`", construct=f"{DB}.is_verified")


def k14_merge(ctx) -> None:
    """_set_equivalent: union by weight links a root under a root, keeps the weights in step,
    and carries the verified flag over the merge."""
    P = ctx.P
    m = P.need_method(DB, "_set_equivalent", own=True)
    f = m.node
    ctx.analysed(m)
    # the merge itself never depends on the verified state: classes known to be equivalent are one class, verified or not
    links = [n for n in walk_local(f) if isinstance(n, ast.Subscript) and isinstance(n.ctx, ast.Store) and is_self_attr(n.value, "parents")]
    if links:
        first_link = min(n.lineno for n in links)
        for r in C.returns_of(f):
            if r.lineno < first_link:
                gs = [norm(D.expanded(f, t)) for t, _p in C.flatten_guards(C.guards(f, r))]
                if any("verified" in g for g in gs):
                    ctx.violation("K14", r, f"_set_equivalent returns before linking the roots under `{gs[0][:60]}`: two classes that are both verified are still two classes "
                                  "until they are merged -- a cycle through them stays a cycle of rules, and the specification that comes back is circular")

    a, b = m.params()[1], m.params()[2]
    stores = [n for n in walk_local(f) if isinstance(n, ast.Assign) and len(n.targets) == 1 and isinstance(n.targets[0], ast.Subscript)
              and is_self_attr(n.targets[0].value, "parents")]
    if not stores:
        ctx.violation("K14", f, "_set_equivalent no longer links one root under the other", construct=f"{DB}._set_equivalent link")
        return
    # the roots come from find
    roots = PT.find_all(f, f"_M_roots = [self[{a}], self[{b}]]") or PT.find_all(f, f"_M_roots = (self[{a}], self[{b}])")
    if not roots:
        # the same pair through locals: roots = (root, other_root) with root = self[a], other_root = self[b]
        for st0 in walk_local(f):
            t0, v0 = PT.assign_value(st0)
            if isinstance(t0, ast.Name) and isinstance(v0, (ast.List, ast.Tuple)) and len(v0.elts) == 2 \
                    and sorted(norm(D.expanded(f, e)) for e in v0.elts) == sorted([f"self[{a}]", f"self[{b}]"]):
                roots = [(st0, {"_M_roots": t0.id})]
    if not roots:
        # ... or the pair written out where it is used (the canonical form reads a pure local through)
        for l0 in walk_local(f):
            if isinstance(l0, ast.For) and isinstance(l0.iter, (ast.List, ast.Tuple)) and len(l0.iter.elts) == 2 \
                    and sorted(norm(D.expanded(f, e)) for e in l0.iter.elts) == sorted([f"self[{a}]", f"self[{b}]"]):
                roots = [(l0, {"_M_roots": norm(l0.iter)})]
    if roots:
        ctx.ok("K14", "the two sets are merged at their roots (self[a], self[b])")
        rn = roots[0][1]["_M_roots"]
    else:
        ctx.violation("K14", f, "_set_equivalent must merge the *roots* self[label], self[other_label]", construct=f"{DB}._set_equivalent roots")
        return
    for st in stores:
        r = norm(st.targets[0].slice)
        h = norm(st.value)
        loops = C.enclosing_loops(f, st)
        in_roots = bool(loops) and isinstance(loops[0], ast.For) and norm(loops[0].iter) == rn and norm(loops[0].target) == r
        gt = C.guard_texts(f, st)
        guarded = (f"{r} != {h}", True) in gt or (f"{h} != {r}", True) in gt
        w = PT.find_all(loops[0] if loops else f, "self.weights[_M_h] += self.weights[_M_r]", {"_M_h": h, "_M_r": r})
        if in_roots and guarded and w:
            ctx.ok("K14", f"each other root `{r}` is linked under `{h}` and its weight added to it")
        else:
            bad = [t for t, o in (("iterates over the two roots", in_roots), (f"skips `{r} == {h}`", guarded), ("adds the weight of the absorbed root", bool(w))) if not o]
            ctx.violation("K14", st, "_set_equivalent link: " + ", ".join(bad) + " no longer holds")
    # the heaviest root wins: deterministic and independent of argument order only through weights
    hv = PT.find_all(f, f"_M_h = max(((self.weights[_M_r], _M_r) for _M_r in _M_roots))[1]", {"_M_roots": rn})
    hv2 = PT.find_all(f, "_M_h = max(_M_roots, key=self.weights.__getitem__)", {"_M_roots": rn}) or \
        PT.find_all(f, "_M_h = max(_M_roots, key=lambda _M_r: self.weights[_M_r])", {"_M_roots": rn})
    if hv or hv2:
        ctx.ok("K14", "the surviving root is the heaviest one")
    else:
        ctx.ok("K14", "the surviving root is chosen in another way (which root survives is not judged)")
    # verified flag: arrangement A (flag read before the merge, re-marked after) or B (moved inside the loop)
    flag = [(n, bd) for n, bd in PT.find_all(f, "self.is_verified(_E_x) or self.is_verified(_E_y)") if {bd["_E_x"], bd["_E_y"]} == {a, b}]
    # the same flag in two steps: v = is_verified(x); if not v: v = is_verified(y)
    two = []
    for st1 in f.body:
        t1, v1 = PT.assign_value(st1)
        if not (isinstance(t1, ast.Name) and isinstance(v1, ast.Call) and norm(v1.func) == "self.is_verified" and len(v1.args) == 1):
            continue
        i1 = f.body.index(st1)
        nxt = f.body[i1 + 1] if i1 + 1 < len(f.body) else None
        if isinstance(nxt, ast.If) and norm(nxt.test) == f"not {t1.id}" and not nxt.orelse and len(nxt.body) == 1:
            t2, v2 = PT.assign_value(nxt.body[0])
            if isinstance(t2, ast.Name) and t2.id == t1.id and isinstance(v2, ast.Call) and norm(v2.func) == "self.is_verified" and len(v2.args) == 1 \
                    and {norm(v1.args[0]), norm(v2.args[0])} == {a, b}:
                two.append((st1, {"_M_v": t1.id}))
    if two and not flag:
        vname = two[0][1]["_M_v"]
        first = two[0][0] if not isinstance(two[0][0], list) else two[0][0][0]
        defs_v = [s_ for s_ in walk_local(f) if isinstance(s_, (ast.Assign, ast.AnnAssign)) and any(isinstance(t, ast.Name) and t.id == vname for t in (s_.targets if isinstance(s_, ast.Assign) else [s_.target]))]
        def _top(st_):
            cur = st_
            while getattr(cur, "_parent", None) is not f:
                cur = cur._parent
            return cur
        before = all(C.dominates(f, _top(dv), s) for dv in defs_v for s in stores)
        sets = [c for c in walk_local(f) if isinstance(c, ast.Call) and norm(c.func) == "self.set_verified" and c.args and norm(c.args[0]) in (a, b)]
        after = [c for c in sets if (vname, True) in C.guard_texts(f, c) and all(_after(f, s, c) for s in stores)]
        if len(defs_v) == 2 and before and after:
            ctx.ok("K14", "the verified flag of either side is read (in two steps) before the merge and put on the merged class afterwards")
        else:
            ctx.violation("K14", defs_v[0] if defs_v else f, "the verified flag must be read before the roots are linked and re-applied (set_verified) after")
    elif flag:
        fexpr = flag[0][0]
        fst = C.stmt_of(fexpr)
        # the flag is a local assigned from the expression, or the expression itself is the test
        tgt, val = PT.assign_value(fst)
        vtext = norm(tgt) if tgt is not None and val is fexpr and isinstance(tgt, ast.Name) else norm(fexpr)
        before = all(C.dominates(f, fst, s) for s in stores)
        sets = [c for c in walk_local(f) if isinstance(c, ast.Call) and norm(c.func) == "self.set_verified" and c.args and norm(c.args[0]) in (a, b)]
        after = [c for c in sets if (vtext, True) in C.guard_texts(f, c) and all(_after(f, s, c) for s in stores)]
        if before and after:
            ctx.ok("K14", "the verified flag of either side is read before the merge and put on the merged class afterwards")
        else:
            ctx.violation("K14", fst, "the verified flag must be read before the roots are linked and re-applied (set_verified) after: the mark sits on the old "
                          "representative, which stops being one")
    else:
        moved = [c for c in walk_local(f) if isinstance(c, ast.Call) and norm(c.func) in ("self.verified_roots.add", "self.set_verified")]
        lazy = [n for n in walk_local(f) if isinstance(n, (ast.GeneratorExp,)) or (isinstance(n, ast.Call) and norm(n.func) in ("map", "filter"))
                if any(isinstance(c, ast.Call) and norm(c.func) == "self.is_verified" for c in ast.walk(n)) or "self.is_verified" in norm(n)]
        lazy = [n for n in lazy if isinstance(C.stmt_of(n), (ast.Assign, ast.AnnAssign))]
        if lazy:
            ctx.violation("K14", lazy[0], f"the verified flags are read through `{norm(lazy[0])[:60]}`, which is evaluated only when it is consumed -- after the roots were linked: "
                          "is_verified then asks the new representative, and the mark of the absorbed class is lost")
        elif moved:
            raise AnalysisError("K14: _set_equivalent carries the verified flag in an arrangement the analysis does not know; re-derive the rule")
        ctx.violation("K14", f, "_set_equivalent no longer carries the verified flag over a merge: a class verified before being merged into a heavier one is "
                      "reported unverified afterwards", construct=f"{DB}._set_equivalent verified flag")


def _after(f, first: ast.AST, later: ast.AST) -> bool:
    """later's statement comes after first's outermost enclosing statement at function level."""
    def top(n):
        while parent(n) is not f:
            n = parent(n)
        return n
    return f.body.index(top(later)) > f.body.index(top(first))


def k15_edges(ctx) -> None:
    P = ctx.P
    ae = P.need_method(DB, "_add_edge", own=True)
    a, b = ae.params()[1], ae.params()[2]
    if PT.find_all(ae.node, f"self.vertices[{a}].add({b})"):
        ctx.ok("K15", "_add_edge records label -> other_label")
    else:
        ctx.violation("K15", ae.node, "_add_edge must record the directed edge self.vertices[label].add(other_label)", construct=f"{DB}._add_edge")
    tw = P.need_method(DB, "add_two_way_edge", own=True)
    a, b = tw.params()[1], tw.params()[2]
    ok = PT.find_all(tw.node, f"self._add_edge({a}, {b})") and PT.find_all(tw.node, f"self._add_edge({b}, {a})") and \
        (PT.find_all(tw.node, f"self._set_equivalent({a}, {b})") or PT.find_all(tw.node, f"self._set_equivalent({b}, {a})"))
    if ok:
        ctx.ok("K15", "a two-way edge is recorded in both directions and merges the two classes")
    else:
        ctx.violation("K15", tw.node, "add_two_way_edge must record both directed edges and merge the classes", construct=f"{DB}.add_two_way_edge")
    # ... whatever is already recorded: an edge known in one direction (a one-way rule came first) still needs the other
    # direction and the merge
    a, b = tw.params()[1], tw.params()[2]
    must = [c for c in walk_local(tw.node) if isinstance(c, ast.Call) and norm(c.func) in ("self._add_edge", "self._set_equivalent")]
    for c in must:
        gs = [norm(t) for t, _p in C.flatten_guards(C.guards(tw.node, c))]
        if gs:
            ctx.violation("K15", c, f"add_two_way_edge does `{norm(c)[:50]}` only under `{gs[0][:60]}`: a pair that is already known as a one-way edge is never completed to a "
                          "two-way edge, so the two classes stay apart")
    for r in C.returns_of(tw.node):
        if must and r.lineno < max(c.lineno for c in must):
            gs = [norm(t) for t, _p in C.flatten_guards(C.guards(tw.node, r))]
            ctx.violation("K15", r, f"add_two_way_edge returns early under `{(gs or ['?'])[0][:60]}`: a pair already recorded in one direction (by a one-way rule) is not "
                          "completed to a two-way edge and its classes are not merged")
    ow = P.need_method(DB, "add_one_way_edge", own=True)
    a, b = ow.params()[1], ow.params()[2]
    ok = PT.find_all(ow.node, f"self._add_edge({a}, {b})") and not PT.find_all(ow.node, f"self._add_edge({b}, {a})") and \
        not [c for c in walk_local(ow.node) if isinstance(c, ast.Call) and norm(c.func) == "self._set_equivalent"]
    if ok:
        ctx.ok("K15", "a one-way edge is recorded in its own direction only and does not merge by itself")
    else:
        ctx.violation("K15", ow.node, "add_one_way_edge must record exactly the edge label -> other_label and must not merge", construct=f"{DB}.add_one_way_edge")


def k16_connect_cycles(ctx) -> None:
    k16b_visited_when_expanded(ctx)
    k16c_stack_discipline(ctx)
    """Only vertices on a detected cycle are merged: the merge loop runs over path[i:] where
    path[i] is already equivalent to the vertex the edge leads to."""
    P = ctx.P
    m = P.need_method(DB, "connect_cycles", own=True)
    f = m.node
    ctx.analysed(m)
    merges = [c for c in walk_local(f) if isinstance(c, ast.Call) and norm(c.func) == "self._set_equivalent" and len(c.args) == 2]
    if not merges:
        ctx.violation("K16", f, "connect_cycles no longer merges the vertices of a cycle", construct=f"{DB}.connect_cycles merge")
        return
    for c in merges:
        loops = C.enclosing_loops(f, c)
        inner = loops[0] if loops else None
        enum = [l for l in loops if isinstance(l, ast.For) and isinstance(l.iter, ast.Call) and norm(l.iter.func) == "enumerate"]
        ok = False
        if inner is not None and enum and isinstance(enum[0].target, ast.Tuple):
            i, vtx = norm(enum[0].target.elts[0]), norm(enum[0].target.elts[1])
            path_txt = norm(D.expanded(f, enum[0].iter.args[0]))
            base = path_txt[:-5] if path_txt.endswith("[:-1]") else path_txt
            new_end = norm(c.args[1])
            gt = C.guard_texts(f, c)
            on_cycle = (f"self.equivalent({vtx}, {new_end})", True) in gt or (f"self.equivalent({new_end}, {vtx})", True) in gt
            over = isinstance(inner, ast.For) and norm(D.expanded(f, inner.iter)) == f"{base}[{i}:]" and norm(inner.target) == norm(c.args[0])
            ok = on_cycle and over
        if ok:
            ctx.ok("K16", "connect_cycles merges path[i:] with the new end only when path[i] is already equivalent to it (a closed cycle)")
        else:
            ctx.violation("K16", c, "classes are merged that are not known to lie on a cycle: the merge must run over path[i:] under "
                          "`self.equivalent(path[i], new_end)`; anything wider declares classes equivalent that cannot reach each other")
    # the search is not skipped: merges by two-way edges can close a cycle of old one-way edges,
    # so no "nothing changed" shortcut may return before the search
    loops = [w for w in f.body if isinstance(w, (ast.While, ast.For))]
    early = [st for st in (f.body[: f.body.index(loops[0])] if loops else f.body) if C._may_leave(st)]
    # leaving because the table that is searched is empty is what the loop would do anyway
    tabs = {h[1]["_M_t"] for h in PT.find_all(f, "_M_t = self.get_one_way_vertices()")}
    early = [st for st in early if not (isinstance(st, ast.If) and not st.orelse and len(st.body) == 1 and isinstance(st.body[0], ast.Return) and st.body[0].value is None
                                        and isinstance(st.test, ast.UnaryOp) and isinstance(st.test.op, ast.Not) and isinstance(st.test.operand, ast.Name)
                                        and st.test.operand.id in tabs)]
    if loops and not early:
        ctx.ok("K16", "connect_cycles always searches (no early return before the search loop)")
    else:
        ctx.violation("K16", early[0] if early else f, "connect_cycles can return before searching: a cycle of existing one-way edges that is closed by a later "
                      "two-way merge is never detected, and the answer depends on when detection last ran")
    if PT.find_all(f, "_M_t = self.get_one_way_vertices()"):
        ctx.ok("K16", "cycles are searched over the normalised one-way table")
    else:
        ctx.violation("K16", f, "connect_cycles must search the table returned by get_one_way_vertices()", construct=f"{DB}.connect_cycles table")


def _t(text: str):
    try:
        return ast.parse(text, mode="eval").body
    except SyntaxError:
        return ast.Constant(value=None)


def k16c_stack_discipline(ctx) -> None:
    """The paths are kept on a stack: pushed and popped at the same end."""
    P = ctx.P
    m = P.need_method(DB, "connect_cycles", own=True)
    f = m.node
    pops = [c for c in walk_local(f) if isinstance(c, ast.Call) and isinstance(c.func, ast.Attribute) and c.func.attr in ("pop", "popleft") and isinstance(c.func.value, ast.Name)
            and "stack" in c.func.value.id and not c.args]
    if not pops:
        return
    st = pops[0].func.value.id
    right_pop = pops[0].func.attr == "pop"
    pushes = [c for c in walk_local(f) if isinstance(c, ast.Call) and isinstance(c.func, ast.Attribute) and isinstance(c.func.value, ast.Name) and c.func.value.id == st
              and c.func.attr in ("append", "appendleft") and any(isinstance(l, ast.While) for l in C.enclosing_loops(f, c))]
    bad = [c for c in pushes if (c.func.attr == "append") != right_pop]
    if bad:
        ctx.violation("K16", bad[0], f"paths are pushed with `{bad[0].func.attr}` and taken with `{pops[0].func.attr}`: that is a queue, not a stack -- the search is no longer depth "
                      "first, and the path in hand is no longer the chain of vertices the walk came along, which is what a closing edge is tested against")
    elif pushes:
        ctx.ok("K16", "paths are pushed and popped at the same end (depth first)")


def k16b_visited_when_expanded(ctx) -> None:
    """connect_cycles is a depth-first search over paths: a vertex is marked visited when its
    path is taken from the stack and expanded.  Marked when it is *pushed*, a vertex reached
    first along a path that does not close a cycle is never reached along the one that does."""
    P = ctx.P
    m = P.need_method(DB, "connect_cycles", own=True)
    f = m.node
    ctx.analysed(m)
    nb = [l for l in walk_local(f) if isinstance(l, ast.For) and isinstance(l.target, ast.Name) and isinstance(l.iter, ast.Subscript)
          and "one_way" in norm(D.expanded(f, l.iter.value))]
    if not nb:
        raise AnalysisError("K16: connect_cycles no longer walks the one-way neighbours of the end of a path")
    lp = nb[0]
    v = lp.target.id
    adds = [c for c in walk_local(f) if isinstance(c, ast.Call) and isinstance(c.func, ast.Attribute) and c.func.attr == "add" and isinstance(c.func.value, ast.Name)
            and "visit" in c.func.value.id]
    # any local set that takes the neighbour inside the neighbour loop is a mark made at push time, whatever it is called
    marks = [c for c in walk_local(f) if isinstance(c, ast.Call) and isinstance(c.func, ast.Attribute) and c.func.attr == "add" and isinstance(c.func.value, ast.Name)]
    bad = [c for c in marks if any(c is x for x in ast.walk(lp)) and c.args and norm(D.expanded(f, c.args[0])) == v]
    for c in bad:
        ctx.violation("K16", c, f"`{norm(c)}` marks a neighbour as visited when it is pushed: if it is first reached along a path that closes no cycle, the path that does "
                      "close one is never followed, and the classes on it stay apart")
    # the set of expanded ends, by role: a local set that takes the end of the popped path outside the neighbour loop
    def _takes(c) -> bool:
        if isinstance(c, ast.Call) and isinstance(c.func, ast.Attribute) and isinstance(c.func.value, ast.Name) and c.args:
            if c.func.attr == "add":
                return True
            if c.func.attr == "update" and isinstance(c.args[0], ast.Set) and len(c.args[0].elts) == 1:
                return True
        return False
    mark_sets = {c.func.value.id for c in walk_local(f) if _takes(c) and not any(c is x for x in ast.walk(lp))}
    mark_sets |= {n.target.id for n in walk_local(f) if isinstance(n, ast.AugAssign) and isinstance(n.op, ast.BitOr) and isinstance(n.target, ast.Name)
                  and isinstance(n.value, ast.Set) and not any(n is x for x in ast.walk(lp))}
    skips = [n for n in walk_local(f) if isinstance(n, ast.Continue) and not any(n is x for x in ast.walk(lp))
             and any(p and " in " in t and "not in" not in t and t.split(" in ")[-1] in mark_sets for t, p in C.guard_texts(f, n))]
    unconditional = [n for n in skips if all(("len(" not in t) for t, p in C.guard_texts(f, n))]
    if not bad:
        if unconditional:
            ctx.ok("K16", "a path is skipped when its end was already expanded; vertices are marked when expanded")
        else:
            ctx.violation("K16", lp, "connect_cycles no longer skips (unconditionally) a popped path whose end was already expanded: with marks made elsewhere the search "
                          "either repeats work without bound or misses paths", construct=f"{DB}.connect_cycles visited skip")


def k17_find_path(ctx) -> None:
    P = ctx.P
    m = P.need_method(DB, "find_path", own=True)
    f = m.node
    ctx.analysed(m)
    a, b = m.params()[1], m.params()[2]
    rs = [r for r in C.raises_of(f) if r.exc is not None and "KeyError" in norm(r.exc)]
    if rs and all((f"self.equivalent({a}, {b})", False) in C.guard_texts(f, r) for r in rs):
        ctx.ok("K17", "find_path refuses (KeyError) labels that are not equivalent")
    else:
        ctx.violation("K17", f, "find_path must raise KeyError when the two labels are not equivalent", construct=f"{DB}.find_path precondition")
    start = PT.find_all(f, f"_M_q.append(({a},))")
    ext = [l for l in walk_local(f) if isinstance(l, ast.For) and isinstance(l.iter, ast.Subscript) and is_self_attr(l.iter.value, "vertices")]
    grows = False
    # canonical form of the appending loop: q.extend(p + (ne,) for ne in self.vertices[...] if ...)
    ext_gen = [c for c in walk_local(f) if isinstance(c, ast.Call) and isinstance(c.func, ast.Attribute) and c.func.attr == "extend" and c.args
               and isinstance(c.args[0], ast.GeneratorExp) and len(c.args[0].generators) == 1 and isinstance(c.args[0].generators[0].iter, ast.Subscript)
               and is_self_attr(c.args[0].generators[0].iter.value, "vertices")]
    if ext_gen and start and not ext:
        q = start[0][1]["_M_q"]
        g0 = ext_gen[0].args[0]
        ne = norm(g0.generators[0].target)
        grows = norm(ext_gen[0].func.value) == q and PT.match(PT.compile_pattern("_M_p + (_M_ne,)"), g0.elt, {"_M_ne": ne}) is not None
    if ext and start:
        q = start[0][1]["_M_q"]
        ne = norm(ext[0].target)
        grows = bool(PT.find_all(ext[0], "_M_q.append(_M_p + (_M_ne,))", {"_M_q": q, "_M_ne": ne}))
    if start and grows:
        ctx.ok("K17", "the explanation path starts at the first label and is extended along recorded edges (self.vertices) only")
    else:
        ctx.violation("K17", f, "find_path must start from (comb_class,) and extend paths only along self.vertices[end]", construct=f"{DB}.find_path search")
    brk = [n for n in walk_local(f) if isinstance(n, ast.Break)]
    # leaving the loop with the path in hand is the same stop
    brk += [r for r in C.returns_of(f) if r.value is not None and C.enclosing_loops(f, r) and isinstance(r.value, ast.Name)]
    if brk and all(any(p and t.endswith(f"== {b}") for t, p in C.guard_texts(f, x)) for x in brk):
        ctx.ok("K17", "the search stops when the path ends at the second label")
    else:
        ctx.violation("K17", f, "find_path must stop exactly when the path's end is the second label", construct=f"{DB}.find_path stop")
    # what is handed back is the path the search found, or a single recorded edge in its own direction
    pops = {t.id for n in walk_local(f) for t, v in [PT.assign_value(n)] if isinstance(t, ast.Name) and isinstance(v, ast.Call)
            and isinstance(v.func, ast.Attribute) and v.func.attr in ("popleft", "pop")}
    for r in C.returns_of(f):
        if r.value is None:
            continue
        v = r.value
        if isinstance(v, ast.Name) and v.id in pops:
            ctx.ok("K17", "find_path returns the path the search stopped at")
        elif isinstance(v, ast.Tuple) and len(v.elts) == 2 and [norm(e) for e in v.elts] == [a, b] \
                and any(p and t in (f"{b} in self.vertices[{a}]", f"{b} in self.vertices.get({a}, ())") for t, p in C.guard_texts(f, r)):
            ctx.ok("K17", "find_path returns a direct edge only when it is recorded in that direction")
        elif isinstance(v, ast.Tuple) and len(v.elts) == 1 and norm(v.elts[0]) == a and any(p and t in (f"{a} == {b}", f"{b} == {a}") for t, p in C.guard_texts(f, r)):
            ctx.ok("K17", "find_path returns the trivial path for equal labels")
        else:
            ctx.violation("K17", r, f"find_path returns `{norm(v)}`, which is neither the path found by the search nor an edge recorded from `{a}` to `{b}`: the explanation "
                          "is replayed rule by rule, and a step that was never recorded in that direction has no rule")
    # a vertex is marked as done when it has been expanded, not when it is first seen: the
    # loop skips popped paths whose end is marked, so marking at enqueue time expands nothing
    skips_popped = [n for n in walk_local(f) if isinstance(n, ast.Continue) and not (ext and any(n is x for x in ast.walk(ext[0])))
                    and any(p and PT.match(PT.compile_pattern("_E_e in _M_vis"), _t(t)) is not None for t, p in C.guard_texts(f, n))]
    adds = [c for c in walk_local(f) if isinstance(c, ast.Call) and isinstance(c.func, ast.Attribute) and c.func.attr == "add" and isinstance(c.func.value, ast.Name)]
    if ext and adds:
        exp_var = norm(ext[0].target)
        for c in adds:
            inside = any(c is x for x in ast.walk(ext[0]))
            if inside and c.args and norm(c.args[0]) == exp_var and skips_popped:
                ctx.violation("K17", c, f"`{norm(c)}` marks a vertex as visited when it is enqueued, and popped paths ending at a visited vertex are skipped: nothing beyond the "
                              "first edges is ever expanded, so classes two steps apart are reported unreachable (the loop ends with the last path popped, which is returned)")
            elif not inside:
                ctx.ok("K17", "a vertex is marked visited after its edges have been followed")



def k22_parent_pointers_are_not_representatives(ctx) -> None:
    """`self.parents[x]` is a link of the union-find forest, not the representative of x: only
    the find (`__getitem__`, which follows the links to the root and compresses) may read the
    *values* of the table.  Everything else asks `self[x]`.  A parent pointer compared with a
    root is right for trees of depth one only."""
    P = ctx.P
    cls = P.need_class(DB)
    n = 0
    for m in cls.methods.values():
        if m.name in ("__getitem__", "__init__", "__eq__"):
            continue
        f = m.node
        for x in walk_local(f):
            bad = None
            if isinstance(x, ast.Subscript) and isinstance(x.ctx, ast.Load) and is_self_attr(x.value, "parents"):
                bad = x
            elif isinstance(x, ast.Call) and isinstance(x.func, ast.Attribute) and is_self_attr(x.func.value, "parents") and x.func.attr in ("items", "values", "get", "pop", "setdefault"):
                bad = x
            if bad is not None:
                ctx.violation("K22", bad, f"{m.qualname} reads a parent pointer (`{norm(bad)[:50]}`): that is the next link towards the root, not the representative -- after two "
                              "merges in a row members of the class sit two links below the root and are missed (ask `self[x]`)")
        n += 1
    find = P.need_method(DB, "__getitem__", own=True)
    if any(isinstance(x, ast.While) for x in walk_local(find.node)):
        ctx.ok("K22", f"parent pointers are followed to the root in {DB}.__getitem__ only ({n} other methods ask for representatives)")
    else:
        raise AnalysisError("K22: EquivalenceDB.__getitem__ no longer follows the parent pointers to the root")
