"""
Engine Y -- language-level slips in the code a property is anchored in.

Round 6 of the independently seeded changes asked for state-lifetime, determinism and
return-contract slips, and a third of what the checks missed were not specific to this
library at all: a method used without being called (`if rule.is_two_way:`), a generator kept
where a list was (and walked twice), `functools.lru_cache` put on a generator method, a
mutable default argument that is written to, a container in the class body that instances
write to, a memo keyed by `hash(x)` / `id(x)`.  Each has an exact syntactic description, none
occurs in the package as pinned, and each changes behaviour for *some* inputs only -- which is
why the tests do not see them.  They are applied to the modules a property is anchored in
(properties.jsonl, anchors.files): there, each of them breaks the mechanism the property
relies on.

Y1  a method object is always true: `x.m` (m a method of a package class, nowhere a property
    or an instance attribute) as a condition / operand of and-or-not, or returned from a
    function declared `-> bool`.
Y2  a one-shot iterator (generator expression, map / filter / zip / chain / reversed /
    iter) is walked once: not kept as an element or value of a display / comprehension, not
    bound to a local that is read more than once or read inside a loop it was made outside of.
Y3  `lru_cache` / `cache` on a generator function or an instance method; `cached_property`
    in a class that compares (or is pickled) by its `__dict__`.
Y4  a mutable default argument that the function writes to or keeps in `self`.
Y5  a mutable container in a class body that methods write to through `self.` / `cls.`.
Y6  `hash(x)` / `id(x)` used as the key of a container kept in `self` or at module level.
Y7  a memo (`if k not in self.m: self.m[k] = E`) whose key leaves out an argument E depends on.
Y8  a function declared `-> Optional[T]` returning `a and b` (False is not None).
Y9  labels handed out / rules recorded while iterating over a set (hash order).
Y11 the result of a method that only builds and returns a new object is thrown away.
Y12 in a chain of isinstance tests that each leave (return / raise / continue), a class is
    tested after one of its base classes: its branch is never reached.
Y13 a lambda / nested function made inside a loop reads the loop variable and outlives the
    iteration (it sees the last value when it is finally called).
Y14 `is` / `is not` between values (an operand annotated int / str / float / Tuple, or a
    literal of those types): identity of equal values is an accident of the interpreter.
Y15 one mutable object repeated: `[[]] * n`, `[{}] * n`, `dict.fromkeys(keys, [])`.
Y16 `__exit__` returns nothing (or False): a true result swallows the exception in flight.
Y17 the backing attribute `x._name` of a property `name` is read from outside the class that
    owns the property: a subclass that overrides the property is bypassed.
Y19 `xs[-e:]` / `xs[:-e]` with a computed e: for e == 0 the first is the whole sequence and
    the second is empty.
Y20 a call declared `-> Tuple[...]` tested for truth, or returned from a function declared
    `-> bool`: a non-empty tuple is always true.
Y21 slices of one sequence put together again: `A[:i] + (f(A[i]),) + A[j:]` replaces element
    i, so j is i + 1 (with j = i the element is there twice); a rotation `A[k:] + A[:m]` has
    m = k (otherwise elements are lost or doubled).
Y22 a list kept in `self` whose positions are used as indices elsewhere in the class is not
    sorted / reversed in place (directly or through a local alias): every stored index then
    names another element.
Y23 `<empty> if c else a + b`: the conditional expression binds loosest, so `+ b` belongs to the
    else arm only (what was meant is `(<empty> if c else a) + b`).
Y24 the values of a `**kwargs` dictionary made into a tuple / list: their order is the order
    the caller happened to write the keywords in, not the order of the class's statistics.
Y25 a parameter with default None is re-bound only under `p is None` (or from itself): what the
    caller passed is what is used.
Y26 a "something changed" flag of a fixpoint loop (reset to False at the top of the round, tested at
    the end) is only ever *raised* inside the round (`flag = True`, `flag = flag or ...`): assigned a
    computed value, a later item resets what an earlier item raised.
Y27 a value that can no longer be None (`tuple(...)`, `x or ()`) is tested `is None` right after: the
    "does not apply" answer has been turned into a value and the test is dead.
Y28 a function taking `**kwargs` that delegates to a method of its own name passes them on.
Y29 a collection that is created inside a loop, filled in that loop and read after it holds the
    last round only.
Y10 a copy / pickle hook (`__getstate__`, `__setstate__`, `__reduce__`, `__copy__`, `__deepcopy__`)
    that does anything but carry the whole instance dictionary over.
"""
from __future__ import annotations

import ast
from typing import Dict, List, Optional, Set, Tuple

from ..core import control as C
from ..core import dataflow as D
from ..core.program import AnalysisError, ClassInfo, FuncInfo, Program, is_self_attr, norm, parent, walk_local

ONE_SHOT = {"map", "filter", "zip", "iter", "reversed", "chain", "islice", "from_iterable", "product", "enumerate"}
MUTATORS = {"append", "extend", "add", "update", "insert", "pop", "remove", "discard", "clear", "setdefault", "popitem", "appendleft", "popleft", "sort"}
MUTABLE_CTORS = {"list", "dict", "set", "deque", "defaultdict", "Counter", "OrderedDict"}


# class-level containers that are shared on purpose (confirmed by reading; one line of reason each)
SHARED_ON_PURPOSE = {
    ("TermsCache", "ALL_CACHES"): "registry of all caches, read only by the memory report",
    ("TermsCache", "KEY_CACHE"): "interning table of parameter tuples: maps a tuple to an equal tuple, so sharing changes no value",
}


def _in_modules(fi: FuncInfo, modules: Tuple[str, ...]) -> bool:
    return fi.module.short in modules


def _method_names(P: Program) -> Set[str]:
    meths: Set[str] = set()
    props: Set[str] = set()
    attrs: Set[str] = set()
    for cls in P.classes.values():
        for name, m in cls.methods.items():
            if m.is_property() or any(d.endswith(("cached_property", ".setter", ".getter")) for d in m.decorators):
                props.add(name)
            else:
                meths.add(name)
    for fi in P.all_functions():
        for n in ast.walk(fi.node):
            if isinstance(n, ast.Attribute) and isinstance(n.ctx, ast.Store):
                attrs.add(n.attr)
    return {m for m in meths if m not in props and m not in attrs and not (m.startswith("__") and m.endswith("__"))}


def _is_one_shot_expr(e: ast.AST) -> bool:
    if isinstance(e, ast.GeneratorExp):
        return True
    if isinstance(e, ast.Call):
        name = norm(e.func).split(".")[-1]
        return name in ONE_SHOT
    return False


def _mutable_value(v: Optional[ast.AST]) -> bool:
    if v is None:
        return False
    if isinstance(v, (ast.List, ast.Dict, ast.Set, ast.ListComp, ast.DictComp, ast.SetComp)):
        return True
    return isinstance(v, ast.Call) and isinstance(v.func, ast.Name) and v.func.id in MUTABLE_CTORS


def run(ctx, modules: Tuple[str, ...]) -> None:
    P = ctx.P
    meths = _method_names(P)
    funcs = [fi for fi in P.all_functions() if _in_modules(fi, modules)]
    if len(funcs) < 5:
        raise AnalysisError(f"Y: only {len(funcs)} functions in the anchor modules {modules}")
    n_fn = 0
    # module-level mutable containers (they outlive every call)
    module_containers: Dict[str, Set[str]] = {}
    for mi in P.modules.values():
        for st in mi.tree.body:
            tv = None
            if isinstance(st, ast.Assign) and len(st.targets) == 1 and isinstance(st.targets[0], ast.Name):
                tv = (st.targets[0].id, st.value)
            elif isinstance(st, ast.AnnAssign) and isinstance(st.target, ast.Name) and st.value is not None:
                tv = (st.target.id, st.value)
            if tv and _mutable_value(tv[1]):
                module_containers.setdefault(mi.short, set()).add(tv[0])
    by_name_all: Dict[str, List[FuncInfo]] = {}
    for fi_ in P.all_functions():
        by_name_all.setdefault(fi_.name, []).append(fi_)
    # functions that hand back a one-shot iterator without being generator functions
    one_shot_returners: Dict[str, FuncInfo] = {}
    for fi in P.all_functions():
        if any(isinstance(x, (ast.Yield, ast.YieldFrom)) for x in walk_local(fi.node)):
            continue
        rets = [r for r in C.returns_of(fi.node) if r.value is not None]
        if rets and any(isinstance(r.value, ast.GeneratorExp) or (isinstance(r.value, ast.Call) and norm(r.value.func).split(".")[-1] in ("map", "filter", "zip")) for r in rets):
            one_shot_returners[fi.name] = fi
    tuple_returners = {nm: fs for nm, fs in by_name_all.items() if not nm.startswith("__")
                       and all(x.node.returns is not None and norm(x.node.returns).startswith(("Tuple[", "tuple[")) for x in fs)}
    # properties `name` whose getter hands back `self._name`
    backing_props: Dict[str, List[ClassInfo]] = {}
    for k_ in P.classes.values():
        for m_ in k_.methods.values():
            if "property" in m_.decorators:
                rs_ = [r for r in C.returns_of(m_.node) if r.value is not None]
                if rs_ and all(is_self_attr(r.value, "_" + m_.name) for r in rs_):
                    backing_props.setdefault("_" + m_.name, []).append(k_)
    # names that resolve only to functions declared `-> Optional[int]`
    by_name: Dict[str, List[FuncInfo]] = {}
    for fi in P.all_functions():
        by_name.setdefault(fi.name, []).append(fi)
    opt_int_returners = {nm: fs for nm, fs in by_name.items() if not nm.startswith("__")
                         and all(x.node.returns is not None and norm(x.node.returns) in ("Optional[int]", "Optional[float]") for x in fs)}
    for fi in funcs:
        f = fi.node
        n_fn += 1
        # a result that is a one-shot iterator is read once by the caller
        for st in walk_local(f):
            tv2 = None
            if isinstance(st, ast.Assign) and len(st.targets) == 1 and isinstance(st.targets[0], ast.Name):
                tv2 = (st.targets[0].id, st.value)
            elif isinstance(st, ast.AnnAssign) and isinstance(st.target, ast.Name) and st.value is not None:
                tv2 = (st.target.id, st.value)
            if tv2 is None or not isinstance(tv2[1], ast.Call):
                continue
            cname = tv2[1].func.attr if isinstance(tv2[1].func, ast.Attribute) else (tv2[1].func.id if isinstance(tv2[1].func, ast.Name) else None)
            if cname in one_shot_returners:
                loads = [x for x in walk_local(f) if isinstance(x, ast.Name) and x.id == tv2[0] and isinstance(x.ctx, ast.Load)]
                in_loop = [x for x in loads if any(not (isinstance(l, ast.For) and l.iter is x) and not any(st is y for y in ast.walk(l)) for l in C.enclosing_loops(f, x))]
                if len(loads) > 1 or in_loop:
                    ctx.violation("Y2", loads[1] if len(loads) > 1 else in_loop[0], f"{fi.qualname}: `{tv2[0]}` is the result of {one_shot_returners[cname].qualname}, which hands back a "
                                  f"one-shot iterator, and is read {'inside a loop' if in_loop else str(len(loads)) + ' times'}: every read after the first finds it empty "
                                  "(a comparison against it is then vacuous)")
        # ---------------------------------------------------------------- Y1
        def truthy(e: ast.AST, out: List[ast.AST]) -> None:
            if isinstance(e, ast.BoolOp):
                for v in e.values:
                    truthy(v, out)
            elif isinstance(e, ast.UnaryOp) and isinstance(e.op, ast.Not):
                truthy(e.operand, out)
            elif isinstance(e, ast.Attribute) and e.attr in meths and not isinstance(parent(e), ast.Call):
                out.append(e)

        for n in walk_local(f):
            hits: List[ast.AST] = []
            if isinstance(n, (ast.If, ast.While, ast.IfExp, ast.Assert)):
                truthy(n.test, hits)
            elif isinstance(n, ast.comprehension):
                for t in n.ifs:
                    truthy(t, hits)
            elif isinstance(n, ast.BoolOp):
                for v in n.values[:-1]:
                    truthy(v, hits)
            elif isinstance(n, ast.Return) and n.value is not None and f.returns is not None and norm(f.returns) == "bool":
                truthy(n.value, hits)
            for e in hits:
                ctx.violation("Y1", e, f"{fi.qualname}: `{norm(e)}` is a method, used here as a truth value without being called: it is always true, whatever `{norm(e)}()` would answer")
        # ---------------------------------------------------------------- Y2
        for n in walk_local(f):
            elems: List[ast.AST] = []
            if isinstance(n, (ast.Tuple, ast.List, ast.Set)) and isinstance(getattr(n, "ctx", ast.Load()), ast.Load):
                elems = list(n.elts)
            elif isinstance(n, ast.Dict):
                elems = [v for v in n.values]
            elif isinstance(n, ast.DictComp):
                elems = [n.value]
            elif isinstance(n, (ast.ListComp, ast.SetComp)):
                elems = [n.elt]
            elif isinstance(n, ast.GeneratorExp) and isinstance(parent(n), ast.Call) and isinstance(parent(n).func, ast.Name) \
                    and parent(n).func.id in ("tuple", "list", "frozenset", "set", "deque") and parent(n).args and parent(n).args[0] is n:
                elems = [n.elt]         # tuple(<one-shot> for ...): every element of the tuple is an iterator
            # either arm of a conditional element
            elems = [a for e in elems for a in ((e.body, e.orelse) if isinstance(e, ast.IfExp) else (e,))]
            for e in elems:
                if _is_one_shot_expr(e) and not isinstance(parent(n), ast.Starred):
                    # a generator handed straight on as an argument tuple of a call that consumes it is not "kept"
                    ctx.violation("Y2", e, f"{fi.qualname}: the one-shot iterator `{norm(e)[:60]}` is kept as an element of a container: whoever reads that element a second time "
                                  "(another branch of a search, a second lookup) finds it empty")
        defs = D.definitions(f)
        for name, ds in defs.items():
            if len(ds) != 1 or ds[0][3] != "assign" or ds[0][1] is None or ds[0][2]:
                continue
            if not _is_one_shot_expr(ds[0][1]):
                continue
            dst = ds[0][0]
            loads = [x for x in walk_local(f) if isinstance(x, ast.Name) and x.id == name and isinstance(x.ctx, ast.Load)]
            def_loops = {id(l) for l in C.enclosing_loops(f, dst)}
            in_loop = [x for x in loads if any(id(l) not in def_loops for l in C.enclosing_loops(f, x)
                                               if not (isinstance(l, ast.For) and l.iter is x))]
            if len(loads) > 1 or in_loop:
                x = (in_loop or loads[1:])[0]
                ctx.violation("Y2", x, f"{fi.qualname}: `{name}` is the one-shot iterator `{norm(ds[0][1])[:60]}` and is read {'inside a loop' if in_loop else str(len(loads)) + ' times'}: "
                              "after the first walk it is empty")
        # ---------------------------------------------------------------- Y3
        decos = [d.split(".")[-1].split("(")[0] for d in fi.decorators]
        is_gen = any(isinstance(x, (ast.Yield, ast.YieldFrom)) for x in walk_local(f))
        if any(d in ("lru_cache", "cache") for d in decos):
            ret_ann = norm(f.returns).split("[")[0].split(".")[-1] if f.returns is not None else ""
            if ret_ann in ("Iterable", "Iterator", "Generator") and not is_gen:
                ctx.violation("Y3", f, f"{fi.qualname} is declared to return an {ret_ann} and sits under a cache decorator: when the result is a generator (a factory's output) "
                              "the cache hands the same, already exhausted object to the second caller", construct=f"{fi.qualname} cache decorator")
            if is_gen:
                ctx.violation("Y3", f, f"{fi.qualname} is a generator function under a cache decorator: the cache hands the same, already exhausted generator to the second caller",
                              construct=f"{fi.qualname} cache decorator")
            elif fi.cls is not None and not fi.is_static():
                ctx.violation("Y3", f, f"{fi.qualname} is an instance method under a cache decorator: the answer is remembered per (self, arguments) by equality / hash of self while "
                              "the instance's state goes on changing, and it outlives the instance", construct=f"{fi.qualname} cache decorator")
        if "cached_property" in decos and fi.cls is not None:
            fam = list(P.mro(fi.cls)) + list(P.subclasses(fi.cls, strict=True))
            eqs = [k.methods["__eq__"] for k in fam if "__eq__" in k.methods]
            if any("__dict__" in norm(e_.node) or "vars(" in norm(e_.node) for e_ in eqs):
                ctx.violation("Y3", f, f"{fi.qualname} is a cached_property of a class compared by __dict__: the cached value lands in __dict__, so two equal objects differ once one "
                              "of them has been asked (and a value that refers back to the owner makes the comparison recurse)", construct=f"{fi.qualname} cached_property")
        # ---------------------------------------------------------------- Y4
        a = f.args
        pos = a.posonlyargs + a.args
        pairs = list(zip(pos[len(pos) - len(a.defaults):], a.defaults)) + [(k, d) for k, d in zip(a.kwonlyargs, a.kw_defaults) if d is not None]
        for arg, dflt in pairs:
            if not _mutable_value(dflt):
                continue
            p = arg.arg
            written = [c for c in walk_local(f) if isinstance(c, ast.Call) and isinstance(c.func, ast.Attribute) and c.func.attr in MUTATORS
                       and isinstance(c.func.value, ast.Name) and c.func.value.id == p]
            written += [t for t in walk_local(f) if isinstance(t, ast.Subscript) and isinstance(t.ctx, (ast.Store, ast.Del)) and isinstance(t.value, ast.Name) and t.value.id == p]
            kept = [s_ for s_ in walk_local(f) if isinstance(s_, (ast.Assign, ast.AnnAssign)) and getattr(s_, "value", None) is not None and isinstance(s_.value, ast.Name)
                    and s_.value.id == p and any(is_self_attr(t) for t in (s_.targets if isinstance(s_, ast.Assign) else [s_.target]))]
            if written or kept:
                ctx.violation("Y4", dflt, f"{fi.qualname}: the default `{p}={norm(dflt)}` is one object made when the function is defined; it is "
                              f"{'kept in self' if kept else 'written to'}, so every call (every instance) that relies on the default shares it")
        # ---------------------------------------------------------------- Y20 (a tuple returned as a bool)
        if f.returns is not None and norm(f.returns) == "bool":
            for r in C.returns_of(f):
                rv = D.expanded(f, r.value) if isinstance(r.value, ast.Name) else r.value
                if isinstance(rv, ast.Call):
                    tnm = rv.func.attr if isinstance(rv.func, ast.Attribute) else (rv.func.id if isinstance(rv.func, ast.Name) else None)
                    if tnm in tuple_returners:
                        ctx.violation("Y20", r, f"{fi.qualname} is declared `-> bool` and returns `{norm(r.value)[:60]}`, a `{norm(tuple_returners[tnm][0].node.returns)[:40]}`: "
                                      "callers test it for truth, and a non-empty tuple is always true")
        # ---------------------------------------------------------------- Y8 (Optional results)
        if f.returns is not None and norm(f.returns).startswith("Optional[") and not norm(f.returns).startswith("Optional[bool"):
            for r in C.returns_of(f):
                if isinstance(r.value, ast.BoolOp) and isinstance(r.value.op, ast.And):
                    ctx.violation("Y8", r, f"{fi.qualname} is declared to return {norm(f.returns)[:50]} and returns `{norm(r.value)[:60]}`: when the left operand is false that is "
                                  "`False` (or another falsy value), not None, and callers that test `is None` take it for a result")
        # a call declared `-> Optional[int]` is tested with `is None`, never for truth: 0 is a label / an index like any other
        def _attr_is_int(k0: ClassInfo, attr: str) -> bool:
            for k_ in P.mro(k0):
                for st_ in P.attr_assignments(k_).get(attr, []):
                    a_ = getattr(st_, "annotation", None)
                    v_ = getattr(st_, "value", None)
                    if a_ is not None and norm(a_) == "int":
                        return True
                    if isinstance(v_, ast.Name):
                        for m_ in k_.methods.values():
                            if any(st_ is x for x in walk_local(m_.node)):
                                for pa in m_.node.args.posonlyargs + m_.node.args.args + m_.node.args.kwonlyargs:
                                    if pa.arg == v_.id and pa.annotation is not None and norm(pa.annotation) == "int":
                                        return True
            return False

        def _opt_int_call(e: ast.AST) -> Optional[str]:
            if isinstance(e, ast.Name):
                rv_ = D.reaching_value(f, e, e.id) if parent(e) is not None else None
                e = rv_[1] if rv_ is not None and rv_[1] is not None else D.expanded(f, e)
            if not isinstance(e, ast.Call):
                return None
            nm = e.func.attr if isinstance(e.func, ast.Attribute) else (e.func.id if isinstance(e.func, ast.Name) else None)
            tgts = opt_int_returners.get(nm or "")
            if tgts:
                return nm
            # d.pop("k", None) / d.get("k") of a key that the same class writes from an int attribute (to_jsonable / from_dict)
            if nm in ("pop", "get") and e.args and isinstance(e.args[0], ast.Constant) and isinstance(e.args[0].value, str) and fi.cls is not None \
                    and (len(e.args) == 1 and nm == "get" or (len(e.args) == 2 and isinstance(e.args[1], ast.Constant) and e.args[1].value is None)):
                key_ = e.args[0].value
                for k_ in P.mro(fi.cls):
                    for m_ in k_.methods.values():
                        for w_ in walk_local(m_.node):
                            if isinstance(w_, ast.Assign) and len(w_.targets) == 1 and isinstance(w_.targets[0], ast.Subscript) and isinstance(w_.targets[0].slice, ast.Constant) \
                                    and w_.targets[0].slice.value == key_ and is_self_attr(w_.value):
                                if _attr_is_int(k_, w_.value.attr):
                                    return f"{norm(e.func)}('{key_}')"
            if nm == "get" and len(e.args) == 1 and isinstance(e.func, ast.Attribute) and is_self_attr(e.func.value) and fi.cls is not None:
                for k_ in P.mro(fi.cls):
                    for st_ in P.attr_assignments(k_).get(e.func.value.attr, []):
                        a_ = getattr(st_, "annotation", None)
                        v_ = getattr(st_, "value", None)
                        if a_ is None and isinstance(v_, ast.Name):
                            # self.table = table, with the parameter annotated
                            for m_ in k_.methods.values():
                                if any(st_ is x for x in walk_local(m_.node)):
                                    for pa in m_.node.args.posonlyargs + m_.node.args.args + m_.node.args.kwonlyargs:
                                        if pa.arg == v_.id and pa.annotation is not None:
                                            a_ = pa.annotation
                        if a_ is not None and norm(a_).replace(" ", "").endswith(",int]"):
                            return f"self.{e.func.value.attr}.get"
            return None
        for n in walk_local(f):
            tested: List[ast.AST] = []
            if isinstance(n, ast.BoolOp):
                tested = list(n.values[:-1]) if isinstance(n.op, ast.Or) else list(n.values)
                if isinstance(n.op, ast.Or) and isinstance(getattr(n, "_parent", None), (ast.If, ast.While, ast.IfExp)) and getattr(n._parent, "test", None) is n:
                    tested = list(n.values)
            elif isinstance(n, (ast.If, ast.While, ast.IfExp)):
                tested = [n.test]
            elif isinstance(n, ast.UnaryOp) and isinstance(n.op, ast.Not):
                tested = [n.operand]
            elif isinstance(n, ast.Call) and isinstance(n.func, ast.Name) and n.func.id == "bool" and len(n.args) == 1:
                tested = [n.args[0]]
            for t in tested:
                tc = D.expanded(f, t) if isinstance(t, ast.Name) else t
                if isinstance(tc, ast.Call):
                    tnm = tc.func.attr if isinstance(tc.func, ast.Attribute) else (tc.func.id if isinstance(tc.func, ast.Name) else None)
                    if tnm in tuple_returners:
                        ctx.violation("Y20", t, f"{fi.qualname} tests `{norm(t)[:60]}` for truth; `{tnm}` is declared `-> {norm(tuple_returners[tnm][0].node.returns)[:40]}`, and a "
                                      "non-empty tuple is true whatever it holds: the answer inside it is never looked at")
                nm = _opt_int_call(t)
                if nm:
                    ctx.violation("Y8", t, f"{fi.qualname} tests `{norm(t)[:60]}` for truth; `{nm}` gives an Optional[int], and the label / index 0 is as false as None: "
                                  "for that one value the answer is taken to be missing")
        # ---------------------------------------------------------------- Y13 (late binding)
        for lp_ in walk_local(f):
            if not isinstance(lp_, (ast.For, ast.While)):
                continue
            tv = {x.id for x in ast.walk(lp_.target) if isinstance(x, ast.Name)} if isinstance(lp_, ast.For) else set()
            # names re-bound in every round of the loop
            for st_ in lp_.body:
                for x in ast.walk(st_):
                    if isinstance(x, ast.Name) and isinstance(x.ctx, ast.Store):
                        tv.add(x.id)
            for b_ in lp_.body:
                for l_ in ast.walk(b_):
                    if not isinstance(l_, (ast.Lambda, ast.FunctionDef)):
                        continue
                    la = l_.args
                    lparams = {a.arg for a in la.args + la.kwonlyargs + la.posonlyargs} | ({la.vararg.arg} if la.vararg else set()) | ({la.kwarg.arg} if la.kwarg else set())
                    body_nodes = list(ast.walk(l_.body)) if isinstance(l_, ast.Lambda) else [x for s_ in l_.body for x in ast.walk(s_)]
                    own = {x.id for x in body_nodes if isinstance(x, ast.Name) and isinstance(x.ctx, ast.Store)}
                    free = {x.id for x in body_nodes if isinstance(x, ast.Name) and isinstance(x.ctx, ast.Load)} - lparams - own
                    late = sorted(free & tv)
                    if not late:
                        continue
                    par_ = getattr(l_, "_parent", None)
                    # used on the spot: called directly, or handed as key= / first argument to a consumer that runs it before the call returns
                    immediate = (isinstance(par_, ast.Call) and par_.func is l_) or \
                        (isinstance(par_, ast.keyword) and par_.arg == "key") or \
                        (isinstance(par_, ast.Call) and isinstance(par_.func, ast.Name) and par_.func.id in ("sorted", "min", "max", "filter", "map", "any", "all", "sum", "next")
                         and isinstance(getattr(par_, "_parent", None), (ast.Call, ast.For, ast.Assign, ast.Return, ast.Expr, ast.comprehension, ast.If, ast.keyword, ast.Starred))
                         and par_.func.id not in ("map", "filter"))
                    if isinstance(l_, ast.FunctionDef):
                        # a helper defined in the loop and only called inside the same round
                        uses = [x for s_ in lp_.body for x in ast.walk(s_) if isinstance(x, ast.Name) and x.id == l_.name and isinstance(x.ctx, ast.Load)]
                        immediate = bool(uses) and all(isinstance(getattr(x, "_parent", None), ast.Call) and x._parent.func is x for x in uses)
                    if immediate:
                        continue
                    ctx.violation("Y13", l_, f"{fi.qualname}: `{norm(l_)[:60]}` is made inside a loop and reads `{late[0]}`, which the loop re-binds: the function looks the name up "
                                  "when it is *called*, so every one of them kept for later sees the value of the last round")
        # ---------------------------------------------------------------- Y14 (identity of values)
        ann: Dict[str, str] = {}
        for a_ in f.args.posonlyargs + f.args.args + f.args.kwonlyargs:
            if a_.annotation is not None:
                ann[a_.arg] = norm(a_.annotation)
        for st_ in walk_local(f):
            if isinstance(st_, ast.AnnAssign) and isinstance(st_.target, ast.Name):
                ann[st_.target.id] = norm(st_.annotation)

        def _valueish(e: ast.AST) -> bool:
            if isinstance(e, ast.Constant):
                return isinstance(e.value, (int, str, float, bytes)) and not isinstance(e.value, bool)
            if isinstance(e, ast.Tuple):
                return True
            if isinstance(e, ast.Name) and e.id in ann:
                t_ = ann[e.id]
                return t_ in ("int", "str", "float") or t_.startswith(("Tuple[", "tuple[", "FrozenSet[", "frozenset["))
            return False
        for n in walk_local(f):
            if isinstance(n, ast.Compare) and len(n.ops) == 1 and isinstance(n.ops[0], (ast.Is, ast.IsNot)):
                a0, b0 = n.left, n.comparators[0]
                if any(isinstance(x, ast.Constant) and (x.value is None or isinstance(x.value, bool) or x.value is Ellipsis) for x in (a0, b0)):
                    continue
                def _classish(e: ast.AST) -> bool:
                    # combinatorial classes are values too: equal classes are built again and again by the strategies
                    return (isinstance(e, ast.Attribute) and e.attr == "comb_class") or \
                        (isinstance(e, ast.Subscript) and isinstance(e.value, (ast.Name, ast.Attribute)) and norm(e.value).split(".")[-1] in ("children", "non_empty_children"))
                if _classish(a0) or _classish(b0):
                    ctx.violation("Y14", n, f"{fi.qualname} compares combinatorial classes by identity (`{norm(n)[:60]}`): a strategy builds its children anew, so an equal class is "
                                  "a different object and the test never holds")
                    continue
                if _valueish(a0) or _valueish(b0):
                    ctx.violation("Y14", n, f"{fi.qualname} compares values by identity (`{norm(n)[:60]}`): two equal ints / strings / tuples are the same object only by accident "
                                  "(small-int and literal caching), so the test fails for labels above 256 or values that were computed rather than copied")
        # ---------------------------------------------------------------- Y15 (one object repeated)
        for n in walk_local(f):
            if isinstance(n, ast.BinOp) and isinstance(n.op, ast.Mult):
                for side in (n.left, n.right):
                    if isinstance(side, (ast.List, ast.Tuple)) and any(_mutable_value(e) for e in side.elts):
                        ctx.violation("Y15", n, f"{fi.qualname}: `{norm(n)[:60]}` repeats *one* mutable object: a write through one position shows in all of them")
            if isinstance(n, ast.Call) and isinstance(n.func, ast.Attribute) and n.func.attr == "fromkeys" and len(n.args) == 2 and _mutable_value(n.args[1]):
                ctx.violation("Y15", n, f"{fi.qualname}: `{norm(n)[:60]}` gives every key the same mutable object")
        # ---------------------------------------------------------------- Y16 (__exit__ result)
        if fi.name == "__exit__":
            for r in C.returns_of(f):
                if r.value is not None and not (isinstance(r.value, ast.Constant) and (r.value.value is None or r.value.value is False)):
                    ctx.violation("Y16", r, f"{fi.qualname} returns `{norm(r.value)[:40]}`: a true result of __exit__ tells the interpreter to swallow the exception that is being "
                                  "raised through the `with` block, so an error the caller relies on (a refusal) vanishes and the block just ends")
        # ---------------------------------------------------------------- Y17 (backing attribute read from outside)
        for n in walk_local(f):
            if isinstance(n, ast.Attribute) and isinstance(n.ctx, ast.Load) and n.attr.startswith("_") and not n.attr.startswith("__") \
                    and not (isinstance(n.value, ast.Name) and n.value.id in ("self", "cls")):
                owners = backing_props.get(n.attr, [])
                if not owners:
                    continue
                mine = {k.name for k in P.mro(fi.cls)} | {k.name for k in P.subclasses(fi.cls, strict=True)} if fi.cls is not None else set()
                outside = [o for o in owners if o.name not in mine]
                overridden = [o for o in outside if any(n.attr[1:] in k.methods for k in P.subclasses(o, strict=True))] or outside
                if outside and len(outside) == len(owners):
                    ctx.violation("Y17", n, f"{fi.qualname} reads `{norm(n)[:50]}`, the attribute behind the property `{n.attr[1:]}` of {overridden[0].name}, from outside that class: "
                                  f"a strategy / rule that overrides `{n.attr[1:]}` (it is a property so that it can be) is asked for the stored default instead")
        # ---------------------------------------------------------------- Y19 (negated computed slice bound)
        for n in walk_local(f):
            if isinstance(n, ast.Subscript) and isinstance(n.slice, ast.Slice):
                for b_, which in ((n.slice.lower, "lower"), (n.slice.upper, "upper")):
                    if isinstance(b_, ast.UnaryOp) and isinstance(b_.op, ast.USub) and not isinstance(b_.operand, ast.Constant):
                        e_txt = norm(b_.operand)
                        gs_ = [(norm(t), p_) for t, p_ in C.flatten_guards(C.guards(f, n))]
                        positive = any((p_ and t in (e_txt, f"{e_txt} > 0", f"{e_txt} >= 1", f"0 < {e_txt}", f"{e_txt} != 0")) or ((not p_) and t in (f"not {e_txt}", f"{e_txt} == 0", f"{e_txt} <= 0"))
                                       for t, p_ in gs_)
                        if not positive:
                            what = "the whole sequence" if which == "lower" else "empty"
                            ctx.violation("Y19", n, f"{fi.qualname}: `{norm(n)[:50]}` with `{e_txt}` == 0 is {what} (-0 is 0), not the last / all but the last 0 elements")
        # ---------------------------------------------------------------- Y21 (slices put together again)
        def _flat_add(e: ast.AST) -> List[ast.AST]:
            return _flat_add(e.left) + _flat_add(e.right) if isinstance(e, ast.BinOp) and isinstance(e.op, ast.Add) else [e]

        def _sl(e: ast.AST):
            if isinstance(e, ast.Subscript) and isinstance(e.slice, ast.Slice) and e.slice.step is None:
                return norm(e.value), (norm(e.slice.lower) if e.slice.lower is not None else "0"), (norm(e.slice.upper) if e.slice.upper is not None else None)
            return None
        for n in walk_local(f):
            if not (isinstance(n, ast.BinOp) and isinstance(n.op, ast.Add)) or (isinstance(parent(n), ast.BinOp) and isinstance(parent(n).op, ast.Add)):
                continue
            parts = _flat_add(n)
            sls = [_sl(p_) for p_ in parts]
            # rotation: A[k:] + A[0:m]
            if len(parts) == 2 and sls[0] and sls[1] and sls[0][0] == sls[1][0] and sls[0][2] is None and sls[1][1] == "0" and sls[1][2] is not None:
                if sls[0][1] != sls[1][2]:
                    ctx.violation("Y21", n, f"{fi.qualname}: `{norm(n)[:80]}` puts the tail from `{sls[0][1]}` in front of the head up to `{sls[1][2]}`: a rotation cuts the sequence at "
                                  "one place, here an element is lost (or doubled) on every turn")
            # replacement: A[:i] + (… A[i] …,) + A[j:]
            if len(parts) == 3 and sls[0] and sls[2] and sls[0][0] == sls[2][0] and sls[0][2] is not None and sls[2][2] is None and not sls[1]:
                base, i_txt = sls[0][0], sls[0][2]
                carries = any(isinstance(x, ast.Subscript) and norm(x.value) == base and not isinstance(x.slice, ast.Slice) and norm(x.slice) == i_txt for x in ast.walk(parts[1]))
                if carries and sls[2][1] == i_txt:
                    ctx.violation("Y21", n, f"{fi.qualname}: `{norm(n)[:90]}` carries element `{i_txt}` over in the middle part and starts the tail at `{i_txt}` again: the element "
                                  f"is in the result twice (the tail of a replacement starts at `{i_txt} + 1`)")
        # ---------------------------------------------------------------- Y22 (in-place reorder of an indexed list)
        if fi.cls is not None:
            for c in walk_local(f):
                if not (isinstance(c, ast.Call) and isinstance(c.func, ast.Attribute) and c.func.attr in ("sort", "reverse") and not c.args):
                    continue
                recv = D.expanded(f, c.func.value) if isinstance(c.func.value, ast.Name) else c.func.value
                if not is_self_attr(recv):
                    continue
                attr = recv.attr
                indexed = [x for k_ in P.mro(fi.cls) + P.subclasses(fi.cls, strict=True) for m_ in k_.methods.values() for x in walk_local(m_.node)
                           if isinstance(x, ast.Subscript) and is_self_attr(x.value, attr) and not isinstance(x.slice, ast.Slice)
                           and not (isinstance(x.slice, ast.Constant) and x.slice.value in (0, -1))]
                if indexed:
                    ctx.violation("Y22", c, f"{fi.qualname} reorders self.{attr} in place (`{norm(c)[:50]}`), and `{norm(indexed[0])[:40]}` reads it by position: the indices kept "
                                  "in the other tables of the object now name other elements")
        # ---------------------------------------------------------------- Y23 (conditional expression swallowing an operand)
        def _empty_display(e: ast.AST) -> bool:
            return (isinstance(e, (ast.Tuple, ast.List)) and not e.elts) or (isinstance(e, ast.Call) and isinstance(e.func, ast.Name) and e.func.id in ("tuple", "list") and not e.args
                                                                           and not e.keywords) or (isinstance(e, ast.Constant) and e.value == "")
        for n in walk_local(f):
            if isinstance(n, ast.IfExp) and isinstance(n.orelse, ast.BinOp) and isinstance(n.orelse.op, ast.Add) and _empty_display(n.body):
                ctx.violation("Y23", n, f"{fi.qualname}: in `{norm(n)[:80]}` the `+ {norm(n.orelse.right)[:30]}` belongs to the else arm only (a conditional expression binds loosest): "
                              f"when `{norm(n.test)[:30]}` holds the result is empty and the added part is lost")
        # ---------------------------------------------------------------- Y24 (keyword order used as a position)
        kwname = f.args.kwarg.arg if f.args.kwarg is not None else None
        if kwname:
            for n in walk_local(f):
                if isinstance(n, ast.Call) and isinstance(n.func, ast.Name) and n.func.id in ("tuple", "list") and len(n.args) == 1:
                    a0 = n.args[0]
                    if isinstance(a0, ast.Call) and isinstance(a0.func, ast.Attribute) and a0.func.attr == "values" and isinstance(a0.func.value, ast.Name) and a0.func.value.id == kwname:
                        ctx.violation("Y24", n, f"{fi.qualname} makes a positional key out of `{norm(a0)}`: the values come in the order the caller wrote the keyword arguments, "
                                      "the tables are keyed in the order of the class's own statistics -- with two statistics given the other way round another entry is read")
        # ---------------------------------------------------------------- Y25 (an argument that was given is used)
        a25 = f.args
        pos25 = a25.posonlyargs + a25.args
        dflt25 = dict(zip([x.arg for x in pos25[len(pos25) - len(a25.defaults):]], a25.defaults))
        for k25, d25 in zip(a25.kwonlyargs, a25.kw_defaults):
            if d25 is not None:
                dflt25[k25.arg] = d25
        opt25 = {p_ for p_, d_ in dflt25.items() if isinstance(d_, ast.Constant) and d_.value is None}
        defs25 = D.definitions(f) if opt25 else {}

        def _mentions25(e: ast.AST, pname: str, depth: int) -> bool:
            """e is computed from the parameter itself (directly or through locals, e.g. an inlined helper's copy of it)."""
            for x in ast.walk(e):
                if isinstance(x, ast.Name):
                    if x.id == pname:
                        return True
                    if depth < 4:
                        for d in defs25.get(x.id, []):
                            if d[1] is not None and d[1] is not e and _mentions25(d[1], pname, depth + 1):
                                return True
            return False
        for st in walk_local(f):
            if not isinstance(st, ast.Assign):
                continue
            for t in st.targets:
                if isinstance(t, ast.Name) and t.id in opt25 and not _mentions25(st.value, t.id, 0):
                    gs25 = {(norm(e), p_) for e, p_ in C.flatten_guards(C.guards(f, st))}
                    if (f"{t.id} is None", True) in gs25 or (f"{t.id} is not None", False) in gs25 or (f"not {t.id}", True) in gs25 or (t.id, False) in gs25:
                        continue
                    ctx.violation("Y25", st, f"{fi.qualname} re-binds its parameter `{t.id}` (`{norm(st)[:60]}`) whether or not the caller passed one: the `{t.id}` that was given "
                                  "is ignored, and what is computed in its place need not be the same")
        # ---------------------------------------------------------------- Y26 (fixpoint flag only raised)
        for w_ in walk_local(f):
            if not isinstance(w_, (ast.While,)):
                continue
            resets = [st for st in w_.body if isinstance(st, ast.Assign) and len(st.targets) == 1 and isinstance(st.targets[0], ast.Name)
                      and isinstance(st.value, ast.Constant) and st.value.value is False]
            for rs in resets:
                flag = rs.targets[0].id
                tested = any(isinstance(x, ast.Name) and x.id == flag and isinstance(x.ctx, ast.Load) for st in w_.body for x in ast.walk(st)) or \
                    (isinstance(w_.test, ast.Name) and w_.test.id == flag)
                if not tested:
                    continue
                for st in [x for b_ in w_.body for x in ast.walk(b_)]:
                    if isinstance(st, ast.Assign) and st is not rs and len(st.targets) == 1 and isinstance(st.targets[0], ast.Name) and st.targets[0].id == flag:
                        v_ = st.value
                        raised = (isinstance(v_, ast.Constant) and v_.value is True) or any(isinstance(x, ast.Name) and x.id == flag for x in ast.walk(v_))
                        if not raised and C.enclosing_loops(f, st) and C.enclosing_loops(f, st)[0] is not w_:
                            ctx.violation("Y26", st, f"{fi.qualname}: the flag `{flag}` of the fixpoint loop is assigned `{norm(v_)[:50]}` inside the round: an item handled later "
                                          "sets it back to False after an earlier item raised it, and the loop stops although something changed (the result depends on the order "
                                          "of the items)")
        # ---------------------------------------------------------------- Y27 (None made into a value, then tested)
        for blk_ in [b for node_ in [f] + list(walk_local(f)) for fld in ("body", "orelse") for b in [getattr(node_, fld, None)] if isinstance(b, list)]:
            for j_, st in enumerate(blk_):
                if not (isinstance(st, ast.Assign) and len(st.targets) == 1):
                    continue
                v_ = st.value
                never_none = (isinstance(v_, ast.Call) and isinstance(v_.func, ast.Name) and v_.func.id in ("tuple", "list", "set", "frozenset", "dict") and v_.args
                              and isinstance(v_.args[0], ast.BoolOp) and isinstance(v_.args[0].op, ast.Or)) or \
                    (isinstance(v_, ast.BoolOp) and isinstance(v_.op, ast.Or) and isinstance(v_.values[-1], (ast.Tuple, ast.List, ast.Dict, ast.Constant))
                     and not (isinstance(v_.values[-1], ast.Constant) and v_.values[-1].value is None))
                if not never_none:
                    continue
                ttxt = norm(st.targets[0])
                for nx in blk_[j_ + 1:j_ + 3]:
                    if isinstance(nx, ast.If) and isinstance(nx.test, ast.Compare) and len(nx.test.ops) == 1 and isinstance(nx.test.ops[0], ast.Is) \
                            and norm(nx.test.left) == ttxt and isinstance(nx.test.comparators[0], ast.Constant) and nx.test.comparators[0].value is None:
                        ctx.violation("Y27", st, f"{fi.qualname}: `{norm(st)[:70]}` can no longer be None, and the next statement tests `{ttxt} is None`: the answer None (\"does not "
                                      "apply\") has been turned into an empty value, the test is dead, and what used to be refused is now taken for a result without children")
        # ---------------------------------------------------------------- Y28 (keyword arguments passed on by a delegate)
        if kwname:
            for c in walk_local(f):
                if isinstance(c, ast.Call) and isinstance(c.func, ast.Attribute) and c.func.attr == fi.name and not (isinstance(c.func.value, ast.Call) and norm(c.func.value.func) == "super"):
                    if not any(k.arg is None and isinstance(k.value, ast.Name) and k.value.id == kwname for k in c.keywords):
                        ctx.violation("Y28", c, f"{fi.qualname} takes `**{kwname}` and hands the question on to `{norm(c.func)[:50]}` without them: the statistics the caller asked "
                                      "for are dropped on the way")
        # ---------------------------------------------------------------- Y29 (accumulator created inside the loop)
        for lp_ in walk_local(f):
            if not isinstance(lp_, (ast.For, ast.While)):
                continue
            for st in lp_.body:
                if not isinstance(st, (ast.Assign, ast.AnnAssign)):
                    continue
                t_ = st.targets[0] if isinstance(st, ast.Assign) else st.target
                v_ = st.value
                if not (isinstance(t_, ast.Name) and v_ is not None and _mutable_value(v_)):
                    continue
                nm_ = t_.id
                filled = any(isinstance(c, ast.Call) and isinstance(c.func, ast.Attribute) and c.func.attr in MUTATORS and isinstance(c.func.value, ast.Name) and c.func.value.id == nm_
                             for b_ in lp_.body for c in ast.walk(b_))
                after = [x for x in walk_local(f) if isinstance(x, ast.Name) and x.id == nm_ and isinstance(x.ctx, ast.Load) and x.lineno > (lp_.end_lineno or lp_.lineno)]
                bound_outside = [s_ for s_ in walk_local(f) if isinstance(s_, (ast.Assign, ast.AnnAssign)) and not any(s_ is y for y in ast.walk(lp_))
                                 and any(isinstance(tt, ast.Name) and tt.id == nm_ for tt in (s_.targets if isinstance(s_, ast.Assign) else [s_.target]))]
                if filled and after and not bound_outside and not C.enclosing_loops(f, lp_):
                    ctx.violation("Y29", st, f"{fi.qualname} creates `{nm_}` anew in every round of the loop, fills it there and reads it after the loop (`{norm(C.stmt_of(after[0]))[:50]}`): "
                                  "what is read is what the *last* round collected; the earlier rounds' entries are gone")
        # ---------------------------------------------------------------- Y12 (isinstance order)
        def _isinst(t: ast.AST) -> Optional[Tuple[str, List[str]]]:
            if isinstance(t, ast.Call) and isinstance(t.func, ast.Name) and t.func.id == "isinstance" and len(t.args) == 2:
                k = t.args[1]
                names = [norm(x) for x in (k.elts if isinstance(k, ast.Tuple) else [k])]
                return norm(t.args[0]), [x.split(".")[-1] for x in names]
            return None
        for blk in [n for n in walk_local(f) if hasattr(n, "body") and isinstance(getattr(n, "body"), list)] + [f]:
            for body in (getattr(blk, "body", []), getattr(blk, "orelse", [])):
                seen_cls: List[Tuple[str, str]] = []
                for st in body:
                    chain = []
                    cur = st
                    while isinstance(cur, ast.If):
                        chain.append(cur)
                        cur = cur.orelse[0] if len(cur.orelse) == 1 and isinstance(cur.orelse[0], ast.If) else None
                    if not chain:
                        if not isinstance(st, (ast.Expr, ast.Assign, ast.AnnAssign, ast.Pass)):
                            seen_cls = []
                        continue
                    in_chain: List[Tuple[str, str]] = []
                    leaving: List[Tuple[str, str]] = []
                    for iff in chain:
                        it = _isinst(iff.test)
                        if it is None:
                            continue
                        subj, names = it
                        for nm in names:
                            k = P.classes.get(nm)
                            if k is None:
                                continue
                            for (s0, base) in seen_cls + in_chain:
                                if s0 == subj and base != nm and P.classes.get(base) in P.mro(k)[1:]:
                                    ctx.violation("Y12", iff.test, f"{fi.qualname}: `{norm(iff.test)}` comes after the test for {base}, and {nm} is a subclass of {base}: every {nm} "
                                                  f"has already left through the {base} branch, so this branch is never taken")
                        in_chain.extend((subj, nm) for nm in names)
                        if iff.body and isinstance(iff.body[-1], (ast.Return, ast.Raise, ast.Continue, ast.Break)):
                            leaving.extend((subj, nm) for nm in names)
                    seen_cls.extend(leaving)
        # ---------------------------------------------------------------- Y9 (hash order)
        for n in walk_local(f):
            it = None
            body_nodes: List[ast.AST] = []
            if isinstance(n, ast.For):
                it, body_nodes = n.iter, [x for s_ in n.body for x in ast.walk(s_)]
            elif isinstance(n, (ast.ListComp, ast.DictComp, ast.GeneratorExp)):
                it = n.generators[0].iter
                body_nodes = list(ast.walk(n.elt if not isinstance(n, ast.DictComp) else n.value)) + ([x for x in ast.walk(n.key)] if isinstance(n, ast.DictComp) else [])
            if it is None:
                continue
            unordered = isinstance(it, (ast.Set, ast.SetComp)) or (isinstance(it, ast.Call) and isinstance(it.func, ast.Name) and it.func.id in ("set", "frozenset"))
            if not unordered:
                continue
            labelling = [c for c in body_nodes if isinstance(c, ast.Call) and isinstance(c.func, ast.Attribute) and c.func.attr in ("get_label", "add_rule")]
            if labelling:
                ctx.violation("Y9", it, f"{fi.qualname} hands out labels / records rules (`{norm(labelling[0])[:50]}`) while iterating over `{norm(it)[:40]}`: the order of a set "
                              "depends on the hash seed, so the numbering of the classes differs from one interpreter to the next (a pickled search resumed elsewhere diverges)")
        # ---------------------------------------------------------------- Y7 (memo keys)
        a7 = f.args
        fparams = {x.arg for x in a7.posonlyargs + a7.args + a7.kwonlyargs} | ({a7.vararg.arg} if a7.vararg else set()) | ({a7.kwarg.arg} if a7.kwarg else set())
        fparams -= {"self", "cls"}
        for st in walk_local(f):
            if not (isinstance(st, ast.Assign) and len(st.targets) == 1 and isinstance(st.targets[0], ast.Subscript) and is_self_attr(st.targets[0].value)):
                continue
            memo = st.targets[0].value.attr
            key = st.targets[0].slice
            ktxt = norm(key)
            # it is a memo if the same function answers from it under a membership test with the same key
            reads = [c for c in walk_local(f) if isinstance(c, ast.Compare) and len(c.ops) == 1 and isinstance(c.ops[0], (ast.In, ast.NotIn))
                     and norm(c.left) == ktxt and is_self_attr(c.comparators[0], memo)]
            reads += [c for c in walk_local(f) if isinstance(c, ast.Call) and isinstance(c.func, ast.Attribute) and c.func.attr == "get" and is_self_attr(c.func.value, memo)
                      and c.args and norm(c.args[0]) == ktxt]
            if not reads:
                continue
            kvals = D.expanded(f, key)
            knames = {x.id for x in ast.walk(kvals) if isinstance(x, ast.Name)}
            vvals = D.expanded(f, st.value)
            used = {x.id for x in ast.walk(vvals) if isinstance(x, ast.Name)} & fparams
            missing = sorted(used - knames)
            handed = [r for r in C.returns_of(f) if r.value is not None and (norm(r.value) == norm(st.value) or norm(r.value) == norm(st.targets[0]))]
            built = D.expanded(f, st.value)
            if handed and isinstance(built, (ast.List, ast.ListComp, ast.Dict, ast.DictComp, ast.Set, ast.SetComp)):
                ctx.violation("Y7", st, f"{fi.qualname} keeps the freshly built `{norm(built)[:50]}` in self.{memo} *and* hands the same object to its caller: every caller that was "
                              "answered from the memo shares one mutable object, so a change made through one of them shows through the others")
            if missing:
                ctx.violation("Y7", st, f"{fi.qualname} remembers `{norm(st.value)[:50]}` in self.{memo} under the key `{ktxt}`, but the value also depends on the argument(s) "
                              f"{missing}: a later call with the same `{ktxt}` and other {missing[0]} is answered with the remembered value")
        # a result memo kept in a set (`if K in M: return ... M.add(K)` after the work): K names every argument the work reads
        for g in [f] + [x for x in ast.walk(f) if isinstance(x, (ast.FunctionDef, ast.AsyncFunctionDef)) and x is not f]:
            ga = g.args
            gparams = [x.arg for x in ga.posonlyargs + ga.args + ga.kwonlyargs if x.arg not in ("self", "cls")]
            if len(gparams) < 2:
                continue
            for iff in walk_local(g):
                if not (isinstance(iff, ast.If) and isinstance(iff.test, ast.Compare) and len(iff.test.ops) == 1 and isinstance(iff.test.ops[0], ast.In)
                        and iff.body and isinstance(iff.body[-1], ast.Return) and not iff.orelse):
                    continue
                ktxt, mtxt = norm(iff.test.left), norm(iff.test.comparators[0])
                if mtxt in gparams:
                    continue        # a set handed down by the caller lives as long as one traversal: a visited mark, not a memo
                adds = [c for c in walk_local(g) if isinstance(c, ast.Call) and isinstance(c.func, ast.Attribute) and c.func.attr == "add" and norm(c.func.value) == mtxt
                        and len(c.args) == 1 and norm(c.args[0]) == ktxt and c.lineno > iff.lineno]
                if not adds:
                    continue
                knames = {x.id for x in ast.walk(iff.test.left) if isinstance(x, ast.Name)}
                if not knames & set(gparams):
                    continue
                last = max(c.lineno for c in adds)
                work = [c for c in walk_local(g) if isinstance(c, ast.Call) and iff.end_lineno < c.lineno < last and c not in adds]
                missing = sorted({x.id for c in work for a in list(c.args) + [k.value for k in c.keywords] for x in ast.walk(a) if isinstance(x, ast.Name)}
                                 & set(gparams) - knames)
                if work and missing:
                    ctx.violation("Y7", adds[-1], f"{fi.qualname}.{g.name} remembers the outcome of its work in `{mtxt}` under the key `{ktxt}` and answers later calls from it, but the "
                                  f"work between the test and the entry also reads the argument(s) {missing}: a later call with the same `{ktxt}` and other {missing[0]} is cut short",
                                  construct=f"{g.name} result memo {mtxt} key {ktxt} missing {missing}")
        # a memo in a local table across the rounds of a loop: `if K not in M: M[K] = E` where K is made from a *part* of an
        # object (r.a) and E is asked of the whole object (r.m(...)): two objects that share the part get one answer
        for st in walk_local(f):
            if not (isinstance(st, ast.Assign) and len(st.targets) == 1 and isinstance(st.targets[0], ast.Subscript) and isinstance(st.targets[0].value, ast.Name)):
                continue
            mname = st.targets[0].value.id
            key = st.targets[0].slice
            ktxt = norm(key)
            if not any(pol is False and norm(t) == f"{ktxt} in {mname}" or pol is True and norm(t) == f"{ktxt} not in {mname}" for t, pol in C.flatten_guards(C.guards(f, st))):
                continue
            loops_ = C.enclosing_loops(f, st)
            mdefs = D.definitions(f).get(mname, [])
            if not loops_ or not mdefs or any(any(d[0] is x for x in ast.walk(loops_[-1])) for d in mdefs):
                continue        # not a table that outlives the rounds of the loop
            kparts = {(a.value.id, a.attr) for a in ast.walk(key) if isinstance(a, ast.Attribute) and isinstance(a.value, ast.Name)}
            kwhole = {x.id for x in ast.walk(key) if isinstance(x, ast.Name) and not (isinstance(getattr(x, "_parent", None), ast.Attribute))}
            for r_, a_ in sorted(kparts):
                if r_ in kwhole:
                    continue
                whole = [x for x in ast.walk(st.value) if isinstance(x, ast.Name) and x.id == r_
                         and not (isinstance(getattr(x, "_parent", None), ast.Attribute) and x._parent.attr == a_)]
                if whole:
                    ctx.violation("Y7", st, f"{fi.qualname} remembers `{norm(st.value)[:50]}` under `{ktxt}` across the rounds of its loop: the key is made from `{r_}.{a_}` only, "
                                  f"the value is asked of `{r_}` as a whole -- another `{r_}` with the same `{a_}` is answered with what was computed for the first")
        # a memo in a module-level table keyed by one entry of a dictionary argument while the value is computed from several
        for st in walk_local(f):
            if not (isinstance(st, ast.Assign) and len(st.targets) == 1 and isinstance(st.targets[0], ast.Subscript) and isinstance(st.targets[0].value, ast.Name)
                    and st.targets[0].value.id in module_containers.get(fi.module.short, set())):
                continue
            mname = st.targets[0].value.id
            ktxt = norm(st.targets[0].slice)
            reads = [c for c in walk_local(f) if (isinstance(c, ast.Call) and isinstance(c.func, ast.Attribute) and c.func.attr == "get" and norm(c.func.value) == mname and c.args
                                                   and norm(c.args[0]) == ktxt)
                     or (isinstance(c, ast.Compare) and len(c.ops) == 1 and isinstance(c.ops[0], (ast.In, ast.NotIn)) and norm(c.left) == ktxt and norm(c.comparators[0]) == mname)]
            if not reads:
                continue

            def _entries(e: ast.AST, depth: int = 0) -> Set[str]:
                out: Set[str] = set()
                for x in ast.walk(e):
                    if isinstance(x, ast.Subscript) and isinstance(x.value, ast.Name) and x.value.id in fparams and isinstance(x.slice, ast.Constant):
                        out.add(norm(x))
                    elif isinstance(x, ast.Name) and depth < 4 and x.id not in fparams:
                        for d in D.definitions(f).get(x.id, []):
                            if d[1] is not None and d[1] is not e:
                                out |= _entries(d[1], depth + 1)
                return out
            kdeps = _entries(st.targets[0].slice)
            vdeps = _entries(st.value)
            extra = sorted(vdeps - kdeps)
            if kdeps and extra:
                ctx.violation("Y7", st, f"{fi.qualname} remembers `{norm(st.value)[:40]}` in the module-level table `{mname}` under `{ktxt}`, but it is computed from {extra} as well: "
                              f"the next argument with the same `{ktxt}` and another {extra[0]} gets what was remembered for the first")
        # ---------------------------------------------------------------- Y6
        for n in walk_local(f):
            key = None
            cont = None
            if isinstance(n, ast.Subscript):
                key, cont = n.slice, n.value
            elif isinstance(n, ast.Compare) and len(n.ops) == 1 and isinstance(n.ops[0], (ast.In, ast.NotIn)):
                key, cont = n.left, n.comparators[0]
            elif isinstance(n, ast.Call) and isinstance(n.func, ast.Attribute) and n.func.attr in ("get", "setdefault", "pop", "add", "discard") and n.args:
                key, cont = n.args[0], n.func.value
            if key is None or cont is None:
                continue
            kv = D.expanded(f, key) if isinstance(key, ast.Name) else key
            if isinstance(kv, ast.Call) and isinstance(kv.func, ast.Name) and kv.func.id in ("hash", "id") and len(kv.args) == 1:
                cv = D.expanded(f, cont) if isinstance(cont, ast.Name) else cont
                base = cv
                while isinstance(base, (ast.Subscript, ast.Attribute)) and not is_self_attr(base):
                    base = base.value
                if is_self_attr(base) or (isinstance(base, ast.Name) and base.id in module_containers.get(fi.module.short, set())):
                    ctx.violation("Y6", n, f"{fi.qualname}: `{norm(kv)}` is used as a key of `{norm(cv)[:40]}`, which outlives the call: "
                                  + ("two different objects can have the same hash" if kv.func.id == "hash" else "an id is reused as soon as the object it named is gone")
                                  + ", so one object is taken for another")
    # -------------------------------------------------------------------- Y11 (results of builders thrown away)
    builders: Dict[str, FuncInfo] = {}
    for cls_ in P.classes.values():
        for bm in cls_.methods.values():
            rets_ = [r for r in C.returns_of(bm.node) if r.value is not None]
            if not rets_ or bm.is_property() or bm.name.startswith("__"):
                continue
            makes = all(isinstance(r.value, ast.Call) and norm(r.value.func) in ("self.__class__", "type(self)", cls_.name) for r in rets_)
            mutates = any(isinstance(x, ast.Attribute) and isinstance(x.ctx, ast.Store) and isinstance(x.value, ast.Name) and x.value.id == "self" for x in walk_local(bm.node))
            if makes and not mutates:
                builders[bm.name] = bm
    for fi in funcs:
        for st in walk_local(fi.node):
            if isinstance(st, ast.Expr) and isinstance(st.value, ast.Call) and isinstance(st.value.func, ast.Attribute) and st.value.func.attr in builders:
                b_ = builders[st.value.func.attr]
                ctx.violation("Y11", st, f"{fi.qualname}: `{norm(st.value)[:60]}` is called for its effect, but {b_.qualname} changes nothing -- it returns a new object, which is "
                              "thrown away here (the object at hand stays as it was)")
    # -------------------------------------------------------------------- Y10 (copy / pickle hooks)
    HOOKS = ("__getstate__", "__setstate__", "__reduce__", "__reduce_ex__", "__copy__", "__deepcopy__")
    for cls in P.classes.values():
        if cls.module.short not in modules:
            continue
        for hname in HOOKS:
            h = cls.methods.get(hname)
            if h is None:
                continue
            g = h.node
            body = [s_ for s_ in g.body if not (isinstance(s_, ast.Expr) and isinstance(s_.value, ast.Constant))]
            whole = ("self.__dict__", "self.__dict__.copy()", "dict(self.__dict__)", "vars(self)", "vars(self).copy()", "dict(vars(self))")
            faithful = False
            if hname == "__getstate__":
                faithful = len(body) == 1 and isinstance(body[0], ast.Return) and body[0].value is not None and norm(body[0].value) in whole
            elif hname == "__setstate__":
                st_p = [p_ for p_ in h.params() if p_ != "self"]
                faithful = len(body) == 1 and st_p and norm(body[0]) in (f"self.__dict__.update({st_p[0]})", f"self.__dict__ = {st_p[0]}", f"vars(self).update({st_p[0]})")
            elif hname in ("__copy__", "__deepcopy__"):
                stores = [x for x in walk_local(g) if isinstance(x, ast.Attribute) and isinstance(x.ctx, ast.Store) and x.attr != "__dict__"]
                builds = [c for c in walk_local(g) if isinstance(c, ast.Call) and isinstance(c.func, ast.Name) and c.func.id in P.classes]
                builds += [c for c in walk_local(g) if isinstance(c, ast.Call) and norm(c.func) in ("self.__class__", "type(self)", "cls")]
                faithful = not stores and not builds
            if faithful:
                ctx.ok("Y", f"{cls.name}.{hname} carries the whole instance dictionary over")
                continue
            what = {"__getstate__": "saves something other than the whole instance dictionary", "__setstate__": "rebuilds the object instead of restoring the saved dictionary",
                    "__reduce__": "replaces the default pickling", "__reduce_ex__": "replaces the default pickling",
                    "__copy__": "resets attributes / rebuilds the object from some of its parts", "__deepcopy__": "resets attributes / rebuilds the object from some of its parts"}[hname]
            ctx.violation("Y10", g, f"{cls.name}.{hname} {what}: a pickled, copied or deep-copied {cls.name} (a searcher saved and resumed, a rule copied into the specification that "
                          "expand_verified builds) is then not the object it was made from -- whatever is dropped, reset or rebuilt here (work lists that are not empty at that moment, "
                          "`None` meaning 'not asked yet', the form of a derived rule, cached levels and their types) differs afterwards",
                          construct=f"{cls.name}.{hname}")
    # -------------------------------------------------------------------- Y5
    n_cls = 0
    for cls in P.classes.values():
        if cls.module.short not in modules:
            continue
        n_cls += 1
        for st in cls.node.body:
            tgt = None
            val = None
            if isinstance(st, ast.Assign) and len(st.targets) == 1 and isinstance(st.targets[0], ast.Name):
                tgt, val = st.targets[0].id, st.value
            elif isinstance(st, ast.AnnAssign) and isinstance(st.target, ast.Name) and st.value is not None:
                tgt, val = st.target.id, st.value
            if tgt is None or not _mutable_value(val) or (cls.name, tgt) in SHARED_ON_PURPOSE:
                continue
            # written through an instance / the class, and never re-bound per instance in __init__
            init = cls.methods.get("__init__")
            rebound = init is not None and any(is_self_attr(t, tgt) and isinstance(t.ctx, ast.Store) for t in ast.walk(init.node) if isinstance(t, ast.Attribute))
            if rebound:
                continue
            writes = []
            for k in P.subclasses(cls, strict=False):
                for m in k.methods.values():
                    for c in walk_local(m.node):
                        if isinstance(c, ast.Call) and isinstance(c.func, ast.Attribute) and c.func.attr in MUTATORS and isinstance(c.func.value, ast.Attribute) \
                                and c.func.value.attr == tgt and isinstance(c.func.value.value, ast.Name) and c.func.value.value.id in ("self", "cls", cls.name):
                            writes.append(c)
                        elif isinstance(c, ast.Call) and isinstance(c.func, ast.Attribute) and c.func.attr in MUTATORS and isinstance(c.func.value, ast.Subscript):
                            # self.table[k].add(x): the inner container of a shared table (and, for a defaultdict, the entry itself)
                            b = c.func.value
                            while isinstance(b, ast.Subscript):
                                b = b.value
                            if isinstance(b, ast.Attribute) and b.attr == tgt and isinstance(b.value, ast.Name) and b.value.id in ("self", "cls", cls.name):
                                writes.append(c)
                        elif isinstance(c, ast.Subscript) and isinstance(c.ctx, (ast.Store, ast.Del)) and isinstance(c.value, ast.Attribute) and c.value.attr == tgt \
                                and isinstance(c.value.value, ast.Name) and c.value.value.id in ("self", "cls", cls.name):
                            writes.append(c)
            if writes:
                ctx.violation("Y5", st, f"{cls.name}.{tgt} is a mutable container in the class body that instances write to (`{norm(writes[0])[:50]}`): all instances share it -- what one "
                              "search / comparison records is seen by the next, and it is not part of what pickle saves or `__dict__` compares")
    if not ctx.violations_of("Y") if hasattr(ctx, "violations_of") else True:
        pass
    ctx.ok("Y", f"{n_fn} functions and {n_cls} classes of the anchor modules ({', '.join(modules)}): no uncalled method as a truth value, no kept or re-read one-shot iterator, "
           "no cache decorator on a generator or instance method, no written-to mutable default, no shared class-level container, no hash()/id() key") \
        if not any(v.rule.startswith("Y") for v in ctx.violations) else None
