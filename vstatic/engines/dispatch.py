"""
Engine D -- dispatch discipline: what a subclass overrides must actually be reached.

The package's rule forms, constructors, finders and databases are small class families in
which a base class provides a default and a few subclasses override it (EquivalenceRule /
ReverseRule / EquivalencePathRule override the object maps of Rule; Quotient and
DisjointUnion override the static param_map of Constructor; EqPathParallelSpecFinder
overrides the second search of ParallelSpecFinder).  The properties quantify over *all* the
forms; an edit that is harmless for the base form and skips the override is invisible to the
tests, which use the base forms.  Three structural rules:

D1  a one-line delegate of the base (`def M(self, x): return <expr>`) that subclasses override
    is not copied into a sibling method of the base: the sibling must call `self.M(...)`, or
    the subclasses' versions are never used on that path.  Likewise `Base.M(self, ...)`
    (class-qualified, explicit self) outside an override of M pins the base version.
D2  a static method S of a base that is referenced class-qualified (`Base.S`) and overridden
    in a subclass C must be referenced as `C.S` somewhere: static binding by class name does
    not dispatch, so an override nobody names is dead and the base version is what runs.
D3  a class that defines __hash__ defines __eq__ (in the same class): value hash with
    identity equality makes equal-by-value objects unequal (packs, queues and databases are
    compared by their contents).
"""
from __future__ import annotations

import ast
from typing import Dict, List, Optional, Set, Tuple

from ..core.program import AnalysisError, ClassInfo, FuncInfo, Program, norm, walk_local


def _one_line_delegate(m: FuncInfo) -> Optional[ast.AST]:
    body = [s for s in m.node.body if not (isinstance(s, ast.Expr) and isinstance(s.value, ast.Constant) and isinstance(s.value.value, str))]
    if len(body) != 1:
        return None
    st = body[0]
    v = None
    if isinstance(st, ast.Return):
        v = st.value
    elif isinstance(st, ast.Expr) and isinstance(st.value, (ast.Yield, ast.YieldFrom)):
        v = st.value.value
    if not isinstance(v, ast.Call):
        return None
    # it must delegate to something other than a method of self with the same name
    if not any(isinstance(x, ast.Attribute) for x in ast.walk(v.func)):
        return None
    return v


def _overriders(P: Program, cls: ClassInfo, name: str) -> List[ClassInfo]:
    return [k for k in P.subclasses(cls, strict=True) if name in k.methods]


def d1_no_bypass_of_overridden_delegates(ctx, families: Tuple[str, ...]) -> None:
    P = ctx.P
    n = 0
    n_over = 0
    for base_name in families:
        base = P.need_class(base_name)
        for cls in P.subclasses(base, strict=False):
            for mname, m in cls.methods.items():
                ov = _overriders(P, cls, mname)
                if not ov:
                    continue
                n_over += 1
                # (a) class-qualified call with explicit self anywhere in the family, outside an override of mname
                for k in P.subclasses(cls, strict=False):
                    for other in k.methods.values():
                        if other.name == mname and k is not cls:
                            continue            # Base.M(self, ...) inside an override is a super call
                        for c in walk_local(other.node):
                            if isinstance(c, ast.Call) and isinstance(c.func, ast.Attribute) and c.func.attr == mname and isinstance(c.func.value, ast.Name) \
                                    and c.func.value.id == cls.name and c.args and isinstance(c.args[0], ast.Name) and c.args[0].id == "self":
                                ctx.violation("D1", c, f"`{norm(c)[:80]}` pins {cls.name}.{mname} although {', '.join(o.name for o in ov)} override{'s' if len(ov) == 1 else ''} it: "
                                              f"on this path the override is never used")
                # (b) the body of a one-line delegate copied into a sibling method of the same class
                d = _one_line_delegate(m)
                if d is None or m.is_static() or m.is_classmethod():
                    continue
                n += 1
                params = m.params()[1:]
                text = norm(d)
                # the delegate with its parameters abstracted: compare call target and the arguments that do not mention parameters
                fixed = [norm(a) for a in d.args if not ({x.id for x in ast.walk(a) if isinstance(x, ast.Name)} & set(params))]
                for other in cls.methods.values():
                    if other is m:
                        continue
                    for c in walk_local(other.node):
                        if not (isinstance(c, ast.Call) and norm(c.func) == norm(d.func) and len(c.args) == len(d.args)):
                            continue
                        cf = [norm(a) for a, b in zip(c.args, d.args) if not ({x.id for x in ast.walk(b) if isinstance(x, ast.Name)} & set(params))]
                        if cf != fixed:
                            continue
                        needy = [o.name for o in ov if other.name not in o.methods]
                        if needy:
                            ctx.violation("D1", c, f"{other.qualname} calls `{norm(c)[:70]}` itself instead of self.{mname}(...), whose body this is; {', '.join(needy)} "
                                          f"override{'s' if len(needy) == 1 else ''} {mname} but not {other.name}, so for those forms the overridden behaviour is skipped")
    if n_over < 1:
        ctx.floor("D1", 99)
    else:
        ctx.ok("D1", f"{n_over} overridden methods ({n} of them one-line delegates) in the families {', '.join(families)}: none is copied into a sibling or pinned "
               "to the base class")


def d2_static_overrides_are_named(ctx, families: Tuple[str, ...]) -> None:
    P = ctx.P
    # all class-qualified attribute references C.S in the package
    refs: Set[Tuple[str, str]] = set()
    for fi in P.all_functions():
        for a in ast.walk(fi.node):
            if isinstance(a, ast.Attribute) and isinstance(a.value, ast.Name) and a.value.id in P.classes:
                refs.add((a.value.id, a.attr))
    n = 0
    for base_name in families:
        base = P.need_class(base_name)
        for cls in P.subclasses(base, strict=False):
            for sname, sm in cls.methods.items():
                if not sm.is_static() or (cls.name, sname) not in refs:
                    continue
                for sub in P.subclasses(cls, strict=True):
                    if sname in sub.methods:
                        n += 1
                        # reached through an instance / the class object of the subclass: self.S / cls.S in a method the subclass has or inherits
                        dyn = any(isinstance(a, ast.Attribute) and a.attr == sname and isinstance(a.value, ast.Name) and a.value.id in ("self", "cls")
                                  for k in P.mro(sub) for om in k.methods.values() for a in ast.walk(om.node))
                        if (sub.name, sname) in refs or dyn:
                            ctx.ok("D2", f"{sub.name}.{sname} (overrides the static {cls.name}.{sname}, which is bound by name) is itself bound by name")
                        else:
                            ctx.violation("D2", sub.methods[sname].node, f"{sub.name} overrides the static method {sname}, but nothing refers to `{sub.name}.{sname}`: the code binds "
                                          f"`{cls.name}.{sname}` by class name (no dispatch), so {sub.name}'s version never runs", construct=f"{sub.name}.{sname} unreferenced override")
    if n < 2:
        ctx.floor("D2", 99)


def d3_hash_implies_eq(ctx, families: Optional[Tuple[str, ...]] = None) -> None:
    P = ctx.P
    n = 0
    classes = list(P.classes.values())
    if families:
        fam: List[ClassInfo] = []
        for b in families:
            fam.extend(P.subclasses(P.need_class(b), strict=False))
        classes = fam
    for cls in classes:
        if "__hash__" not in cls.methods:
            continue
        n += 1
        if "__eq__" in cls.methods:
            ctx.ok("D3", f"{cls.name} defines __hash__ and __eq__ together")
        else:
            ctx.violation("D3", cls.methods["__hash__"].node, f"{cls.name} defines __hash__ but not __eq__: instances with equal contents hash alike and still compare unequal "
                          "(identity), so a restored / reloaded copy never equals the original", construct=f"{cls.name}.__eq__ missing")
    if n < 1:
        ctx.floor("D3", 99)


def d4_paired_methods_follow_overrides(ctx, family: str, pairs: Tuple[Tuple[str, str], ...]) -> None:
    """(I, X) are two entries to the same operation (indexed_forward_map / forward_map): a
    class that overrides X below the class its I comes from relies on I calling `self.X(...)`;
    an I that computes the answer some other way gives such a class two different maps."""
    P = ctx.P
    base = P.need_class(family)
    n = 0
    for iname, xname in pairs:
        for k in P.subclasses(base, strict=False):
            im = P.find_method(k, iname)
            xm = P.find_method(k, xname)
            if im is None or xm is None or im.cls is None or xm.cls is None:
                continue
            at_i = P.find_method(im.cls, xname)
            if at_i is None or at_i.cls is xm.cls:
                continue            # same X where I is defined and here: nothing overridden in between
            n += 1
            # I reaches self.X, directly or through other methods of self
            seen: Set[str] = set()
            todo = [im]
            reaches = False
            while todo and not reaches:
                cur = todo.pop()
                if cur.qualname in seen:
                    continue
                seen.add(cur.qualname)
                for c in walk_local(cur.node):
                    if isinstance(c, ast.Call) and isinstance(c.func, ast.Attribute) and isinstance(c.func.value, ast.Name) and c.func.value.id == "self":
                        if c.func.attr == xname:
                            reaches = True
                            break
                        nxt = P.find_method(k, c.func.attr)
                        if nxt is not None and c.func.attr != iname:
                            todo.append(nxt)
            if reaches:
                ctx.ok("D4", f"{k.name}: {iname} (from {im.cls.name}) goes through self.{xname}, which {xm.cls.name} overrides")
            else:
                ctx.violation("D4", im.node, f"{k.name} overrides {xname} (in {xm.cls.name}) but takes {iname} from {im.cls.name}, which does not call self.{xname}: callers of "
                              f"{iname} (the bijection's parse-tree map) get {im.cls.name}'s own computation, not the map of a {k.name}",
                              construct=f"{k.name}.{iname} bypasses {xm.cls.name}.{xname}")
    if n < 2:
        ctx.floor("D4", 99)


# delegations that deliberately go to another accessor (confirmed by reading; one line of reason each)
CROSS_DELEGATIONS = {
    ("ReverseRule", "get_op_symbol"): "the reverse form shows the strategy's symbol for the reverse operation",
}


def d5_rule_delegates_to_the_same_question(ctx) -> None:
    """A rule answers questions about itself by asking its strategy the *same* question
    (`is_two_way` -> `strategy.is_two_way`, `is_reversible` -> `strategy.is_reversible`, ...).  The
    questions are different predicates with the same signature; a delegate that asks the
    neighbouring one type-checks, passes every test whose strategies answer both alike, and
    files one-way rules as equivalences (or reverses what cannot be reversed)."""
    P = ctx.P
    strat_methods: Set[str] = set()
    for k in P.subclasses(P.need_class("AbstractStrategy"), strict=False):
        strat_methods |= set(k.methods)
    n = 0
    for cls in P.subclasses(P.need_class("AbstractRule"), strict=False):
        for m in cls.methods.values():
            body = [s for s in m.node.body if not (isinstance(s, ast.Expr) and isinstance(s.value, ast.Constant))]
            if len(body) != 1 or not isinstance(body[0], ast.Return) or not isinstance(body[0].value, ast.Call):
                continue
            c = body[0].value
            if not (isinstance(c.func, ast.Attribute) and isinstance(c.func.value, ast.Attribute) and isinstance(c.func.value.value, ast.Name)
                    and c.func.value.value.id == "self" and c.func.value.attr in ("strategy", "_strategy")):
                continue
            if m.name not in strat_methods:
                continue
            n += 1
            if c.func.attr == m.name:
                ctx.ok("D5", f"{m.qualname} asks its strategy the same question")
            elif (cls.name, m.name) in CROSS_DELEGATIONS:
                ctx.ok("D5", f"{m.qualname} -> {c.func.attr}: {CROSS_DELEGATIONS[(cls.name, m.name)]}")
            else:
                ctx.violation("D5", c, f"{m.qualname} answers with `{norm(c.func)}`, although the strategy has a `{m.name}` of its own: a strategy for which the two differ "
                              f"(two-way but not reversible, reversible but not two-way) is treated as the other kind")
    if n < 4:
        ctx.floor("D5", 99)


def d5b_flag_properties_forward_their_own_flag(ctx) -> None:
    """The rule's flag properties (`possibly_empty`, `inferrable`, `workable`, `ignore_parent`)
    forward the strategy's flag *of the same name*.  All four are booleans with the same
    default, so a property that forwards its neighbour passes every test whose strategies keep
    the defaults."""
    P = ctx.P
    strat_props: Set[str] = set()
    for k in P.subclasses(P.need_class("AbstractStrategy"), strict=False):
        strat_props |= {m.name for m in k.methods.values() if "property" in m.decorators}
    n = 0
    for cls in P.subclasses(P.need_class("AbstractRule"), strict=False):
        for m in cls.methods.values():
            if "property" not in m.decorators or m.name not in strat_props:
                continue
            rets = [r for r in m.node.body if isinstance(r, ast.Return) and r.value is not None]
            if len(rets) != 1:
                continue
            v = rets[0].value
            if not (isinstance(v, ast.Attribute) and isinstance(v.value, ast.Attribute) and isinstance(v.value.value, ast.Name) and v.value.value.id == "self"
                    and v.value.attr in ("strategy", "_strategy")):
                continue
            n += 1
            if v.attr == m.name:
                ctx.ok("D5", f"{m.qualname} forwards the strategy's `{m.name}`")
            elif v.attr in strat_props:
                ctx.violation("D5", v, f"{m.qualname} forwards `{norm(v)}`, the strategy's `{v.attr}` flag, although the strategy has a `{m.name}` flag of its own: a strategy "
                              f"for which the two differ (e.g. inferrable=False with possibly_empty=True) is treated by the searcher according to the wrong one")
    if n < 3:
        ctx.floor("D5", 99)
