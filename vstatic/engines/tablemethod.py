"""
Engine F -- index maintenance of the incremental table method (rule_db/forest.py) -> C03.

TableMethod keeps, next to the function `f` (terms known per class, None = all), tables that
are *defined* in terms of f and the inserted rules:

  _shifts[r][i]            = f(child_i) + shift_i - f(parent)   (None when f(child_i) is None;
                                                                 all None when f(parent) is None)
  _rules_pumping_class[c]  = rules with parent c, while f(c) is finite
  _rules_using_class[c]    = (rule, position) pairs with c as that child, while f(parent), f(c) finite
  Function._preimage_count = histogram of the finite values, _infinity_count of the None's

The rules below decide, for every writer of f, that the matching corrections of the derived
tables are made (with the right sign, index and guard), that every inserted rule is recorded
and registered, and that the readers ask the right question.  They do not decide the gap
argument (that the values frozen above the gap are exactly the classes that pump).

Shapes are matched on the canonical form with the pattern matcher; an arrangement that is
not recognised is an ANALYSIS-ERROR, a recognised arrangement with a wrong sign / index /
guard or a missing correction is a violation.
"""
from __future__ import annotations

import ast
from typing import Dict, List, Optional, Tuple

from ..core import control as C
from ..core import dataflow as D
from ..core import pattern as PT
from ..core.program import AnalysisError, is_self_attr, norm, walk_local

TM = "TableMethod"
FN = "Function"


# ------------------------------------------------------------------ small helpers
def affine(e: ast.AST) -> Optional[Dict[str, int]]:
    """Affine form over atoms (normalised text of names / attributes / calls); '1' = constant."""
    if isinstance(e, ast.Constant) and isinstance(e.value, int) and not isinstance(e.value, bool):
        return {"1": e.value} if e.value else {}
    if isinstance(e, ast.UnaryOp) and isinstance(e.op, (ast.USub, ast.UAdd)):
        a = affine(e.operand)
        if a is None:
            return None
        return {k: (-v if isinstance(e.op, ast.USub) else v) for k, v in a.items()}
    if isinstance(e, ast.BinOp) and isinstance(e.op, (ast.Add, ast.Sub)):
        a, b = affine(e.left), affine(e.right)
        if a is None or b is None:
            return None
        out = dict(a)
        for k, v in b.items():
            out[k] = out.get(k, 0) + (v if isinstance(e.op, ast.Add) else -v)
        return {k: v for k, v in out.items() if v}
    if isinstance(e, (ast.Name, ast.Attribute, ast.Subscript, ast.Call)):
        return {norm(e): 1}
    return None


def _calls(f, text: str) -> List[ast.Call]:
    return [c for c in walk_local(f) if isinstance(c, ast.Call) and norm(c.func) == text]


def _value_of(f, e: ast.AST) -> ast.AST:
    """Follow a local to its dominating plain definition (flow-sensitive), else itself."""
    seen = 0
    while isinstance(e, ast.Name) and seen < 6:
        r = D.reaching_value(f, e, e.id)
        if r is None:
            return e
        e = r[1]
        seen += 1
    return e


def _skipping_guards(f, node):
    """Guards under which node is silently skipped: those of `if` / `while` / leave-only
    branches, not the tests of `assert` statements (a failed assertion is not a skip)."""
    out = []
    for t, pol in C.guards(f, node):
        if isinstance(getattr(t, "_parent", None), ast.Assert):
            continue
        out.extend(C.flatten_guards([(t, pol)]))
    return out


def _is_pumping_test(t: ast.AST, pol: bool, key: str) -> bool:
    """The guard says the parent of `key` does not pump yet (so the code under it is skipped
    exactly for rules whose parent already pumps)."""
    txt = norm(t)
    if not pol and txt in (f"self.is_pumping({key}.parent)",):
        return True
    if pol and _is_none_test(t, f"self._function[{key}.parent]", True):
        return True
    if not pol and _is_none_test(t, f"self._function[{key}.parent]", False):
        return True
    return False


def _top_index(f, node) -> int:
    """Index in f.body of the top-level statement that contains node."""
    for i, st in enumerate(f.body):
        if any(x is node for x in ast.walk(st)):
            return i
    return -1


def _is_none_test(t: ast.AST, text: str, negated: bool) -> bool:
    """t is `<text> is None` (negated=False) or `<text> is not None` (negated=True)."""
    return (isinstance(t, ast.Compare) and len(t.ops) == 1 and isinstance(t.ops[0], ast.IsNot if negated else ast.Is)
            and norm(t.left) == text and isinstance(t.comparators[0], ast.Constant) and t.comparators[0].value is None)


def _norm_atoms(gs) -> set:
    """(text, truth) with != written as (==, False) and `not in` as (in, False)."""
    out = set()
    for t, pol in gs:
        if isinstance(t, ast.Compare) and len(t.ops) == 1 and isinstance(t.ops[0], (ast.NotEq, ast.NotIn, ast.IsNot)):
            op = {ast.NotEq: "==", ast.NotIn: "in", ast.IsNot: "is"}[type(t.ops[0])]
            out.add((f"{norm(t.left)} {op} {norm(t.comparators[0])}", not pol))
        else:
            out.add((norm(t), pol))
    return out


def _filtered_copy(f, scope, target: str):
    """`target = [x for x in target if COND]` or the same written as a loop that appends to a
    fresh list which is then assigned to target.  Returns (first component of the element,
    keep-condition atoms, node) or None."""
    for st in walk_local(scope):
        tg, v = PT.assign_value(st)
        if tg is None or norm(tg) != target or v is None:
            continue
        if isinstance(v, ast.ListComp) and len(v.generators) == 1 and norm(v.generators[0].iter) == target:
            g = v.generators[0]
            el = g.target
            first = norm(el.elts[0]) if isinstance(el, ast.Tuple) and el.elts else f"{norm(el)}[0]"
            if norm(v.elt) != norm(el):
                return None
            atoms = _norm_atoms(C.flatten_guards([(t, True) for t in g.ifs]))
            return first, atoms, st
        if isinstance(v, ast.Name):
            lst = v.id
            inits = [d for d in D.definitions(f).get(lst, []) if d[1] is not None and norm(d[1]) in ("[]", "list()")]
            loops = [l for l in walk_local(scope) if isinstance(l, ast.For) and norm(l.iter) == target]
            if len(inits) != 1 or len(loops) != 1:
                return None
            lp = loops[0]
            el = lp.target
            first = norm(el.elts[0]) if isinstance(el, ast.Tuple) and el.elts else f"{norm(el)}[0]"
            apps = [c for c in walk_local(lp) if isinstance(c, ast.Call) and norm(c.func) == f"{lst}.append" and len(c.args) == 1]
            if len(apps) != 1 or norm(apps[0].args[0]) != norm(el):
                return None
            atoms = _norm_atoms(C.flatten_guards(C.guards(f, apps[0], within=lp)))
            return first, atoms, lp
    return None


def _finite_guarded(f, node, value_texts: List[str], within=None) -> bool:
    """node runs only when one of value_texts `is not None` (positive `is not None`, or a
    negative `is None`)."""
    for t, pol in C.flatten_guards(C.guards(f, node, within=within)):
        for vt in value_texts:
            if (pol and _is_none_test(t, vt, True)) or (not pol and _is_none_test(t, vt, False)):
                return True
    return False


def _finite_arm(e: ast.AST, var: str) -> Optional[ast.AST]:
    """For `X if var is not None else None` / `None if var is None else X` return X."""
    if not isinstance(e, ast.IfExp):
        return None
    none = lambda x: isinstance(x, ast.Constant) and x.value is None  # noqa: E731
    if _is_none_test(e.test, var, True) and none(e.orelse):
        return e.body
    if _is_none_test(e.test, var, False) and none(e.body):
        return e.orelse
    return None


def _gt(t: ast.AST) -> Optional[Tuple[str, str]]:
    """(big, small) for `big > small` / `small < big`."""
    if isinstance(t, ast.Compare) and len(t.ops) == 1:
        a, b = norm(t.left), norm(t.comparators[0])
        if isinstance(t.ops[0], ast.Gt):
            return a, b
        if isinstance(t.ops[0], ast.Lt):
            return b, a
    return None


# ------------------------------------------------------------------ F1: recording
def f1_recording(ctx, rule: str = "F1", universe: bool = False) -> None:
    """Every inserted key is recorded: `_rules.append(key)` and `_shifts.append(initial shifts
    of that key)` run for every call (a skip is tolerated only for a key that is already there
    *as a whole*), the rule's index is its position in `_rules`, and the queue is processed
    before returning.  For the function values (C03) a rule whose parent already pumps may be
    left out -- it can change no value --; for the extractor (universe=True, C11) it may not:
    `_rules` is also the universe the extractor minimises."""
    P = ctx.P
    m = P.need_method(TM, "add_rule_key", own=True)
    f = m.node
    ctx.analysed(m)
    params = [p for p in D.param_names(f) if p != "self"]
    if len(params) != 1:
        raise AnalysisError(f"F1: add_rule_key takes {params}; expected the key only")
    key = params[0]
    rec = [c for c in _calls(f, "self._rules.append") if len(c.args) == 1 and norm(c.args[0]) == key]
    if len(rec) != 1:
        ctx.violation(rule, f, f"add_rule_key must record its key exactly once in self._rules (found {len(rec)} appends of `{key}`)", construct=f"{TM}.add_rule_key record")
        return
    sh = _calls(f, "self._shifts.append")
    if len(sh) != 1 or len(sh[0].args) != 1:
        ctx.violation(rule, f, "add_rule_key must append exactly one list of shifts per recorded rule (the two lists are indexed by the same rule index)",
                      construct=f"{TM}.add_rule_key shifts")
        return
    for what, call in (("the key", rec[0]), ("its shifts", sh[0])):
        bad = False
        for t, pol in _skipping_guards(f, call):
            if not universe and _is_pumping_test(t, pol, key):
                continue
            whole = any(isinstance(x, ast.Compare) and len(x.ops) == 1 and isinstance(x.ops[0], (ast.In, ast.NotIn)) and norm(x.left) == key for x in ast.walk(t))
            if whole:
                continue
            bad = True
            ctx.violation(rule, t, f"{what} is recorded only under `{norm(t)}` ({'holds' if pol else 'fails'}): a rule that is left out never contributes, so the answer "
                          "depends on more than the set of inserted rules (a projection of the key does not identify the rule: shifts and bucket differ)"
                          + ("; the recorded rules are also the universe the extractor chooses from" if universe else ""))
        if not bad:
            ctx.ok(rule, f"add_rule_key records {what} for every call")
    v = _value_of(f, sh[0].args[0])
    ok = isinstance(v, ast.Call) and norm(v.func) == "self._compute_shift" and [norm(a) for a in v.args] == [f"{key}.key", f"{key}.shifts"] and not v.keywords
    if ok:
        ctx.ok(rule, "the shifts recorded are _compute_shift(key.key, key.shifts) of the same key")
    else:
        ctx.violation(rule, sh[0], f"the shifts recorded for the rule are `{norm(v)[:80]}`, not self._compute_shift({key}.key, {key}.shifts)")
    if C.stmt_of(rec[0]) in f.body and C.stmt_of(sh[0]) in f.body:
        ctx.ok(rule, "_rules and _shifts grow in the same block (same index for a rule and its shifts)")
    else:
        ctx.violation(rule, sh[0], "_rules.append and _shifts.append are no longer in the function's top-level block: the two lists can get out of step")
    # the rule's index
    regs = [c for c in walk_local(f) if isinstance(c, ast.Call) and isinstance(c.func, ast.Attribute) and c.func.attr == "append"
            and norm(c.func.value).startswith(("self._rules_pumping_class[", "self._rules_using_class[", "self._processing_queue"))]
    n_idx = 0
    for c in regs:
        arg = c.args[0] if c.args else None
        idx = arg.elts[0] if isinstance(arg, ast.Tuple) and arg.elts else arg
        if idx is None:
            continue
        v = _value_of(f, idx)
        a = affine(v)
        # where the value was computed: at the definition of the local that carries it, else at the use
        site = c
        e_ = idx
        hops = 0
        while isinstance(e_, ast.Name) and hops < 6:
            r_ = D.reaching_value(f, e_, e_.id)
            if r_ is None:
                break
            site, e_ = r_[0], r_[1]
            hops += 1
        after = C.dominates(f, C.stmt_of(rec[0]), site)
        want = {"len(self._rules)": 1, "1": -1} if after else {"len(self._rules)": 1}
        n_idx += 1
        if a == want:
            ctx.ok(rule, f"`{norm(c)[:60]}`: the index is the position of the rule just recorded")
        else:
            ctx.violation(rule, c, f"`{norm(idx)}` = `{norm(v)}` is not the position of the rule just recorded ({'len(self._rules) - 1 after' if after else 'len(self._rules) before'} the append)")
    if n_idx < 3:
        ctx.floor(rule, 99)
    # the queue is processed before returning
    pq = _calls(f, "self._process_queue")
    tail = [st for st in f.body if not isinstance(st, ast.Pass)]
    last = tail[-1]
    def _whole_key_only(node) -> bool:
        for t, _pol in _skipping_guards(f, node):
            if _is_pumping_test(t, _pol, key):
                continue
            if not any(isinstance(x, ast.Compare) and len(x.ops) == 1 and isinstance(x.ops[0], (ast.In, ast.NotIn)) and norm(x.left) == key for x in ast.walk(t)):
                return False
        return True

    if pq and any(C.stmt_of(c) is last for c in pq) and _whole_key_only(pq[-1]):
        ctx.ok(rule, "add_rule_key ends by processing the queue unconditionally")
    else:
        ctx.violation(rule, f, "add_rule_key must end with an unconditional self._process_queue(): the status is queried after every insertion", construct=f"{TM}.add_rule_key process")


# ------------------------------------------------------------------ F2: initial shifts
def f2_initial_shifts(ctx) -> None:
    P = ctx.P
    m = P.need_method(TM, "_compute_shift", own=True)
    f = m.node
    ctx.analysed(m)
    params = [p for p in D.param_names(f) if p != "self"]
    if len(params) != 2:
        raise AnalysisError("F2: _compute_shift(rule_key, shifts_for_zero) expected")
    rk, sfz = params
    rets = [r for r in C.returns_of(f) if r.value is not None]
    all_none = finite = None
    shortcuts = []
    for r in rets:
        gs = C.flatten_guards(C.guards(f, r))
        pos_none = [t for t, pol in gs if pol and isinstance(t, ast.Compare) and _is_none_test(t, norm(t.left), False)]
        if pos_none and all_none is None:
            all_none = (r, norm(pos_none[0].left))
        elif isinstance(r.value, ast.ListComp) and isinstance(r.value.elt, ast.IfExp) and finite is None:
            finite = r
        elif not pos_none:
            shortcuts.append(r)
    if all_none is None or finite is None:
        raise AnalysisError("F2: cannot tell the infinite-parent return from the finite one in _compute_shift")
    for r in shortcuts:
        ctx.violation("F2", r, f"_compute_shift also returns `{norm(r.value)[:70]}` for a finite parent: every initial shift must be child value + shift - parent value "
                      "(a shortcut that leaves the parent's current value out is wrong as soon as the parent already has terms)")
    pv_text = all_none[1]
    # the parent's value is f(rule_key[0])
    pdefs = [d for d in D.definitions(f).get(pv_text, []) if d[1] is not None]
    ptxt = norm(pdefs[0][1]) if len(pdefs) == 1 else pv_text
    if ptxt in (f"self._function[{rk}[0]]", f"self._function.__getitem__({rk}[0])"):
        ctx.ok("F2", "the parent's current value is f(rule_key[0])")
    else:
        ctx.violation("F2", all_none[0], f"the value compared with None / subtracted is `{ptxt}`, not the parent's value self._function[{rk}[0]]")
    r0 = all_none[0].value
    if isinstance(r0, (ast.ListComp,)) and isinstance(r0.elt, ast.Constant) and r0.elt.value is None and norm(r0.generators[0].iter) == sfz and not r0.generators[0].ifs:
        ctx.ok("F2", "an infinite parent gives one None per child")
    elif isinstance(r0, ast.BinOp) and isinstance(r0.op, ast.Mult) and "None" in norm(r0) and f"len({sfz})" in norm(r0):
        ctx.ok("F2", "an infinite parent gives one None per child")
    else:
        ctx.violation("F2", all_none[0], f"for an infinite parent the shifts must be None for every child (one per entry of {sfz}); found `{norm(r0)[:80]}`")
    lc = finite.value
    if not isinstance(lc, ast.ListComp) or len(lc.generators) != 1 or lc.generators[0].ifs:
        raise AnalysisError("F2: the finite-parent return of _compute_shift is not a plain list comprehension")
    g = lc.generators[0]
    it = _value_of(f, g.iter) if isinstance(g.iter, ast.Name) else g.iter
    if not (isinstance(it, ast.Call) and norm(it.func) == "zip" and len(it.args) == 2 and isinstance(g.target, ast.Tuple) and len(g.target.elts) == 2):
        raise AnalysisError("F2: the comprehension of _compute_shift does not run over zip(children values, shifts_for_zero)")
    a0, a1 = (_value_of(f, a) for a in it.args)
    while isinstance(a0, ast.Call) and norm(a0.func) in ("list", "tuple") and len(a0.args) == 1:
        a0 = _value_of(f, a0.args[0])
    fv, sv = (norm(e) for e in g.target.elts)
    vals_ok = norm(a0) in (f"map(self._function.__getitem__, {rk}[1])", f"(self._function[c] for c in {rk}[1])", f"[self._function[c] for c in {rk}[1]]")
    if not vals_ok:
        pm = PT.match(PT.compile_pattern(f"(self._function[_M_c] for _M_c in {rk}[1])"), a0) or PT.match(PT.compile_pattern(f"[self._function[_M_c] for _M_c in {rk}[1]]"), a0)
        vals_ok = pm is not None
    if vals_ok and norm(a1) == sfz:
        ctx.ok("F2", "children values f(rule_key[1][i]) are paired positionally with shifts_for_zero[i]")
    else:
        ctx.violation("F2", it, f"the shifts must pair f(child_i) with shift_i: zip(values of {rk}[1] in order, {sfz}); found zip({norm(a0)[:60]}, {norm(a1)[:40]})")
    arm = _finite_arm(lc.elt, fv)
    if arm is None:
        ctx.violation("F2", lc.elt, f"a child whose value is None must get the shift None, every other `{fv} + {sv} - parent`; found `{norm(lc.elt)[:90]}`")
    else:
        a = affine(arm)
        if a == {fv: 1, sv: 1, pv_text: -1}:
            ctx.ok("F2", f"initial shift = {fv} + {sv} - {pv_text} (child value + shift - parent value), None for an infinite child")
        else:
            ctx.violation("F2", arm, f"initial shift `{norm(arm)}` is not child value + shift - parent value ({fv} + {sv} - {pv_text}): the table no longer says how many more "
                          "terms the rule can give")


# ------------------------------------------------------------------ F3: gap size
def f3_gap_size(ctx) -> None:
    P = ctx.P
    cls = P.need_class(TM)
    m = P.need_method(TM, "add_rule_key", own=True)
    f = m.node
    key = [p for p in D.param_names(f) if p != "self"][0]
    writes = []
    for mm in cls.methods.values():
        for n in walk_local(mm.node):
            if isinstance(n, (ast.Assign, ast.AnnAssign, ast.AugAssign)):
                for t in (n.targets if isinstance(n, ast.Assign) else [n.target]):
                    if is_self_attr(t, "_gap_size"):
                        writes.append((mm, n))
    outside = [(mm, n) for mm, n in writes if mm.name not in ("__init__", "add_rule_key")]
    for mm, n in outside:
        ctx.violation("F3", n, f"{mm.qualname} writes _gap_size; it may only grow, in add_rule_key, to the largest |shift| inserted so far")
    mine = [n for mm, n in writes if mm.name == "add_rule_key"]
    if not mine:
        ctx.violation("F3", f, "add_rule_key no longer raises _gap_size to the largest |shift| of the inserted rule: with a gap narrower than a shift, a value can jump "
                      "over the gap and a finite class is declared pumping", construct=f"{TM}.add_rule_key gap size")
        return
    for n in mine:
        if isinstance(n, ast.AugAssign):
            raise AnalysisError("F3: _gap_size updated by an augmented assignment; not understood")
        g = _value_of(f, n.value)
        gname = norm(n.value)
        # grows only
        grows = any(pol and _gt(t) == (gname, "self._gap_size") for t, pol in C.flatten_guards(C.guards(f, n)))
        is_max_with_old = isinstance(g, ast.Call) and norm(g.func) == "max" and any(norm(a) == "self._gap_size" for a in g.args)
        if grows or is_max_with_old:
            ctx.ok("F3", "_gap_size only grows")
        else:
            ctx.violation("F3", n, f"_gap_size is set to `{gname}` without the test `{gname} > self._gap_size`: the gap may shrink below a shift already inserted")
        src = g
        if is_max_with_old:
            rest = [a for a in g.args if norm(a) != "self._gap_size"]
            src = _value_of(f, rest[0]) if len(rest) == 1 else g
        pats = (f"max((abs(_M_s) for _M_s in {key}.shifts), default=0)", f"max(map(abs, {key}.shifts), default=0)",
                f"max([abs(_M_s) for _M_s in {key}.shifts], default=0)")
        if any(PT.match(PT.compile_pattern(p), src) is not None for p in pats):
            ctx.ok("F3", f"the bound is max |s| over the inserted rule's own shifts ({key}.shifts)")
        else:
            ctx.violation("F3", n, f"the gap bound is `{norm(src)[:90]}`; it must be the largest |s| over {key}.shifts, the rule's own shifts: the state-adjusted shifts "
                          "shrink as the parent gets ahead and grow again later")
        calls = _calls(f, "self._correct_gap")
        if any(C.followed_by(f, n, c) or C.dominates(f, n, c) for c in calls):
            ctx.ok("F3", "_correct_gap() follows the change of the gap size")
        else:
            ctx.violation("F3", n, "after _gap_size changes the gap itself must be recomputed (_correct_gap())")


# ------------------------------------------------------------------ F4: registration
def f4_registration(ctx) -> None:
    P = ctx.P
    m = P.need_method(TM, "add_rule_key", own=True)
    f = m.node
    key = [p for p in D.param_names(f) if p != "self"][0]
    pump = [c for c in walk_local(f) if isinstance(c, ast.Call) and norm(c.func) == f"self._rules_pumping_class[{key}.parent].append"]
    if len(pump) != 1:
        ctx.violation("F4", f, f"add_rule_key must register the rule once in _rules_pumping_class[{key}.parent]", construct=f"{TM}.add_rule_key pumping registration")
    else:
        if _finite_guarded(f, pump[0], [f"self._function[{key}.parent]"]):
            ctx.ok("F4", "the rule is registered as pumping its parent while the parent is finite")
        else:
            ctx.violation("F4", pump[0], f"registration in _rules_pumping_class must be under `self._function[{key}.parent] is not None` (a class that pumps is never increased again)")
    loops = [l for l in walk_local(f) if isinstance(l, ast.For) and isinstance(l.iter, ast.Call) and norm(l.iter.func) == "enumerate"
             and len(l.iter.args) == 1 and norm(l.iter.args[0]) == f"{key}.children" and isinstance(l.target, ast.Tuple) and len(l.target.elts) == 2]
    if len(loops) != 1:
        ctx.violation("F4", f, f"add_rule_key must register the rule for every (position, child) of enumerate({key}.children)", construct=f"{TM}.add_rule_key child registration")
        return
    lp = loops[0]
    pos, ch = (norm(e) for e in lp.target.elts)
    use = [c for c in walk_local(lp) if isinstance(c, ast.Call) and norm(c.func) == f"self._rules_using_class[{ch}].append"]
    if len(use) != 1 or len(use[0].args) != 1 or not isinstance(use[0].args[0], ast.Tuple) or len(use[0].args[0].elts) != 2:
        ctx.violation("F4", lp, f"each child must be registered once as self._rules_using_class[{ch}].append((rule index, {pos}))")
        return
    u = use[0]
    if norm(u.args[0].elts[1]) == pos:
        ctx.ok("F4", f"child {ch} is registered with its own position {pos}")
    else:
        ctx.violation("F4", u, f"the pair registered for child `{ch}` carries `{norm(u.args[0].elts[1])}`, not the child's position `{pos}`: later corrections hit the wrong shift")
    if _finite_guarded(f, u, [f"self._function[{ch}]"], within=lp):
        ctx.ok("F4", "a child is registered only while its value is finite")
    else:
        ctx.violation("F4", u, f"registration in _rules_using_class[{ch}] must be under `self._function[{ch}] is not None`")
    # ... and under nothing else: every position whose child is finite is registered, the rule's own
    # parent among its children included (1 -> (0, 1): the shift at the second position moves when f(1) does)
    other = [t for t, _p in C.flatten_guards(C.guards(f, u, within=lp)) if f"self._function[{ch}]" not in norm(D.expanded(f, t))]
    skips = [x for x in walk_local(lp) if isinstance(x, (ast.Continue, ast.Break)) and x is not lp
             and not any(f"self._function[{ch}]" in norm(D.expanded(f, t)) for t, _p in C.flatten_guards(C.guards(f, x, within=lp)))]
    if other or skips:
        bad = other[0] if other else skips[0]
        ctx.violation("F4", bad, f"a child position can be left out of _rules_using_class[{ch}] for a reason other than `self._function[{ch}] is None` "
                      f"(`{norm(other[0])[:50] if other else 'continue / break'}`): its shift is never corrected when f({ch}) moves, so the rule fires once too often or stalls "
                      "-- a rule with its own parent among its children (1 -> (0, 1)) stops pumping")
    else:
        ctx.ok("F4", "every finite child position is registered (no other reason to skip one)")
    if _finite_guarded(f, lp, [f"self._function[{key}.parent]"]):
        ctx.ok("F4", "children are registered only for a rule whose parent is finite")
    else:
        ctx.violation("F4", lp, f"children must be registered under `self._function[{key}.parent] is not None` (the shifts of a pumping parent are all None)")
    q = [c for c in _calls(f, "self._processing_queue.append")]
    if q and all(_finite_guarded(f, c, [f"self._function[{key}.parent]"]) for c in q):
        ctx.ok("F4", "the new rule is queued for a first try")
    else:
        ctx.violation("F4", f, "the new rule must be put on the processing queue (under the finite-parent test)", construct=f"{TM}.add_rule_key queue")


# ------------------------------------------------------------------ F5: firing test
def f5_firing_test(ctx) -> None:
    P = ctx.P
    m = P.need_method(TM, "_can_give_terms", own=True)
    f = m.node
    ctx.analysed(m)
    params = [p for p in D.param_names(f) if p != "self"]
    sh = params[0] if params else "shifts"
    rets = [r for r in C.returns_of(f) if r.value is not None]
    pats = [f"all((_M_s is None or _M_s > 0 for _M_s in {sh}))", f"all((_M_s is None or 0 < _M_s for _M_s in {sh}))", f"all((_M_s is None or _M_s >= 1 for _M_s in {sh}))",
            f"all((_M_s is None or 1 <= _M_s for _M_s in {sh}))", f"not any((_M_s is not None and _M_s <= 0 for _M_s in {sh}))",
            f"not any((_M_s is not None and _M_s < 1 for _M_s in {sh}))",
            f"all([_M_s is None or _M_s > 0 for _M_s in {sh}])"]
    if len(rets) == 1 and any(PT.match(PT.compile_pattern(p), rets[0].value) is not None for p in pats):
        ctx.ok("F5", "a rule fires only when every shift is positive or infinite")
    elif len(rets) == 1:
        ctx.violation("F5", rets[0], f"_can_give_terms is `{norm(rets[0].value)[:100]}`; a rule may give a new term only when every shift is None or > 0")
    else:
        raise AnalysisError("F5: _can_give_terms is no longer a single expression")
    # every queueing of a rule after a correction is under the test; processing tests again
    pq = P.need_method(TM, "_process_queue", own=True)
    ctx.analysed(pq)
    incs = _calls(pq.node, "self._increase_value")
    if len(incs) != 1:
        ctx.violation("F5", pq.node, "_process_queue must increase a parent through exactly one call of _increase_value", construct=f"{TM}._process_queue increase")
        return
    inc = incs[0]
    tested = False
    for t, pol in C.flatten_guards(C.guards(pq.node, inc)):
        if pol and isinstance(t, ast.Call) and norm(t.func) in ("self._can_give_terms", "TableMethod._can_give_terms") and len(t.args) == 1:
            a = _value_of(pq.node, t.args[0])
            ridx = norm(inc.args[1]) if len(inc.args) > 1 else None
            if norm(a) == f"self._shifts[{ridx}]":
                tested = True
    if tested:
        ctx.ok("F5", "a queued rule is fired only if its current shifts pass the test")
    else:
        ctx.violation("F5", inc, "_process_queue fires a rule without testing _can_give_terms(self._shifts[<that rule>]): queued rules may have been invalidated since")
    par = _value_of(pq.node, inc.args[0]) if inc.args else None
    ridx = norm(inc.args[1]) if len(inc.args) > 1 else None
    if par is not None and norm(par) == f"self._rules[{ridx}].parent":
        ctx.ok("F5", "the class increased is the parent of the rule that fired")
    else:
        ctx.violation("F5", inc, f"the class increased must be self._rules[{ridx}].parent, the parent of the rule that fired; found `{norm(par) if par is not None else '?'}`")


# ------------------------------------------------------------------ F6: corrections after an increase
def _table_loop(f, table: str, cls_name: str) -> List[ast.For]:
    want = f"self.{table}[{cls_name}]"
    out = []
    for l in walk_local(f):
        if not isinstance(l, ast.For):
            continue
        if norm(l.iter) == want:
            out.append(l)
        elif isinstance(l.iter, ast.Name):
            # a local bound to the table entry just before (no statement in between that could replace the entry)
            rv_ = D.reaching_value(f, l.iter, l.iter.id)
            if rv_ is not None and norm(rv_[1]) == want:
                blk = C.block_path(f, l)[-1]
                if blk[3] > 0 and blk[2][blk[3] - 1] is C.stmt_of(rv_[0]):
                    out.append(l)
    return out


def _shift_row(f, loop: ast.For, ridx: str) -> List[str]:
    """Texts that denote the row self._shifts[ridx] inside loop (the expression itself and
    local aliases bound to it in the loop)."""
    out = [f"self._shifts[{ridx}]"]
    for n in walk_local(loop):
        t, v = PT.assign_value(n)
        if isinstance(t, ast.Name) and v is not None and norm(v) == out[0]:
            out.append(t.id)
    return out


def _queue_after_test(ctx, rule: str, f, loop: ast.For, rows: List[str], ridx: str, what: str) -> None:
    q = [c for c in walk_local(loop) if isinstance(c, ast.Call) and norm(c.func) in ("self._processing_queue.append", "self._processing_queue.appendleft")
         and len(c.args) == 1 and norm(c.args[0]) == ridx]
    if not q:
        ctx.violation(rule, loop, f"after {what} the rule `{ridx}` is never put back on the processing queue: a rule that can now give a term is not tried again "
                      "until something else touches it (the answer depends on the insertion order)")
        return
    for c in q:
        ok = False
        for t, pol in C.flatten_guards(C.guards(f, c, within=loop)):
            if pol and isinstance(t, ast.Call) and norm(t.func) in ("self._can_give_terms", "TableMethod._can_give_terms") and len(t.args) == 1 and norm(t.args[0]) in rows:
                ok = True
        if ok:
            ctx.ok(rule, f"after {what} the rule is queued again when its shifts allow a term")
        else:
            # queueing unconditionally is harmless (processing tests again), note only
            ctx.ok(rule, f"after {what} the rule is queued again (processing tests the shifts)")


def f6_increase_corrections(ctx) -> None:
    P = ctx.P
    m = P.need_method(TM, "_increase_value", own=True)
    f = m.node
    ctx.analysed(m)
    params = [p for p in D.param_names(f) if p != "self"]
    if len(params) != 2:
        raise AnalysisError("F6: _increase_value(comb_class, rule_idx) expected")
    cc, rj = params
    incs = [c for c in _calls(f, "self._function.increase_value") if len(c.args) == 1 and norm(c.args[0]) == cc]
    if len(incs) != 1:
        ctx.violation("F6", f, f"_increase_value must raise f({cc}) by exactly one call self._function.increase_value({cc})", construct=f"{TM}._increase_value increase")
        return
    inc = incs[0]
    cur_txt = f"self._function[{cc}]"
    cur_names = [cur_txt] + [t.id for n in walk_local(f) for t, v in [PT.assign_value(n)] if isinstance(t, ast.Name) and v is not None and norm(v) == cur_txt]
    # (a) nothing happens for a class that already pumps
    if _finite_guarded(f, inc, cur_names):
        ctx.ok("F6", "a pumping class is never increased")
    else:
        ctx.violation("F6", inc, f"the increase must be skipped when `{cur_txt} is None`")
    # (b) hold-back above the gap
    held = [c for c in _calls(f, "self._rule_holding_extra_terms.add") if len(c.args) == 1 and norm(c.args[0]) == rj]
    hb = False
    for t, pol in C.flatten_guards(C.guards(f, inc)):
        g = _gt(t)
        if not pol and g is not None and g[0] in cur_names and g[1] == "self._current_gap[1]":
            hb = True
    if hb and held and all(any(pol and _gt(t) is not None and _gt(t)[0] in cur_names and _gt(t)[1] == "self._current_gap[1]" for t, pol in C.flatten_guards(C.guards(f, h))) for h in held):
        ctx.ok("F6", "a value above the gap is frozen: the justifying rule is held back instead of increasing")
    else:
        ctx.violation("F6", inc, f"a class whose value is above the gap (`{cur_txt} > self._current_gap[1]`) must not be increased; the justifying rule `{rj}` is put into "
                      "_rule_holding_extra_terms instead (this is what makes the later 'set infinite' sound)")
    # (c) gap correction after the increase
    cg = [c for c in _calls(f, "self._correct_gap") if C.dominates(f, C.stmt_of(inc), c)]
    if cg:
        good = False
        for c in cg:
            for t, pol in C.flatten_guards(C.guards(f, c)):
                if isinstance(t, ast.Compare) and len(t.ops) == 1 and isinstance(t.ops[0], (ast.NotEq, ast.Eq)) and pol == isinstance(t.ops[0], ast.NotEq):
                    sides = {norm(_value_of(f, t.left)), norm(_value_of(f, t.comparators[0]))}
                    if sides == {"self._current_gap[0]", "self._function.preimage_gap(self._gap_size)"}:
                        good = True
            if not C.guards(f, c):
                good = True
        # ... and under nothing else: the gap moves whenever the histogram says so, whether or not a rule is waiting behind it
        base = {(norm(t), pol) for t, pol in C.flatten_guards(C.guards(f, inc))}
        extra = []
        for c in cg:
            for t, pol in C.flatten_guards(C.guards(f, c)):
                if (norm(t), pol) in base:
                    continue
                if isinstance(t, ast.Compare) and len(t.ops) == 1 and isinstance(t.ops[0], (ast.NotEq, ast.Eq)) \
                        and {norm(_value_of(f, t.left)), norm(_value_of(f, t.comparators[0]))} == {"self._current_gap[0]", "self._function.preimage_gap(self._gap_size)"}:
                    continue
                extra.append(t)
        if good and extra:
            good = False
            ctx.violation("F6", cg[0], f"the gap is re-examined only under `{norm(extra[0])[:60]}`: the gap moves whenever the histogram changes; left where it was, later "
                          "increases are judged against a stale gap and classes are frozen (declared pumping) that can still be bounded")
        elif good:
            ctx.ok("F6", "the gap is recomputed after the histogram changed (when its start moved)")
        else:
            ctx.violation("F6", cg[0], "_correct_gap() after an increase must run whenever preimage_gap(self._gap_size) differs from the current gap start")
    else:
        ctx.violation("F6", inc, "after f changes the gap must be re-examined (_correct_gap() when preimage_gap(_gap_size) moved): held-back rules are released only there")
    # (d) rules whose parent is cc: every finite shift decreases by one
    pl = [l for l in _table_loop(f, "_rules_pumping_class", cc) if C.dominates(f, C.stmt_of(inc), l)]
    if len(pl) != 1 or not isinstance(pl[0].target, ast.Name):
        ctx.violation("F6", inc, f"after raising f({cc}) the shifts of every rule in _rules_pumping_class[{cc}] must be decreased by one (shift = child + s - parent)",
                      construct=f"{TM}._increase_value parent correction")
    else:
        lp = pl[0]
        r = lp.target.id
        rows = _shift_row(f, lp, r)
        done = False
        for inner in walk_local(lp):
            if isinstance(inner, ast.For) and isinstance(inner.iter, ast.Call) and norm(inner.iter.func) == "enumerate" and len(inner.iter.args) == 1 \
                    and norm(inner.iter.args[0]) in rows and isinstance(inner.target, ast.Tuple) and len(inner.target.elts) == 2:
                i, v = (norm(e) for e in inner.target.elts)
                for st in walk_local(inner):
                    t, val = PT.assign_value(st)
                    if isinstance(t, ast.Subscript) and norm(t.value) in rows and norm(t.slice) == i and val is not None:
                        done = True
                        arm = _finite_arm(val, v)
                        if arm is None and _finite_guarded(f, st, [v], within=inner):
                            arm = val
                        if arm is None:
                            ctx.violation("F6", st, f"`{norm(st)[:90]}`: an infinite shift (None) must stay None and a finite one decrease by one")
                        elif affine(arm) == {v: 1, "1": -1}:
                            ctx.ok("F6", f"parent correction: every finite shift of a rule pumping {cc} decreases by one")
                        else:
                            ctx.violation("F6", st, f"the parent's value rose by one, so each finite shift of its rules must become `{v} - 1`; found `{norm(arm)}`")
            elif isinstance(inner, (ast.Assign,)) and isinstance(inner.targets[0], ast.Subscript) and isinstance(inner.value, ast.ListComp) and (
                    (norm(inner.targets[0].value) == "self._shifts" and norm(inner.targets[0].slice) == r)
                    or (norm(inner.targets[0].value) in rows and isinstance(inner.targets[0].slice, ast.Slice)
                        and inner.targets[0].slice.lower is None and inner.targets[0].slice.upper is None and inner.targets[0].slice.step is None)):
                lc = inner.value
                if len(lc.generators) == 1 and norm(lc.generators[0].iter) in rows and not lc.generators[0].ifs:
                    v = norm(lc.generators[0].target)
                    arm = _finite_arm(lc.elt, v)
                    done = True
                    if arm is not None and affine(arm) == {v: 1, "1": -1}:
                        ctx.ok("F6", f"parent correction: every finite shift of a rule pumping {cc} decreases by one")
                    else:
                        ctx.violation("F6", inner, f"the parent's value rose by one, so each finite shift must become `{v} - 1` (None stays None); found `{norm(lc.elt)}`")
        if not done:
            ctx.violation("F6", lp, f"the loop over _rules_pumping_class[{cc}] no longer decreases the rule's shifts")
        _queue_after_test(ctx, "F6", f, lp, rows, r, "the parent correction")
    # (e) rules using cc as a child: that shift increases by one
    ul = [l for l in _table_loop(f, "_rules_using_class", cc) if C.dominates(f, C.stmt_of(inc), l)]
    if len(ul) != 1 or not isinstance(ul[0].target, ast.Tuple) or len(ul[0].target.elts) != 2:
        ctx.violation("F6", inc, f"after raising f({cc}) the shift at position p of every (rule, p) in _rules_using_class[{cc}] must be increased by one",
                      construct=f"{TM}._increase_value child correction")
    else:
        lp = ul[0]
        r, ci = (norm(e) for e in lp.target.elts)
        rows = _shift_row(f, lp, r)
        done = False
        for st in walk_local(lp):
            t, val = PT.assign_value(st)
            if isinstance(st, ast.AugAssign) and isinstance(st.target, ast.Subscript) and norm(st.target.value) in rows:
                done = True
                if norm(st.target.slice) == ci and isinstance(st.op, ast.Add) and affine(st.value) == {"1": 1}:
                    ctx.ok("F6", f"child correction: the shift at the child's position increases by one")
                else:
                    ctx.violation("F6", st, f"the child's value rose by one: shifts[{ci}] must increase by exactly one; found `{norm(st)}`")
            elif isinstance(t, ast.Subscript) and norm(t.value) in rows and val is not None:
                done = True
                if norm(t.slice) != ci:
                    ctx.violation("F6", st, f"the correction must hit position `{ci}` (the position registered with the rule), not `{norm(t.slice)}`")
                    continue
                cur = _value_of(f, val)
                a = affine(val)
                # val = <alias of rows[ci]> + 1
                names = {k for k in (a or {}) if k != "1"}
                okv = False
                if a is not None and a.get("1") == 1 and len(names) == 1:
                    nm = next(iter(names))
                    src = nm
                    ds = [d for d in D.definitions(f).get(nm, []) if d[1] is not None]
                    if ds:
                        src = norm(ds[0][1])
                    okv = a.get(nm) == 1 and any(src == f"{row}[{ci}]" for row in rows)
                if okv:
                    ctx.ok("F6", "child correction: the shift at the child's position increases by one")
                else:
                    ctx.violation("F6", st, f"the child's value rose by one: shifts[{ci}] must become its old value + 1; found `{norm(val)}`")
        if not done:
            ctx.violation("F6", lp, f"the loop over _rules_using_class[{cc}] no longer corrects the shift at the registered position")
        _queue_after_test(ctx, "F6", f, lp, rows, r, "the child correction")


# ------------------------------------------------------------------ F7: corrections after 'set infinite'
def f7_infinite_corrections(ctx) -> None:
    P = ctx.P
    m = P.need_method(TM, "_set_infinite", own=True)
    f = m.node
    ctx.analysed(m)
    params = [p for p in D.param_names(f) if p != "self"]
    if len(params) != 1:
        raise AnalysisError("F7: _set_infinite(comb_class) expected")
    cc = params[0]
    si = [c for c in _calls(f, "self._function.set_infinite") if len(c.args) == 1 and norm(c.args[0]) == cc]
    if len(si) != 1:
        ctx.violation("F7", f, f"_set_infinite must mark f({cc}) infinite by exactly one call self._function.set_infinite({cc})", construct=f"{TM}._set_infinite mark")
        return
    mark = si[0]
    cur_txt = f"self._function[{cc}]"
    cur_names = [cur_txt] + [t.id for n in walk_local(f) for t, v in [PT.assign_value(n)] if isinstance(t, ast.Name) and v is not None and norm(v) == cur_txt]
    if _finite_guarded(f, mark, cur_names):
        ctx.ok("F7", "a class already pumping is left alone")
    else:
        ctx.violation("F7", mark, f"_set_infinite must return when `{cur_txt} is None` (Function.set_infinite raises, and the counts would be corrupted)")
    # rules pumping cc are unregistered from their children, by rule index
    pl = [l for l in _table_loop(f, "_rules_pumping_class", cc)]
    if len(pl) != 1 or not isinstance(pl[0].target, ast.Name):
        ctx.violation("F7", mark, f"the rules of _rules_pumping_class[{cc}] must be taken out of _rules_using_class of their children (they will never fire again)",
                      construct=f"{TM}._set_infinite unregister")
    else:
        lp = pl[0]
        r = lp.target.id
        inner = [l for l in walk_local(lp) if isinstance(l, ast.For) and norm(l.iter) == f"self._rules[{r}].children" and isinstance(l.target, ast.Name)]
        if len(inner) != 1:
            ctx.violation("F7", lp, f"for each rule `{r}` pumping {cc}, every child of self._rules[{r}].children must be visited")
        else:
            ch = inner[0].target.id
            fc = _filtered_copy(f, inner[0], f"self._rules_using_class[{ch}]")
            if fc is None:
                raise AnalysisError("F7: the filter of _rules_using_class[child] in _set_infinite is written in a way the analysis does not know")
            first, keep, node = fc
            want = {(f"{first} == {r}", False)}
            alt = {(f"{r} == {first}", False)}
            if keep in (want, alt):
                ctx.ok("F7", "exactly the pairs of the rule that stops firing are removed from its children's tables")
            else:
                ctx.violation("F7", node, f"the pairs kept are those with {sorted(keep)}; they must be those whose rule index differs from `{r}` ({first} != {r}): "
                              "anything else drops registrations of other rules (they stop being corrected) or keeps dead ones")
        if not C.dominates(f, C.stmt_of(mark), lp):
            ctx.violation("F7", lp, "the tables are cleaned before the class is marked infinite")
    clr = [c for c in _calls(f, f"self._rules_pumping_class[{cc}].clear")]
    if clr and all(C.dominates(f, l, c) for l in pl for c in clr):
        ctx.ok("F7", f"_rules_pumping_class[{cc}] is emptied after its rules were unregistered")
    else:
        ctx.violation("F7", f, f"_rules_pumping_class[{cc}] must be cleared, after the loop that uses it", construct=f"{TM}._set_infinite clear pumping")
    # rules using cc: that shift becomes None
    ul = [l for l in _table_loop(f, "_rules_using_class", cc)]
    if len(ul) != 1 or not isinstance(ul[0].target, ast.Tuple) or len(ul[0].target.elts) != 2:
        ctx.violation("F7", mark, f"for every (rule, p) in _rules_using_class[{cc}] the shift at p must become None (an infinite child never blocks a rule)",
                      construct=f"{TM}._set_infinite child correction")
    else:
        lp = ul[0]
        r, ci = (norm(e) for e in lp.target.elts)
        rows = _shift_row(f, lp, r)
        done = False
        for st in walk_local(lp):
            t, val = PT.assign_value(st)
            if isinstance(t, ast.Subscript) and norm(t.value) in rows and val is not None:
                done = True
                if norm(t.slice) == ci and isinstance(val, ast.Constant) and val.value is None:
                    ctx.ok("F7", "child correction: the shift at the child's position becomes None")
                else:
                    ctx.violation("F7", st, f"the child pumps now: shifts[{ci}] must become None; found `{norm(st)}`")
        if not done:
            ctx.violation("F7", lp, f"the loop over _rules_using_class[{cc}] no longer sets the shift at the registered position to None")
        for sk in [n_ for n_ in walk_local(lp) if isinstance(n_, (ast.Continue, ast.Break))]:
            ctx.violation("F7", sk, f"a pair (rule, position) of _rules_using_class[{cc}] can be skipped in the correction loop: a rule that has {cc} as a child twice keeps a "
                          "finite shift at the second position, never fires again, and its parent stalls at a finite value")
        _queue_after_test(ctx, "F7", f, lp, rows, r, "a child became infinite")
        if not C.dominates(f, C.stmt_of(mark), lp):
            ctx.violation("F7", lp, "the shifts are corrected before the class is marked infinite")
        clr2 = [c for c in _calls(f, f"self._rules_using_class[{cc}].clear")]
        # ... or through a local that was bound to the list after the loop that may replace it
        for c in walk_local(f):
            if isinstance(c, ast.Call) and isinstance(c.func, ast.Attribute) and c.func.attr == "clear" and isinstance(c.func.value, ast.Name):
                rv_ = D.reaching_value(f, c.func.value, c.func.value.id)
                if rv_ is not None and norm(rv_[1]) == f"self._rules_using_class[{cc}]" and all(C.dominates(f, l, rv_[0]) for l in pl):
                    clr2.append(c)
        if clr2 and all(C.dominates(f, lp, c) for c in clr2):
            ctx.ok("F7", f"_rules_using_class[{cc}] is emptied after the correction")
        else:
            ctx.violation("F7", f, f"_rules_using_class[{cc}] must be cleared after its pairs were corrected (their shift is None for good)", construct=f"{TM}._set_infinite clear using")
        # the unregistering loop must come before the correction loop reads the table? (independent tables: order free)


# ------------------------------------------------------------------ F8: gap window and hold-back release
def f8_gap(ctx) -> None:
    P = ctx.P
    m = P.need_method(TM, "_correct_gap", own=True)
    f = m.node
    ctx.analysed(m)
    asg = [n for n in walk_local(f) if isinstance(n, (ast.Assign, ast.AnnAssign)) and any(is_self_attr(t, "_current_gap") for t in (n.targets if isinstance(n, ast.Assign) else [n.target]))]
    if len(asg) != 1:
        ctx.violation("F8", f, "_correct_gap must set self._current_gap exactly once", construct=f"{TM}._correct_gap assignment")
        return
    PG = "self._function.preimage_gap(self._gap_size)"
    ng = D.expanded(f, asg[0].value)
    ng_name = norm(asg[0].value)
    if isinstance(ng, ast.Tuple) and len(ng.elts) == 2:
        if norm(ng.elts[0]) == PG:
            ctx.ok("F8", "the gap starts at preimage_gap(_gap_size)")
        else:
            ctx.violation("F8", asg[0], f"the gap must start at {PG}; found `{norm(ng.elts[0])[:80]}`")
        if affine(ng.elts[1]) == {PG: 1, "self._gap_size": 1, "1": -1}:
            ctx.ok("F8", "the gap is the window [k, k + _gap_size - 1]")
        else:
            ctx.violation("F8", asg[0], f"the gap must end at `k + self._gap_size - 1` with k its start (a window of _gap_size unused values); found `{norm(ng.elts[1])[:90]}`")
    else:
        raise AnalysisError("F8: the new gap is not written as a pair")
    end_aff = affine(ng.elts[1])
    ext = [c for c in _calls(f, "self._processing_queue.extend") if len(c.args) == 1 and norm(c.args[0]) == "self._rule_holding_extra_terms"]
    clr = _calls(f, "self._rule_holding_extra_terms.clear")
    if not ext:
        ctx.violation("F8", f, "when the gap moves up, every held-back rule must be put back on the processing queue (their parents are no longer above the gap)",
                      construct=f"{TM}._correct_gap release")
    else:
        e = ext[0]
        rel = False
        for t, pol in C.flatten_guards(C.guards(f, e)):
            tx = D.expanded(f, t)
            if pol and isinstance(tx, ast.Compare) and len(tx.ops) == 1 and isinstance(tx.ops[0], (ast.Gt, ast.Lt)):
                big, small = (tx.left, tx.comparators[0]) if isinstance(tx.ops[0], ast.Gt) else (tx.comparators[0], tx.left)
                bigx = big
                # `new_gap[1]` with new_gap expanded to a pair
                if isinstance(bigx, ast.Subscript) and isinstance(bigx.value, ast.Tuple) and isinstance(bigx.slice, ast.Constant) and bigx.slice.value == 1 and len(bigx.value.elts) == 2:
                    bigx = bigx.value.elts[1]
                if norm(small) == "self._current_gap[1]" and affine(bigx) == end_aff:
                    rel = True
        if not C.guards(f, e):
            rel = True
        before = _top_index(f, e) < _top_index(f, asg[0])
        if rel and before:
            ctx.ok("F8", "held-back rules are released exactly when the right end of the gap grows (compared with the old gap)")
        else:
            ctx.violation("F8", e, f"held-back rules must be released under `{ng_name}[1] > self._current_gap[1]`, tested against the *old* gap (before it is overwritten)")
        if clr and all(C.followed_by(f, e, c) or C.dominates(f, C.stmt_of(e), c) for c in clr) and \
                {(norm(t), pol) for t, pol in C.flatten_guards(C.guards(f, clr[0]))} == {(norm(t), pol) for t, pol in C.flatten_guards(C.guards(f, e))}:
            ctx.ok("F8", "the hold-back set is emptied once its rules are queued")
        else:
            ctx.violation("F8", e, "after queueing the held-back rules the set must be cleared under the same condition (otherwise their parents are declared infinite)")


def f9_process_queue(ctx) -> None:
    """Values are declared infinite only when nothing can be improved below the gap: the
    queue is drained first, one held-back rule is taken, its parent set infinite, and the
    drain resumes."""
    P = ctx.P
    m = P.need_method(TM, "_process_queue", own=True)
    f = m.node
    outer = [w for w in f.body if isinstance(w, ast.While)]
    if len(outer) != 1:
        raise AnalysisError("F9: _process_queue is not one outer while loop")
    w = outer[0]
    tt = norm(w.test)
    if tt in ("self._processing_queue or self._rule_holding_extra_terms", "self._rule_holding_extra_terms or self._processing_queue"):
        ctx.ok("F9", "processing continues while the queue or the hold-back set is non-empty")
    else:
        ctx.violation("F9", w, f"_process_queue must continue `while self._processing_queue or self._rule_holding_extra_terms`; found `{tt}`: held-back rules left behind mean classes "
                      "that pump are reported with a finite count")
    drains = [x for x in walk_local(w) if isinstance(x, ast.While) and norm(x.test) == "self._processing_queue"]
    sinf = _calls(f, "self._set_infinite")
    if len(drains) > 1 or len(sinf) > 1:
        raise AnalysisError("F9: _process_queue has several drain loops / _set_infinite calls; arrangement not known")
    if len(drains) != 1 or len(sinf) != 1:
        ctx.violation("F9", w, "_process_queue must drain the queue in an inner `while self._processing_queue` and then set one held-back parent infinite",
                      construct=f"{TM}._process_queue shape")
        return
    d, s = drains[0], sinf[0]
    if C.dominates(f, d, s) and any(x is s for x in ast.walk(w)) and not any(x is s for x in ast.walk(d)):
        ctx.ok("F9", "a class is declared infinite only after the queue has been drained")
    else:
        ctx.violation("F9", s, "_set_infinite must come after the inner drain loop: with rules still queued, values below the gap can still grow into it")
    held_ok = any(pol and norm(t) == "self._rule_holding_extra_terms" for t, pol in C.flatten_guards(C.guards(f, s, within=w)))
    par = _value_of(f, s.args[0]) if s.args else None
    pops = [c for c in _calls(w, "self._rule_holding_extra_terms.pop")]
    if held_ok and pops and par is not None:
        idx_names = {t.id for n in walk_local(w) for t, v in [PT.assign_value(n)] if isinstance(t, ast.Name) and v is not None and any(v is p for p in pops)}
        pm = PT.match(PT.compile_pattern("self._rules[_E_i].parent"), par)
        if pm is not None and (pm["_E_i"] in idx_names or pm["_E_i"] == "self._rule_holding_extra_terms.pop()"):
            ctx.ok("F9", "the class declared infinite is the parent of a held-back rule taken out of the set")
        else:
            ctx.violation("F9", s, f"the class declared infinite must be self._rules[<rule popped from the hold-back set>].parent; found `{norm(par)}`")
    else:
        ctx.violation("F9", s, "_set_infinite must be applied to the parent of a rule popped from a non-empty hold-back set")
    pl = [c for c in _calls(d, "self._processing_queue.popleft")] + [c for c in _calls(d, "self._processing_queue.pop")]
    if pl:
        ctx.ok("F9", "the drain loop takes rules out of the queue")
    else:
        ctx.violation("F9", d, "the drain loop never takes a rule out of the queue")


# ------------------------------------------------------------------ F10: the function's own counts
def f10_function_counts(ctx) -> None:
    P = ctx.P
    for name, new_none in (("increase_value", False), ("set_infinite", True)):
        m = P.need_method(FN, name, own=True)
        f = m.node
        ctx.analysed(m)
        key = [p for p in D.param_names(f) if p != "self"][0]
        st = [n for n in walk_local(f) if isinstance(n, ast.Assign) and len(n.targets) == 1 and norm(n.targets[0]) == f"self._value[{key}]"]
        if len(st) != 1:
            ctx.violation("F10", f, f"Function.{name} must store the new value once in self._value[{key}]", construct=f"{FN}.{name} store")
            continue
        # the old value: read from self._value[key], 0 for a key beyond the list -- here, or in a
        # helper of the same class that is handed the key and returns it
        oname = None
        reader = f          # the function in which the old value is read and an infinite key refused
        rname = None
        for n, ds in D.definitions(f).items():
            if any(d[1] is not None and norm(d[1]) == f"self._value[{key}]" for d in ds):
                oname = rname = n
        if oname is None:
            for n, ds in D.definitions(f).items():
                for d in ds:
                    v = d[1]
                    if isinstance(v, ast.Call) and isinstance(v.func, ast.Attribute) and isinstance(v.func.value, ast.Name) and v.func.value.id == "self" \
                            and [norm(a) for a in v.args] == [key] and v.func.attr in P.need_class(FN).methods:
                        h = P.need_class(FN).methods[v.func.attr].node
                        hk = [p for p in D.param_names(h) if p != "self"]
                        hr = [r for r in C.returns_of(h) if r.value is not None]
                        if len(hk) == 1 and hr and all(isinstance(r.value, ast.Name) for r in hr) and len({r.value.id for r in hr}) == 1:
                            cand = hr[0].value.id
                            if any(dd[1] is not None and norm(dd[1]) == f"self._value[{hk[0]}]" for dd in D.definitions(h).get(cand, [])):
                                oname, reader, rname = n, h, cand
        if oname is None:
            raise AnalysisError(f"F10: Function.{name} does not read the old value into a local")
        val = st[0].value
        if new_none:
            okv = isinstance(val, ast.Constant) and val.value is None
            want = "None"
        else:
            okv = affine(val) == {oname: 1, "1": 1}
            want = f"{oname} + 1"
        if okv:
            ctx.ok("F10", f"Function.{name}: new value {want}")
        else:
            ctx.violation("F10", st[0], f"Function.{name} must store `{want}`; found `{norm(val)}`")
        # refusing an already infinite key
        rz = [r for r in C.raises_of(reader) if any(pol and _is_none_test(t, rname, False) for t, pol in C.flatten_guards(C.guards(reader, r)))]
        if rz:
            ctx.ok("F10", f"Function.{name} refuses a key that is already infinite")
        else:
            ctx.violation("F10", f, f"Function.{name} must raise for a key whose value is None (the counts below would be corrupted)", construct=f"{FN}.{name} refuse infinite")
        # histogram
        aug = [n for n in walk_local(f) if isinstance(n, ast.AugAssign)]
        dec = [n for n in aug if isinstance(n.target, ast.Subscript) and norm(n.target.value) == "self._preimage_count" and affine(n.target.slice) == {oname: 1}]
        if len(dec) == 1 and isinstance(dec[0].op, ast.Sub) and affine(dec[0].value) == {"1": 1}:
            ctx.ok("F10", f"Function.{name}: the old value's count decreases by one")
        else:
            ctx.violation("F10", f, f"Function.{name} must decrease self._preimage_count[{oname}] by one (the gap is searched in this histogram)", construct=f"{FN}.{name} old count")
        if new_none:
            inf = [n for n in aug if is_self_attr(n.target, "_infinity_count")]
            if len(inf) == 1 and isinstance(inf[0].op, ast.Add) and affine(inf[0].value) == {"1": 1}:
                ctx.ok("F10", "Function.set_infinite: the infinity count increases by one")
            else:
                ctx.violation("F10", f, "Function.set_infinite must increase self._infinity_count by one", construct=f"{FN}.set_infinite infinity count")
            extra = [n for n in aug if isinstance(n.target, ast.Subscript) and norm(n.target.value) == "self._preimage_count" and n not in dec]
            for n in extra:
                ctx.violation("F10", n, "Function.set_infinite must not touch another entry of the histogram: None is not a finite value")
        else:
            inc = [n for n in aug if isinstance(n.target, ast.Subscript) and norm(n.target.value) == "self._preimage_count" and affine(n.target.slice) == {oname: 1, "1": 1}]
            if len(inc) == 1 and isinstance(inc[0].op, ast.Add) and affine(inc[0].value) == {"1": 1}:
                ctx.ok("F10", "Function.increase_value: the new value's count increases by one")
            else:
                ctx.violation("F10", f, f"Function.increase_value must increase self._preimage_count[{oname} + 1] by one", construct=f"{FN}.increase_value new count")
    # the list is grown only for a key that is beyond it: every call sits in an `except IndexError` handler
    for mm in P.need_class(FN).methods.values():
        for c in _calls(mm.node, "self._increase_list_len"):
            node = c
            where = None
            while node is not None and node is not mm.node:
                par_ = getattr(node, "_parent", None)
                if isinstance(par_, ast.ExceptHandler):
                    where = ("handler", par_)
                    break
                if isinstance(par_, ast.Try):
                    where = ("finally" if any(node is x for x in par_.finalbody) else "else" if any(node is x for x in par_.orelse) else "body", par_)
                    break
                node = par_
            if where is not None and where[0] == "handler" and C.caught(C.handler_names(where[1]), "IndexError"):
                ctx.ok("F10", f"{mm.qualname}: the value list is grown only after an IndexError for that key")
            else:
                ctx.violation("F10", c, f"{mm.qualname}: `{norm(c)}` runs {'in the ' + where[0] + ' part of a try' if where else 'unconditionally'}, also for a key the list already covers: "
                              "key - len + 1 is then zero or negative and the count of value 0 is lowered, which moves the gap")
    # growing the list keeps the histogram in step
    g = P.need_method(FN, "_increase_list_len", own=True)
    ctx.analysed(g)
    f = g.node
    key = [p for p in D.param_names(f) if p != "self"][0]
    ext = _calls(f, "self._value.extend")
    aug = [n for n in walk_local(f) if isinstance(n, ast.AugAssign) and isinstance(n.target, ast.Subscript) and norm(n.target.value) == "self._preimage_count"]
    okg = False
    if len(ext) == 1 and len(aug) == 1 and isinstance(aug[0].op, ast.Add) and affine(aug[0].target.slice) == {}:
        cnt = _value_of(f, aug[0].value)
        if affine(cnt) == {key: 1, "len(self._value)": -1, "1": 1}:
            e = ext[0].args[0] if ext[0].args else None
            if isinstance(e, (ast.GeneratorExp, ast.ListComp)) and isinstance(e.elt, ast.Constant) and e.elt.value == 0 and len(e.generators) == 1:
                rg = e.generators[0].iter
                if isinstance(rg, ast.Call) and norm(rg.func) == "range" and len(rg.args) == 1 and affine(_value_of(f, rg.args[0])) == affine(cnt):
                    okg = True
            elif isinstance(e, ast.BinOp) and isinstance(e.op, ast.Mult) and "[0]" in norm(e):
                okg = True
    if okg:
        ctx.ok("F10", "new keys start at 0 and are counted in the histogram (key - len + 1 of them)")
    else:
        ctx.violation("F10", f, "Function._increase_list_len must add key - len(self._value) + 1 zeros and add as many to self._preimage_count[0]", construct=f"{FN}._increase_list_len")


# ------------------------------------------------------------------ F11: readers
def f11_readers(ctx) -> None:
    P = ctx.P
    m = P.need_method(TM, "is_pumping", own=True)
    ctx.analysed(m)
    p = [x for x in D.param_names(m.node) if x != "self"][0]
    rets = [r for r in C.returns_of(m.node) if r.value is not None]
    if len(rets) == 1 and _is_none_test(rets[0].value, f"self._function[{p}]", False):
        ctx.ok("F11", "is_pumping(label) is `f(label) is None`")
    else:
        ctx.violation("F11", m.node, f"TableMethod.is_pumping must be `self._function[{p}] is None`", construct=f"{TM}.is_pumping")
    s = P.need_method(TM, "stable_subset", own=True)
    rets = [r for r in C.returns_of(s.node) if r.value is not None]
    if len(rets) == 1 and norm(rets[0].value) == "self._function.preimage(None)":
        ctx.ok("F11", "the stable subset is the preimage of infinity")
    else:
        ctx.violation("F11", s.node, "TableMethod.stable_subset must be self._function.preimage(None)", construct=f"{TM}.stable_subset")
    pr = P.need_method(FN, "preimage", own=True)
    vp = [x for x in D.param_names(pr.node) if x != "self"][0]
    rets = [r for r in C.returns_of(pr.node) if r.value is not None]
    okp = False
    for r in rets:
        e = r.value
        if isinstance(e, (ast.GeneratorExp, ast.ListComp)) and len(e.generators) == 1 and norm(e.generators[0].iter) == "enumerate(self._value)" \
                and isinstance(e.generators[0].target, ast.Tuple) and len(e.generators[0].target.elts) == 2:
            k, v = (norm(x) for x in e.generators[0].target.elts)
            ifs = e.generators[0].ifs
            if norm(e.elt) == k and len(ifs) == 1 and norm(ifs[0]) in (f"{v} == {vp}", f"{vp} == {v}", f"{v} is {vp}"):
                okp = True
    if okp:
        ctx.ok("F11", "Function.preimage(value) yields exactly the keys whose value equals it")
    else:
        ctx.violation("F11", pr.node, "Function.preimage must yield the keys k of enumerate(self._value) with value == the requested one", construct=f"{FN}.preimage")
    u = P.need_method(TM, "pumping_subuniverse", own=True)
    ctx.analysed(u)
    f = u.node
    loops = [l for l in walk_local(f) if isinstance(l, ast.For) and norm(l.iter) == "self._rules" and isinstance(l.target, ast.Name)]
    ys = [y for y in C.yields_of(f)]
    if len(loops) != 1 or len(ys) != 1:
        raise AnalysisError("F11: pumping_subuniverse is no longer one loop over self._rules with one yield")
    k = loops[0].target.id
    y = ys[0]
    if not (isinstance(y, ast.Yield) and y.value is not None and norm(y.value) == k):
        ctx.violation("F11", y, f"pumping_subuniverse must yield the recorded key `{k}` itself")
    gs = {(norm(t), pol) for t, pol in C.flatten_guards(C.guards(f, y, within=loops[0]))}
    sets = [n for n, ds in D.definitions(f).items() if any(d[1] is not None and norm(d[1]) in ("set(self.stable_subset())", "set(self._function.preimage(None))") for d in ds)]
    ok_parent = ok_children = False
    for t, pol in gs:
        for sname in sets:
            if pol and t == f"{k}.parent in {sname}":
                ok_parent = True
            if pol and t in (f"{sname}.issuperset({k}.children)", f"all((c in {sname} for c in {k}.children))", f"set({k}.children) <= {sname}", f"set({k}.children).issubset({sname})"):
                ok_children = True
    if ok_parent and ok_children and len(gs) == 2:
        ctx.ok("F11", "the pumping sub-universe = recorded keys whose parent and all children pump")
    else:
        ctx.violation("F11", y, f"a key belongs to the pumping sub-universe iff its parent and all its children are in the stable subset; the yield is guarded by {sorted(gs)}")
    # RuleDBForest asks the table about the label it was given
    db = P.need_method("RuleDBForest", "is_verified", own=True)
    ctx.analysed(db)
    lp = [x for x in D.param_names(db.node) if x != "self"][0]
    rets = [r for r in C.returns_of(db.node) if r.value is not None]
    if len(rets) == 1 and norm(rets[0].value) == f"self.table_method.is_pumping({lp})":
        ctx.ok("F11", "RuleDBForest.is_verified(label) is table_method.is_pumping(label)")
    else:
        ctx.violation("F11", db.node, f"RuleDBForest.is_verified must return self.table_method.is_pumping({lp})", construct="RuleDBForest.is_verified")
    hs = P.need_method("RuleDBForest", "has_specification", own=True)
    ctx.analysed(hs)
    rets = [r for r in C.returns_of(hs.node) if r.value is not None]
    if len(rets) == 1 and norm(rets[0].value) in ("self.is_verified(self.root_label)", "self.table_method.is_pumping(self.root_label)"):
        ctx.ok("F11", "has_specification asks whether the root label pumps")
    else:
        ctx.violation("F11", hs.node, "RuleDBForest.has_specification must be is_verified(self.root_label)", construct="RuleDBForest.has_specification")
    # every key handed to the table comes from forest_key of the rule added (and its reverse forms): E3 of C11
    # who may write the function: only the two wrappers
    for fi in P.all_functions():
        for c in walk_local(fi.node):
            if isinstance(c, ast.Call) and isinstance(c.func, ast.Attribute) and c.func.attr in ("increase_value", "set_infinite") and norm(c.func.value).endswith("_function"):
                if not (fi.cls is not None and fi.cls.name == TM and fi.name in ("_increase_value", "_set_infinite")):
                    ctx.violation("F11", c, f"{fi.qualname} changes the function directly; only TableMethod._increase_value / _set_infinite may, because they make the corrections")
    for fi in P.all_functions():
        if fi.cls is not None and fi.cls.name == FN:
            continue
        for n in walk_local(fi.node):
            if isinstance(n, ast.Attribute) and n.attr in ("_value", "_preimage_count", "_infinity_count") and not (isinstance(n.value, ast.Name) and n.value.id == "self" and fi.cls is not None and fi.cls.name == FN):
                if isinstance(getattr(n, "ctx", None), ast.Store) or isinstance(getattr(n, "_parent", None), (ast.Subscript, ast.Attribute)):
                    ctx.violation("F11", n, f"{fi.qualname} reaches into Function's storage (`{norm(n)}`); values change only through increase_value / set_infinite")


# ------------------------------------------------------------------ F12: the gap search reads the histogram only
def f12_gap_search(ctx) -> None:
    """preimage_gap(length) is the smallest k such that no class has a value in
    [k, k + length - 1]: it is a function of the *current* histogram.  Any other state it
    reads is a cache, and a cache is sound only if every writer of the histogram empties it
    unconditionally (a gap moves when a level fills up as well as when one empties)."""
    P = ctx.P
    m = P.need_method(FN, "preimage_gap", own=True)
    f = m.node
    ctx.analysed(m)
    length = [p for p in D.param_names(f) if p != "self"][0]
    reads = {n.attr for n in walk_local(f) if is_self_attr(n) and n.attr != "_preimage_count"}
    cls = P.need_class(FN)
    for attr in sorted(reads):
        if attr in cls.methods:
            continue
        bad = False
        for mm in cls.methods.values():
            if mm.name in ("__init__", "preimage_gap"):
                continue
            writes = [n for n in walk_local(mm.node) if isinstance(n, (ast.AugAssign, ast.Assign)) and any(
                isinstance(t, ast.Subscript) and norm(t.value) == "self._preimage_count" for t in (n.targets if isinstance(n, ast.Assign) else [n.target]))]
            if not writes:
                continue
            clears = [c for c in walk_local(mm.node) if isinstance(c, ast.Call) and norm(c.func) == f"self.{attr}.clear" and not C.guards(mm.node, c)]
            if not clears:
                bad = True
                ctx.violation("F12", writes[0], f"{mm.qualname} changes the histogram but does not (unconditionally) empty `self.{attr}`, which preimage_gap reads: the gap "
                              "returned is the one of an earlier histogram")
        if not bad:
            ctx.ok("F12", f"cache `self.{attr}` read by preimage_gap is emptied by every writer of the histogram")
    if not reads:
        ctx.ok("F12", "preimage_gap reads nothing but the histogram and its argument")
    # the search itself
    loops = [l for l in walk_local(f) if isinstance(l, ast.For) and norm(l.iter) == "enumerate(self._preimage_count)" and isinstance(l.target, ast.Tuple) and len(l.target.elts) == 2]
    if len(loops) != 1:
        alt = [l for l in walk_local(f) if isinstance(l, ast.For) and isinstance(l.iter, ast.Call) and norm(l.iter.func) == "enumerate" and "_preimage_count" in norm(l.iter)]
        if alt:
            ctx.violation("F12", alt[0].iter, f"preimage_gap scans `{norm(alt[0].iter)[:70]}`, not the whole histogram from level 0: a run of empty levels that starts at the bottom "
                          "is measured short (or the levels are numbered off by one against the sentinel), and the gap is put where finite classes still climb")
            return
        raise AnalysisError("F12: preimage_gap no longer scans enumerate(self._preimage_count)")
    lp = loops[0]
    i, v = (norm(e) for e in lp.target.elts)
    last = None
    for st in walk_local(lp):
        tg, val = PT.assign_value(st)
        if isinstance(tg, ast.Name) and val is not None and norm(val) == i:
            gs = C.flatten_guards(C.guards(f, st, within=lp))
            if any((pol and norm(t) in (f"{v} != 0", f"{v} > 0", f"0 != {v}", f"0 < {v}", v)) or ((not pol) and norm(t) in (f"{v} == 0", f"0 == {v}")) for t, pol in gs):
                last = tg.id
    if last is None:
        ctx.violation("F12", lp, f"preimage_gap must remember the last value `{i}` whose count `{v}` is not zero", construct=f"{FN}.preimage_gap last used value")
        return
    init = [d for d in D.definitions(f).get(last, []) if d[1] is not None and d[0].lineno < lp.lineno]
    if init and affine(init[0][1]) == {"1": -1}:
        ctx.ok("F12", f"the scan starts with {last} = -1 (no value used yet)")
    else:
        ctx.violation("F12", lp, f"`{last}` must start at -1: the gap may begin at value 0", construct=f"{FN}.preimage_gap start")
    exits = [n for n in walk_local(lp) if isinstance(n, (ast.Return, ast.Break))]
    okx = False
    for e in exits:
        for t, pol in C.flatten_guards(C.guards(f, e, within=lp)):
            if pol and isinstance(t, ast.Compare) and len(t.ops) == 1:
                a, b = affine(t.left), affine(t.comparators[0])
                if a is None or b is None:
                    continue
                d = dict(a)
                for k2, v2 in b.items():
                    d[k2] = d.get(k2, 0) - v2
                d = {k2: v2 for k2, v2 in d.items() if v2}
                # i - last - length >= 0  or  > -1 ...
                if isinstance(t.ops[0], ast.GtE) and d == {i: 1, last: -1, length: -1}:
                    okx = True
                if isinstance(t.ops[0], ast.Gt) and d == {i: 1, last: -1, length: -1, "1": 1}:
                    okx = True
                if isinstance(t.ops[0], ast.LtE) and d == {i: -1, last: 1, length: 1}:
                    okx = True
    if okx:
        ctx.ok("F12", f"the scan stops at the first run of {length} unused values ({i} - {last} >= {length})")
    else:
        ctx.violation("F12", lp, f"the scan must stop as soon as `{i} - {last} >= {length}` (a window of {length} values nobody has)", construct=f"{FN}.preimage_gap stop")
    rets = [r for r in C.returns_of(f) if r.value is not None]
    if rets and all(affine(r.value) == {last: 1, "1": 1} or (isinstance(r.value, ast.Subscript) and reads) for r in rets):
        ctx.ok("F12", f"the gap starts right after the last used value ({last} + 1)")
    else:
        ctx.violation("F12", rets[0] if rets else f, f"preimage_gap must return `{last} + 1`", construct=f"{FN}.preimage_gap result")
    neg = [r for r in C.raises_of(f)]
    if neg and any(pol and _gt(t) is None and norm(t) in (f"{length} <= 0", f"{length} < 1", f"0 >= {length}") for r in neg for t, pol in C.flatten_guards(C.guards(f, r))):
        ctx.ok("F12", "a non-positive window length is refused")


# ------------------------------------------------------------------ F13: the database hands every key to the table
def f13_database_insertion(ctx, rule_id: str = "F13", universe: bool = False) -> None:
    """RuleDBForest.add gives the table the key of the rule it is handed (and of its reverse
    forms) on every call: two rules with the same (start, ends) can have different shifts,
    buckets and reverse forms, so 'seen before' by labels is no reason to skip."""
    P = ctx.P
    m = P.need_method("RuleDBForest", "add", own=True)
    f = m.node
    ctx.analysed(m)
    ps = [p for p in D.param_names(f) if p != "self"]
    rule = ps[2] if len(ps) >= 3 else "rule"
    ins = _calls(f, "self.table_method.add_rule_key")
    if len(ins) != 1 or len(ins[0].args) != 1:
        ctx.violation(rule_id, f, "RuleDBForest.add must insert keys through exactly one self.table_method.add_rule_key(<key>) site", construct="RuleDBForest.add insertion")
        return
    c = ins[0]
    loops = [l for l in C.enclosing_loops(f, c) if isinstance(l, ast.For)]
    if not loops or norm(loops[0].target) != norm(c.args[0]):
        raise AnalysisError("F13: RuleDBForest.add no longer inserts its keys from a for loop over the list of new keys")
    lp = loops[0]
    kv = norm(c.args[0])
    harmless = {(f"self.table_method.is_pumping({kv}.parent)", False), (f"self.is_verified({kv}.parent)", False)}
    inner = [(norm(t), pol) for t, pol in _skipping_guards(f, c) if any(x is t or any(y is t for y in ast.walk(x)) for x in ast.walk(lp))]
    if not universe:
        inner = [g for g in inner if g not in harmless]     # a rule for a class that already pumps changes no value
    outer = [(norm(t), pol) for t, pol in _skipping_guards(f, lp)]
    if not inner and not outer:
        ctx.ok(rule_id, "every new key is handed to the table, on every call")
    else:
        ctx.violation(rule_id, c, f"keys reach the table only under {inner + outer}: a rule whose labels were seen before can still have other shifts, another bucket or reverse "
                      "forms, and is lost")
    keys = _value_of(f, lp.iter) if isinstance(lp.iter, ast.Name) else lp.iter
    first = keys.elts[0] if isinstance(keys, ast.List) and keys.elts else None
    if first is not None and isinstance(first, ast.Call) and norm(first.func) == f"{rule}.forest_key":
        ctx.ok(rule_id, f"the list of new keys starts with the forest key of the rule handed in ({rule})")
    else:
        ctx.violation(rule_id, lp, f"the keys inserted must start with {rule}.forest_key(...), the key of the rule handed in; found `{norm(keys)[:80]}`")
