"""
Engine N -- the counting recurrences and the search loop that hands a specification back
-> C01, part of C09.

The counts of a specification are computed level by level from four recurrences
(`get_terms` of the constructors).  Engine S bounds the sizes they ask their providers for,
S0 / M6 establish the index set a product runs over, engine V the statistic names.  What is
left is the shape of each recurrence: which provider is asked at which size, through which
map the parameters go, and whether the value is added, subtracted or multiplied.  These are
short loops; the rules read them with patterns (canonical form, roles, affine normaliser).
"""
from __future__ import annotations

import ast
from typing import List, Optional

from ..core import control as C
from ..core import dataflow as D
from ..core import pattern as PT
from ..core.program import AnalysisError, is_self_attr, norm, walk_local
from .tablemethod import affine

SEARCHER = "CombinatorialSpecificationSearcher"


def _params(f) -> List[str]:
    return [p for p in D.param_names(f) if p not in ("self", "cls")]


def _acc_ops(f, table: str) -> List[ast.AugAssign]:
    return [a for a in walk_local(f) if isinstance(a, ast.AugAssign) and isinstance(a.target, ast.Subscript) and norm(a.target.value) == table]


def n1_union(ctx) -> None:
    P = ctx.P
    m = P.need_method("DisjointUnion", "get_terms", own=True)
    f = m.node
    ctx.analysed(m)
    _pt, sub, n = _params(f)
    pat = PT.find_all(f, f"for _M_ct, _M_pm in zip({sub}, self._children_param_maps):\n    for _M_p, _M_v in _M_ct({n}).items():\n        _M_new[_M_pm(_M_p)] += _M_v")
    if pat:
        ctx.ok("N1", "union: every child's terms at exactly n, re-keyed by that child's map, are added")
        res = pat[0][1]["_M_new"]
        rets = [r for r in C.returns_of(f) if r.value is not None]
        init = [d for d in D.definitions(f).get(res, []) if d[1] is not None]
        if len(rets) == 1 and norm(rets[0].value) == res and init and norm(init[0][1]) in ("Counter()", "collections.Counter()", "defaultdict(int)"):
            ctx.ok("N1", "union: the sum starts empty and is what is returned")
        else:
            ctx.violation("N1", f, "DisjointUnion.get_terms must start from an empty Counter and return it", construct="DisjointUnion.get_terms result")
        extra = [a for a in _acc_ops(f, res) if not isinstance(a.op, ast.Add)]
        for a in extra:
            ctx.violation("N1", a, f"the terms of a union are the *sum* of the children's terms; found `{norm(a)}`")
        if _skips_any(f, pat[0][0]):
            ctx.violation("N1", pat[0][0], "a child's contribution to the union is skipped under a condition")
    else:
        _diagnose_acc(ctx, "N1", m, f"DisjointUnion.get_terms must add, for every (child_terms, param_map) of zip({sub}, self._children_param_maps), every (param, value) of "
                      f"child_terms({n}) under param_map(param)", size_text=n)


def _skips_any(f, node) -> bool:
    return any(not isinstance(getattr(t, "_parent", None), ast.Assert) for t, _p in C.guards(f, node))


def _diagnose_acc(ctx, rule: str, m, msg: str, size_text: str) -> None:
    """Name the deviation when the whole pattern fails: wrong operator, wrong size, or not recognised."""
    f = m.node
    accs = [a for a in walk_local(f) if isinstance(a, ast.AugAssign) and isinstance(a.target, ast.Subscript)]
    plain = [a for a in walk_local(f) if isinstance(a, ast.Assign) and isinstance(a.targets[0], ast.Subscript) and not is_self_attr(a.targets[0].value)]
    ctx.violation(rule, (accs or plain or [f])[0], msg + (f"; found `{norm((accs or plain)[0])[:90]}`" if (accs or plain) else ""))



def _combination_acc(f, providers_text: str, key_fn: str, op, table: Optional[str] = None):
    """In f: the loop `for pairs in <...>.params_value_pairs_combinations(sizes, providers)` and
    the accumulation `T[key_fn(*(p for p, _ in pairs))] op= utils.prod((v for _, v in pairs))`
    inside it.  Returns (loop, aug, ok)."""
    for lp in walk_local(f):
        if not isinstance(lp, ast.For) or not isinstance(lp.iter, ast.Call) or not norm(lp.iter.func).endswith("params_value_pairs_combinations"):
            continue
        if len(lp.iter.args) != 2 or norm(lp.iter.args[1]) != providers_text or not isinstance(lp.target, ast.Name):
            continue
        pairs = lp.target.id
        for a in walk_local(lp):
            if isinstance(a, ast.AugAssign) and isinstance(a.target, ast.Subscript) and (table is None or norm(a.target.value) == table):
                key = D.expanded(f, a.target.slice)
                kok = PT.match(PT.compile_pattern(f"{key_fn}(*(_M_p for _M_p, _A_ in {pairs}))"), key) is not None
                vok = PT.match(PT.compile_pattern(f"utils.prod((_M_v for _A_, _M_v in {pairs}))"), D.expanded(f, a.value)) is not None
                return lp, a, (kok and vok and isinstance(a.op, op) and not _skips_any_within(f, a, lp))
        return lp, None, False
    return None, None, False


def _skips_any_within(f, node, within) -> bool:
    return any(not isinstance(getattr(t, "_parent", None), ast.Assert) for t, _p in C.guards(f, node, within=within))


def n2_product(ctx) -> None:
    P = ctx.P
    m = P.need_method("CartesianProduct", "get_terms", own=True)
    f = m.node
    ctx.analysed(m)
    _pt, sub, n = _params(f)
    lp, aug, ok = _combination_acc(f, sub, "self._new_param", ast.Add)
    if ok:
        ctx.ok("N2", "product: for every composition and every combination of the children's entries, the product of the values is added under _new_param of the parameters")
    else:
        ctx.violation("N2", aug or lp or f, "CartesianProduct.get_terms must add utils.prod of the values of each combination under self._new_param of its parameters"
                      + (f"; found `{norm(aug)[:90]}`" if aug is not None else ""))
    c = P.need_method("CartesianProduct", "params_value_pairs_combinations", own=True)
    ctx.analysed(c)
    sizes, getters = _params(c.node)[:2]
    rets = [r for r in C.returns_of(c.node) if r.value is not None]
    v = D.expanded(c.node, rets[0].value) if len(rets) == 1 else None
    ok = v is not None and any(PT.match(PT.compile_pattern(p), v) is not None for p in (
        f"product(*(_M_c.items() for _M_c in (_M_g(_M_s) for _M_g, _M_s in zip({getters}, {sizes}))))",
        f"product(*(_M_g(_M_s).items() for _M_g, _M_s in zip({getters}, {sizes})))",
        f"itertools.product(*(_M_c.items() for _M_c in (_M_g(_M_s) for _M_g, _M_s in zip({getters}, {sizes}))))"))
    if ok:
        ctx.ok("N2", "combinations = Cartesian product of the items of provider i at size sizes[i]")
    else:
        ctx.violation("N2", c.node, f"params_value_pairs_combinations must be product(*(getter(size).items() for getter, size in zip({getters}, {sizes}))): provider i at size i",
                      construct="CartesianProduct.params_value_pairs_combinations")
    for name, maps in (("_new_param", "self._children_param_maps"),):
        np_ = P.need_method("CartesianProduct", name)
        ctx.analysed(np_)
        a = np_.node.args.vararg.arg if np_.node.args.vararg else None
        rets = [r for r in C.returns_of(np_.node) if r.value is not None]
        v = D.expanded(np_.node, rets[0].value) if len(rets) == 1 and a else None
        if v is not None and PT.match(PT.compile_pattern(f"tuple((sum(_M_vals) for _M_vals in zip(*(_M_pm(_M_p) for _M_pm, _M_p in zip({maps}, {a})))))"), v) is not None:
            ctx.ok("N2", "_new_param: the parent's parameters are the position-wise sums of the children's mapped parameters")
        else:
            ctx.violation("N2", np_.node, f"CartesianProduct.{name} must be tuple(sum(vals) for vals in zip(*(pmap(p) for pmap, p in zip({maps}, children_params))))",
                          construct=f"CartesianProduct.{name}")


def n3_complement(ctx) -> None:
    P = ctx.P
    m = P.need_method("Complement", "get_terms", own=True)
    f = m.node
    ctx.analysed(m)
    _pt, sub, n = _params(f)
    res = None
    for lp0 in f.body:
        if isinstance(lp0, ast.For) and norm(lp0.iter) == f"{sub}[0]({n}).items()" and isinstance(lp0.target, ast.Tuple) and len(lp0.target.elts) == 2:
            p0, v0 = (norm(e) for e in lp0.target.elts)
            for a in walk_local(lp0):
                if isinstance(a, ast.AugAssign) and isinstance(a.target, ast.Subscript) and isinstance(a.op, ast.Add) and norm(a.value) == v0 \
                        and norm(D.expanded(f, a.target.slice)) == f"self._parent_param_map({p0})":
                    # the only thing that may keep a value out is its being zero
                    if C.runs_under(f, a, {v0: True, f"{v0} != 0": True, f"{v0} > 0": True}, within=lp0) is True:
                        res = norm(a.target.value)
    if res is not None:
        ctx.ok("N3", "complement: starts from the original parent's terms at n, mapped to the flipped child's names")
    else:
        _diagnose_acc(ctx, "N3", m, f"Complement.get_terms must first add the terms of {sub}[0]({n}) under self._parent_param_map(param)", size_text=n)
        return
    loops = [l for l in f.body if isinstance(l, ast.For) and PT.match(PT.compile_pattern(f"zip({sub}[1:], self._children_param_maps)"), D.expanded(f, l.iter)) is not None]
    if len(loops) != 1 or not isinstance(loops[0].target, ast.Tuple):
        ctx.violation("N3", f, f"Complement.get_terms must then walk zip({sub}[1:], self._children_param_maps): the other children with their own maps", construct="Complement.get_terms others")
        return
    ct, pm = (norm(e) for e in loops[0].target.elts)
    inner = [l for l in loops[0].body if isinstance(l, ast.For) and norm(l.iter) == f"{ct}({n}).items()" and isinstance(l.target, ast.Tuple)]
    if len(inner) != 1:
        ctx.violation("N3", loops[0], f"each other child must be asked for its terms at exactly {n}: `{ct}({n}).items()`")
        return
    p, v = (norm(e) for e in inner[0].target.elts)
    subs = [a for a in _acc_ops(f, res) if any(a is x for x in ast.walk(inner[0]))]
    key_ok = False
    for a in subs:
        k = D.expanded(f, a.target.slice)
        if norm(k) == f"self._parent_param_map({pm}({p}))" and isinstance(a.op, ast.Sub) and norm(a.value) == v:
            key_ok = True
    if key_ok:
        ctx.ok("N3", "complement: every other child's terms at n are subtracted under parent_map(child_map(param))")
    else:
        ctx.violation("N3", (subs or [inner[0]])[0], f"the other children's terms must be *subtracted* under self._parent_param_map({pm}({p})); found "
                      f"`{norm(subs[0]) if subs else norm(inner[0])[:80]}`")
    rets = [r for r in C.returns_of(f) if r.value is not None]
    if len(rets) == 1 and norm(rets[0].value) == res:
        ctx.ok("N3", "complement: the difference is returned")
    else:
        ctx.violation("N3", f, "Complement.get_terms must return the table it subtracts from", construct="Complement.get_terms return")


def n4_quotient(ctx) -> None:
    P = ctx.P
    q = P.need_class("Quotient")
    a = P.need_method("Quotient", "_a", own=True)
    ctx.analysed(a)
    f = a.node
    n, par, ch = _params(f)
    comp = [c for c in walk_local(f) if isinstance(c, ast.Call) and norm(c.func) in ("utils.compositions", "compositions")]
    if len(comp) != 1 or len(comp[0].args) != 4:
        raise AnalysisError("N4: Quotient._a no longer runs over one utils.compositions(...) call")
    c0 = comp[0]
    tot = affine(c0.args[0])
    mx = D.expanded(f, c0.args[3])
    if tot == {n: 1, "self._parent_shift": 1} and norm(c0.args[1]) == "self.number_of_children" and norm(c0.args[2]) == "self._min_sizes":
        ctx.ok("N4", "quotient A: compositions of n + parent_shift into all the product's factors with their minimum sizes")
    else:
        ctx.violation("N4", c0, f"Quotient._a must run over compositions({n} + self._parent_shift, self.number_of_children, self._min_sizes, ...); found ({', '.join(norm(x) for x in c0.args[:3])})")
    if PT.match(PT.compile_pattern(f"self._max_sizes[:self.idx] + ({n} - 1,) + self._max_sizes[self.idx + 1:]"), mx) is not None:
        ctx.ok("N4", "quotient A: the counted factor is limited to sizes below n (its larger terms are what is being computed)")
    else:
        ctx.violation("N4", c0, f"the maximum sizes in Quotient._a must be self._max_sizes with entry self.idx replaced by {n} - 1; found `{norm(mx)[:90]}`")
    start = []
    for st0 in walk_local(f):
        tg0, v0 = PT.assign_value(st0)
        if not isinstance(tg0, ast.Name) or v0 is None:
            continue
        inner = v0
        copies = 0
        while isinstance(inner, ast.Call) and norm(inner.func) in ("Counter", "dict", "copy", "copy.copy") and len(inner.args) == 1:
            inner = inner.args[0]
            copies += 1
        if copies and isinstance(inner, ast.Call) and norm(inner.func) == par and len(inner.args) == 1 and affine(inner.args[0]) == {n: 1, "self._parent_shift": 1} \
                and norm(v0.func) == "Counter":
            start.append((st0, {"_M_res": tg0.id}))
    if start:
        res = start[0][1]["_M_res"]
        ctx.ok("N4", "quotient A: starts from a copy of the product's terms at n + parent_shift")
        lp, aug, ok = _combination_acc(f, ch, "self._new_param", ast.Sub, table=res)
        if ok:
            ctx.ok("N4", "quotient A: the contribution of every such composition is subtracted")
        else:
            ctx.violation("N4", aug or lp or f, "Quotient._a must subtract utils.prod of the values of each combination under self._new_param of its parameters"
                          + (f"; found `{norm(aug)[:90]}`" if aug is not None else ""))
    else:
        ctx.violation("N4", f, f"Quotient._a must start from Counter({par}({n} + self._parent_shift))", construct="Quotient._a start")
    c = P.need_method("Quotient", "_c", own=True)
    ctx.analysed(c)
    g = c.node
    ch2 = _params(g)[0]
    comp = [x for x in walk_local(g) if isinstance(x, ast.Call) and norm(x.func) in ("utils.compositions", "compositions")]
    if len(comp) != 1 or len(comp[0].args) != 4:
        raise AnalysisError("N4: Quotient._c no longer runs over one utils.compositions(...) call")
    c1 = comp[0]
    mins, maxs = D.expanded(g, c1.args[2]), D.expanded(g, c1.args[3])
    good = (affine(c1.args[0]) == {"self._parent_shift": 1} and affine(c1.args[1]) == {"self.number_of_children": 1, "1": -1}
            and norm(mins) == "self._min_sizes[:self.idx] + self._min_sizes[self.idx + 1:]" and norm(maxs) == "self._max_sizes[:self.idx] + self._max_sizes[self.idx + 1:]")
    if good:
        ctx.ok("N4", "quotient C: compositions of parent_shift into the other factors (the counted one left out of sizes, minima and maxima alike)")
    else:
        ctx.violation("N4", c1, "Quotient._c must run over compositions(self._parent_shift, self.number_of_children - 1, minima without idx, maxima without idx); found "
                      f"({', '.join(norm(D.expanded(g, x))[:50] for x in c1.args)})")
    ok = False
    aug = lp = None
    want_o = f"{ch2}[:self.idx] + {ch2}[self.idx + 1:]"
    for lp0 in walk_local(g):
        if isinstance(lp0, ast.For) and isinstance(lp0.iter, ast.Call) and norm(lp0.iter.func).endswith("params_value_pairs_combinations") and len(lp0.iter.args) == 2 \
                and norm(D.expanded(g, lp0.iter.args[1])) == want_o:
            lp, aug, ok = _combination_acc(g, norm(lp0.iter.args[1]), "self._other_new_param", ast.Add)
    if ok:
        ctx.ok("N4", "quotient C: products of the other factors' values are added under _other_new_param")
    else:
        ctx.violation("N4", aug or lp or g, f"Quotient._c must add utils.prod of the other factors' values ({ch2} without position idx) under self._other_new_param"
                      + (f"; found `{norm(aug)[:90]}`" if aug is not None else ""))
    b = P.need_method("Quotient", "_b", own=True)
    ctx.analysed(b)
    h = b.node
    n2, par2, ch3 = _params(h)
    av = PT.find_all(h, f"_M_a = self._a({n2}, {par2}, {ch3})")
    cv = PT.find_all(h, f"_M_c = self._c({ch3})")
    if av and cv:
        an, cn = av[0][1]["_M_a"], cv[0][1]["_M_c"]
        ap = PT.find_all(h, f"_M_ap = self._terms_to_poly({an})")
        cp = PT.find_all(h, f"_M_cp = self._terms_to_poly({cn})")
        divs = [x for x in walk_local(h) if (isinstance(x, ast.BinOp) and isinstance(x.op, ast.FloorDiv)) or (isinstance(x, ast.Call) and norm(x.func) == "sympy.div")]
        okd = bool(ap and cp and divs)
        for d in divs:
            l, r = (d.left, d.right) if isinstance(d, ast.BinOp) else (d.args[0], d.args[1])
            if not (ap and cp and norm(l) == ap[0][1]["_M_ap"] and norm(r) == cp[0][1]["_M_cp"]):
                okd = False
        # every way out of _b hands back the quotient: a shortcut that returns A (or anything that was not divided) is right
        # only while C is the constant 1, which says nothing about C's exponents (the statistics of the other factors)
        undivided = False
        qnames = {t.id for x in walk_local(h) for t, v in [PT.assign_value(x)] if isinstance(t, ast.Name) and v is not None
                  and any(v is d or any(d is y for y in ast.walk(v)) for d in divs)}
        for x in walk_local(h):
            if isinstance(x, (ast.Assign,)) and isinstance(x.targets[0], ast.Tuple) and any(x.value is d for d in divs):
                qnames |= {e.id for e in x.targets[0].elts[:1] if isinstance(e, ast.Name)}
        for r in C.returns_of(h):
            if r.value is None:
                continue
            src = {y.id for y in ast.walk(D.expanded(h, r.value)) if isinstance(y, ast.Name)}
            if divs and not (src & qnames) and not any(any(d is y for y in ast.walk(r.value)) for d in divs):
                okd = False
                undivided = True
                ctx.violation("N4", r, f"Quotient._b returns `{norm(r.value)[:50]}` on a path that never divides by C: the terms of the counted factor keep the statistics of the "
                              "other factors (the division also subtracts their exponents), so every value lands on the wrong parameters")
        if okd:
            ctx.ok("N4", "quotient: B = A / C (A the dividend, C the divisor), as polynomials")
        elif not undivided:
            ctx.violation("N4", h, "Quotient._b must divide the polynomial of A by the polynomial of C (A // C)", construct="Quotient._b division")
    else:
        ctx.violation("N4", h, f"Quotient._b must compute A = self._a({n2}, {par2}, {ch3}) and C = self._c({ch3})", construct="Quotient._b operands")
    gt = P.need_method("Quotient", "get_terms", own=True)
    ctx.analysed(gt)
    k = gt.node
    pt, sub, n3 = _params(k)
    call = [x for x in walk_local(k) if isinstance(x, ast.Call) and norm(x.func) == "self._b"]
    if call and [norm(D.expanded(k, x)) for x in call[0].args] == [n3, f"{sub}[0]", f"{sub}[1:self.idx + 1] + ({pt},) + {sub}[self.idx + 1:]"]:
        ctx.ok("N4", "quotient: the product's own terms are the first provider, the rule's own terms stand at the counted position among the factors")
    else:
        ctx.violation("N4", k, f"Quotient.get_terms must call self._b({n3}, {sub}[0], {sub}[1:self.idx + 1] + ({pt},) + {sub}[self.idx + 1:])", construct="Quotient.get_terms providers")
    early = [r for r in C.returns_of(k) if r.value is not None and norm(r.value) in ("Counter()", "{}")]
    if early and all(any(p and (affine(t.left) if isinstance(t, ast.Compare) else None) == {n3: 1} and isinstance(t, ast.Compare) and isinstance(t.ops[0], ast.Lt)
                         and norm(t.comparators[0]) == "self._min_sizes[self.idx]" for t, p in C.flatten_guards(C.guards(k, r))) for r in early):
        ctx.ok("N4", "quotient: no terms below the minimum size of the counted factor (its own index)")
    elif early:
        ctx.violation("N4", early[0], f"the early exit of Quotient.get_terms must be `{n3} < self._min_sizes[self.idx]`, the minimum size of the counted factor itself")
    st = [x for x in walk_local(k) if isinstance(x, ast.Assign) and isinstance(x.targets[0], ast.Subscript) and not is_self_attr(x.targets[0].value)]
    if st and all(norm(D.expanded(k, x.targets[0].slice)).startswith("self._parent_param_map(") for x in st):
        ctx.ok("N4", "quotient: the result is re-keyed by the counted child's names")
    else:
        ctx.violation("N4", k, "Quotient.get_terms must store each value under self._parent_param_map(param)", construct="Quotient.get_terms key")


def n5_count_lookup(ctx) -> None:
    P = ctx.P
    m = P.need_method("AbstractRule", "count_objects_of_size", own=True)
    ctx.analysed(m)
    f = m.node
    n = _params(f)[0]
    kw = f.args.kwarg.arg if f.args.kwarg else "parameters"
    rets = [r for r in C.returns_of(f) if r.value is not None]
    v = D.expanded(f, rets[0].value) if len(rets) == 1 else None
    if v is not None and PT.match(PT.compile_pattern(f"self.get_terms({n})[tuple(({kw}[_M_k] for _M_k in self.comb_class.extra_parameters))]"), v) is not None:
        ctx.ok("N5", "a count is the entry of level n for the parameter values in the class's own order")
    else:
        ctx.violation("N5", f, f"count_objects_of_size must be self.get_terms({n})[tuple({kw}[k] for k in self.comb_class.extra_parameters)]", construct="AbstractRule.count_objects_of_size")
    sp = P.need_method("CombinatorialSpecification", "count_objects_of_size", own=True)
    ctx.analysed(sp)
    g = sp.node
    n2 = _params(g)[0]
    kw2 = g.args.kwarg.arg if g.args.kwarg else "parameters"
    rets = [r for r in C.returns_of(g) if r.value is not None]
    good = [r for r in rets if norm(D.expanded(g, r.value)) in (f"self.root_rule.count_objects_of_size({n2}, **{kw2})", f"self.get_rule(self.root).count_objects_of_size({n2}, **{kw2})")]
    if good and len(good) == len(rets):
        ctx.ok("N5", "the specification counts through the rule of its root, with the size and parameters asked for")
    else:
        ctx.violation("N5", g, f"CombinatorialSpecification.count_objects_of_size must return self.root_rule.count_objects_of_size({n2}, **{kw2})",
                      construct="CombinatorialSpecification.count_objects_of_size")
    rr = P.need_method("CombinatorialSpecification", "root_rule", own=True)
    rets = [r for r in C.returns_of(rr.node) if r.value is not None]
    if len(rets) == 1 and norm(rets[0].value) in ("self.rules_dict[self.root]", "self.get_rule(self.root)"):
        ctx.ok("N5", "root_rule is the rule of the root class")
    else:
        ctx.violation("N5", rr.node, "CombinatorialSpecification.root_rule must be self.rules_dict[self.root]", construct="CombinatorialSpecification.root_rule")


def n6_search_loop(ctx) -> None:
    """Rules are handed back only when the database reports a specification, from the same
    database, and turned into a specification rooted at the start class."""
    P = ctx.P
    m = P.need_method(SEARCHER, "_auto_search_rules", own=True)
    f = m.node
    ctx.analysed(m)
    rets = [r for r in C.returns_of(f) if r.value is not None]
    if not rets:
        ctx.violation("N6", f, "_auto_search_rules never returns rules", construct=f"{SEARCHER}._auto_search_rules returns")
    for r in rets:
        v = r.value
        gs = {(norm(t), p) for t, p in C.flatten_guards(C.guards(f, r))}
        if isinstance(v, ast.Call) and norm(v.func) == "self.ruledb.get_specification_rules":
            if ("self.has_specification()", True) in gs or ("self.ruledb.has_specification()", True) in gs:
                ctx.ok("N6", "rules are extracted only after has_specification() said yes in the same iteration")
            else:
                ctx.violation("N6", r, "rules are extracted without `self.has_specification()` holding: the extractor then works on a universe without a specification")
        else:
            ctx.violation("N6", r, f"_auto_search_rules returns `{norm(v)[:80]}`; the rules must come from self.ruledb.get_specification_rules(...)")
    loops = [w for w in walk_local(f) if isinstance(w, ast.While)]
    if len(loops) == 1 and any(isinstance(x, ast.Call) and norm(x.func) == "self._expand_classes_for" for x in walk_local(loops[0])):
        exp = [x for x in walk_local(loops[0]) if isinstance(x, ast.Call) and norm(x.func) == "self._expand_classes_for"][0]
        chk = [x for x in walk_local(loops[0]) if isinstance(x, ast.Call) and norm(x.func) in ("self.has_specification", "self.ruledb.has_specification")]
        if chk and C.followed_by(f, C.stmt_of(exp), chk[0]):
            ctx.ok("N6", "the database is asked after every expansion slice (also the last one, when nothing is left to expand)")
        else:
            ctx.violation("N6", loops[0], "each round must expand and then ask has_specification(): a search that ends by exhaustion must still look at what it found")
    else:
        raise AnalysisError("N6: the expand / search loop of _auto_search_rules is not recognised")
    end = f.body[-1]
    if isinstance(end, ast.Raise) and "SpecificationNotFound" in norm(end):
        ctx.ok("N6", "running out of classes without a specification is SpecificationNotFound")
    else:
        ctx.violation("N6", f, "_auto_search_rules must end by raising SpecificationNotFound", construct=f"{SEARCHER}._auto_search_rules end")
    a = P.need_method(SEARCHER, "auto_search", own=True)
    ctx.analysed(a)
    g = a.node
    mk = [c for c in walk_local(g) if isinstance(c, ast.Call) and norm(c.func) == "CombinatorialSpecification"]
    ok = False
    for c in mk:
        args = [norm(D.expanded(g, x)) for x in c.args]
        if len(args) >= 2 and args[0] == "self.start_class" and args[1].startswith("self._auto_search_rules("):
            ok = True
    if ok:
        ctx.ok("N6", "the specification is built from the start class and the rules of this search")
    else:
        ctx.violation("N6", g, "auto_search must return CombinatorialSpecification(self.start_class, <rules of self._auto_search_rules(...)>)", construct=f"{SEARCHER}.auto_search")
    hs = P.need_method(SEARCHER, "has_specification", own=True)
    rets = [r for r in C.returns_of(hs.node) if r.value is not None]
    if len(rets) == 1 and norm(rets[0].value) == "self.ruledb.has_specification()":
        ctx.ok("N6", "the searcher's has_specification is the database's")
    else:
        ctx.violation("N6", hs.node, "CombinatorialSpecificationSearcher.has_specification must be self.ruledb.has_specification()", construct=f"{SEARCHER}.has_specification")
