"""
Engine V -- variable-namespace discipline (parent statistic names PV vs child statistic
names CV, and the two position spaces) in the constructors and in the derived
constructors of rule.py.  DESIGN.md section 3 (engine V), appendix C.  Used by C09 and C20.

Kinds are assigned *positionally*: iterating `<PV->CV table>.items()` binds (PV, CV)
whatever the loop variables are called; `enumerate(X.extra_parameters)` binds (position,
name) of X's namespace.  Each rule then checks which role is used where.
"""
from __future__ import annotations

import ast
from typing import Dict, List, Optional, Tuple

from ..core import control as C
from ..core import dataflow as D
from ..core.program import AnalysisError, AnchorError, is_self_attr, norm, parent, walk_local

BUILDERS = (
    ("DisjointUnion", "_build_children_param_maps", "self.extra_parameters"),
    ("Complement", "_build_children_param_maps", "self.extra_parameters"),
    ("CartesianProduct", "_build_children_param_map", "extra_parameters"),
)


def _items_loops(node: ast.AST) -> List[Tuple[ast.AST, str, str, str]]:
    """(loop-or-comprehension node, table text, first target, second target) for every
    `for a, b in T.items()` inside node."""
    out = []
    for n in ast.walk(node):
        it = tgt = None
        if isinstance(n, ast.For):
            it, tgt = n.iter, n.target
        elif isinstance(n, ast.comprehension):
            it, tgt = n.iter, n.target
        if it is None:
            continue
        if isinstance(it, ast.Call) and isinstance(it.func, ast.Attribute) and it.func.attr == "items" and not it.args \
                and isinstance(tgt, ast.Tuple) and len(tgt.elts) == 2:
            out.append((n, norm(it.func.value), norm(tgt.elts[0]), norm(tgt.elts[1])))
    return out


# ------------------------------------------------------------------------ V1
def v1_children_map_builders(ctx) -> None:
    P = ctx.P
    for cname, mname, tables in BUILDERS:
        m = P.need_method(cname, mname, own=True)
        f = m.node
        ctx.analysed(m)
        params = m.params()
        # the per-child loop: zip(children[, enumerate], tables)
        outer = [l for l in f.body if isinstance(l, ast.For)]
        if len(outer) != 1:
            raise AnalysisError(f"V1: {m.qualname} no longer has one loop over the children")
        loop = outer[0]
        it = loop.iter
        if not (isinstance(it, ast.Call) and norm(it.func) == "zip" and len(it.args) == 2):
            ctx.violation("V1", loop, f"{m.qualname}: children and their parameter tables must be walked together with zip(children, {tables})")
            continue
        a0, a1 = norm(it.args[0]), norm(it.args[1])
        if a1 != tables or a0 not in ("children", "enumerate(children)"):
            ctx.violation("V1", loop, f"{m.qualname}: pairs `{a0}` with `{a1}`; table i must be paired with child i (zip(children, {tables}))")
            continue
        child_t = loop.target.elts[0]
        child = norm(child_t.elts[1]) if isinstance(child_t, ast.Tuple) else norm(child_t)
        table = norm(loop.target.elts[1])
        ctx.ok("V1", f"{m.qualname}: table i is paired with child i")
        # parent positions
        t = norm(f)
        if "{param: pos for pos, param in enumerate(parent.extra_parameters)}" in t and "len(parent.extra_parameters)" in t:
            ctx.ok("V1", f"{m.qualname}: parent names -> parent positions, count = number of parent parameters")
        else:
            ctx.violation("V1", f, f"{m.qualname}: parent_param_to_pos must map the parent's own parameter names to their positions and the map count "
                          "must be len(parent.extra_parameters)", construct=f"{m.qualname} parent positions")
        # the inverse table: fresh per child, keyed by the child's name, accumulating parent names
        inv_assign = [n for n in walk_local(f) if isinstance(n, (ast.Assign, ast.AnnAssign)) and
                      isinstance(n.value, ast.Call) and norm(n.value.func) == "defaultdict" and n.value.args and norm(n.value.args[0]) == "list"]
        items = [x for x in _items_loops(loop) if x[1] == table]
        if not items:
            ctx.violation("V1", loop, f"{m.qualname}: the child's table is no longer inverted by walking `{table}.items()`")
            continue
        node, _, pv, cv = items[0]
        inv_name = None
        multi = False
        if isinstance(node, ast.For):
            for c in walk_local(node):
                if isinstance(c, ast.Call) and isinstance(c.func, ast.Attribute) and c.func.attr == "append" and isinstance(c.func.value, ast.Subscript):
                    inv_name = norm(c.func.value.value)
                    key, val = norm(c.func.value.slice), norm(c.args[0]) if c.args else "?"
                    multi = True
                    if key == cv and val == pv:
                        ctx.ok("V1", f"{m.qualname}: inverse table is keyed by the child's name and collects every parent name mapped to it")
                    else:
                        ctx.violation("V1", c, f"{m.qualname}: `{norm(c)}` -- the inverse table must be keyed by the child's name (second component of "
                                      f"`{table}.items()`) and collect the parent's names (first component)")
        if not multi:
            ctx.violation("V1", node if isinstance(node, ast.For) else parent(node),
                          f"{m.qualname}: the inverse of the parent->child table is built by overwriting, not by collecting: when several parent "
                          "statistics map onto one child statistic all but one are silently dropped")
            continue
        # fresh per child
        fresh = [n for n in inv_assign if C.stmt_of(n) in loop.body]
        tgt_names = {norm((n.targets[0] if isinstance(n, ast.Assign) else n.target)) for n in inv_assign}
        if inv_name in tgt_names and fresh:
            ctx.ok("V1", f"{m.qualname}: a fresh inverse table per child")
        else:
            ctx.violation("V1", loop, f"{m.qualname}: the inverse table `{inv_name}` is not re-created for each child: names inherited from an earlier child "
                          "leak into the maps of the later ones")
        # child positions -> parent positions, in the order of the child's own parameters
        comp = [n for n in walk_local(loop) if isinstance(n, ast.GeneratorExp) and len(n.generators) == 1
                and norm(n.generators[0].iter) == f"{child}.extra_parameters"]
        okc = False
        for g in comp:
            cp = norm(g.generators[0].target)
            et = norm(g.elt)
            if f"parent_param_to_pos.__getitem__, {inv_name}[{cp}]" in et:
                okc = True
        if okc:
            ctx.ok("V1", f"{m.qualname}: for each position of the child's own parameters, the parent positions of the names mapped onto it")
        else:
            ctx.violation("V1", loop, f"{m.qualname}: child_pos_to_parent_pos must range over {child}.extra_parameters (child positions) and translate "
                          f"`{inv_name}[child name]` through parent_param_to_pos", construct=f"{m.qualname} position table")
        if cname == "Complement":
            conts = [n for n in walk_local(loop) if isinstance(n, ast.Continue)]
            if conts and all(any(t2 in (("idx == self.idx", True), ("self.idx == idx", True)) for t2 in C.guard_texts(f, c)) for c in conts):
                ctx.ok("V1", "Complement: exactly the flipped child has no map (its terms are the ones being computed)")
            else:
                ctx.violation("V1", loop, "Complement._build_children_param_maps must skip exactly the child at self.idx")


# ------------------------------------------------------------------------ V2
def v2_parent_map_builders(ctx) -> None:
    P = ctx.P
    for cname in ("Complement", "Quotient"):
        m = P.need_method(cname, "_build_parent_param_map", own=True)
        f = m.node
        ctx.analysed(m)
        t = norm(f)
        idx_ok = all(x in ("idx", "self.idx") for x in _subs_of(f, "self.extra_parameters") + _subs_of(f, "children"))
        if idx_ok and _subs_of(f, "self.extra_parameters") and _subs_of(f, "children"):
            ctx.ok("V2", f"{cname}._build_parent_param_map: table and class of the same flipped child")
        else:
            ctx.violation("V2", f, f"{cname}._build_parent_param_map must take the table and the class of the same child (the flipped one)",
                          construct=f"{cname}._build_parent_param_map index")
        ok_tab, why = _parent_to_child_table(f)
        if ok_tab:
            ctx.ok("V2", f"{cname}: parent position -> position of the child's name it maps to; count = number of child parameters")
        else:
            ctx.violation("V2", f, f"{cname}._build_parent_param_map: {why}", construct=f"{cname}._build_parent_param_map table")


def _name_to_pos_dict(f, name: str) -> Optional[str]:
    """If `name` is {p: i for i, p in enumerate(X.extra_parameters)} return X."""
    for n in walk_local(f):
        if isinstance(n, (ast.Assign, ast.AnnAssign)):
            tg = n.targets[0] if isinstance(n, ast.Assign) else n.target
            if norm(tg) == name and isinstance(n.value, ast.DictComp) and len(n.value.generators) == 1:
                g = n.value.generators[0]
                if isinstance(g.iter, ast.Call) and norm(g.iter.func) == "enumerate" and len(g.iter.args) == 1 \
                        and isinstance(g.iter.args[0], ast.Attribute) and g.iter.args[0].attr == "extra_parameters" \
                        and isinstance(g.target, ast.Tuple) and len(g.target.elts) == 2 \
                        and norm(n.value.key) == norm(g.target.elts[1]) and norm(n.value.value) == norm(g.target.elts[0]):
                    return norm(g.iter.args[0].value)
    return None


def _parent_to_child_table(f) -> Tuple[bool, str]:
    gens = [n for n in walk_local(f) if isinstance(n, ast.GeneratorExp) and len(n.generators) == 1
            and norm(n.generators[0].iter) == "parent.extra_parameters"]
    if not gens:
        return False, "the table must have one entry per parameter of the parent (generator over parent.extra_parameters)"
    g = gens[0]
    pv = norm(g.generators[0].target)
    elt = g.elt
    if not isinstance(elt, ast.IfExp):
        return False, "an unmapped parent parameter must give an empty entry (conditional on membership in the child's table)"
    test = elt.test
    if not (isinstance(test, ast.Compare) and len(test.ops) == 1 and isinstance(test.ops[0], ast.In) and norm(test.left) == pv):
        return False, f"the entry must be conditional on `{pv} in <table of the flipped child>`"
    table = norm(test.comparators[0])
    body = elt.body
    if not (isinstance(body, ast.Tuple) and len(body.elts) == 1 and isinstance(body.elts[0], ast.Subscript)):
        return False, "a mapped parent parameter must give exactly one child position"
    sub = body.elts[0]
    inner = sub.slice
    if not (isinstance(inner, ast.Subscript) and norm(inner.value) == table and norm(inner.slice) == pv):
        return False, f"the child's name must be looked up as {table}[{pv}] (parent name -> child name)"
    owner = _name_to_pos_dict(f, norm(sub.value))
    if owner is None:
        return False, f"`{norm(sub.value)}` must map the child's own parameter names to their positions"
    empty = elt.orelse
    if not ((isinstance(empty, ast.Tuple) and not empty.elts) or (isinstance(empty, ast.Call) and norm(empty.func) == "tuple" and not empty.args)):
        return False, "an unmapped parent parameter must give the empty tuple"
    rets = [r for r in C.returns_of(f) if r.value is not None and isinstance(r.value, ast.Call)]
    if not rets or len(rets[0].value.args) != 2 or norm(rets[0].value.args[1]) != f"len({owner}.extra_parameters)":
        return False, f"the size of the target namespace must be len({owner}.extra_parameters) (the flipped child's parameters)"
    # the child whose positions are used is the flipped one
    return True, ""


def _subs_of(f, base: str) -> List[str]:
    return [norm(n.slice) for n in walk_local(f) if isinstance(n, ast.Subscript) and norm(n.value) == base]


# ------------------------------------------------------------------------ V3
def v3_map_uses(ctx) -> None:
    P = ctx.P
    # union
    m = P.need_method("DisjointUnion", "get_terms", own=True)
    t = norm(m.node)
    ctx.analysed(m)
    if "zip(subterms, self._children_param_maps)" in t and "new_terms[param_map(param)] += value" in t:
        ctx.ok("V3", "DisjointUnion.get_terms: child i's terms are re-keyed through child i's map")
    else:
        ctx.violation("V3", m.node, "DisjointUnion.get_terms must pair subterms with self._children_param_maps positionally and add each value under param_map(param)",
                      construct="DisjointUnion.get_terms maps")
    # complement
    m = P.need_method("Complement", "get_terms", own=True)
    t = norm(m.node)
    ctx.analysed(m)
    ok = ("subterms[0](n)" in t and "self._parent_param_map(param)" in t and "subterms[1:]" in t
          and "zip(children_terms, self._children_param_maps)" in t and "self._parent_param_map(param_map(param))" in t)
    if ok:
        ctx.ok("V3", "Complement.get_terms: parent terms through the parent map; sibling i (subterms[1:]) through sibling i's map then the parent map")
    else:
        ctx.violation("V3", m.node, "Complement.get_terms must map the original parent's terms with _parent_param_map and each sibling's (subterms[1:], aligned with "
                      "_children_param_maps, which has no entry for the flipped child) with _parent_param_map(param_map(param))", construct="Complement.get_terms maps")
    # products
    for cname in ("CartesianProduct", "Quotient"):
        m = P.need_method(cname, "_new_param", own=True)
        t = norm(m.node)
        ctx.analysed(m)
        if "zip(self._children_param_maps, children_params)" in t and "tuple((sum(vals) for vals in zip(*mapped_params)))" in t:
            ctx.ok("V3", f"{cname}._new_param: child i's parameters through child i's map, summed position-wise")
        else:
            ctx.violation("V3", m.node, f"{cname}._new_param must pair self._children_param_maps with the children's parameters positionally and sum position-wise",
                          construct=f"{cname}._new_param")
    m = P.need_method("Quotient", "_other_new_param", own=True)
    f = m.node
    ctx.analysed(m)
    zips = [c for c in walk_local(f) if isinstance(c, ast.Call) and norm(c.func) == "zip" and len(c.args) == 2 and norm(c.args[1]) == "children_params"]
    good = False
    if zips:
        src = zips[0].args[0]
        if isinstance(src, ast.Name):
            r = D.reaching_value(f, src, src.id)
            src = r[1] if r is not None else src
        st = norm(src)
        good = st in ("(m for i, m in enumerate(self._children_param_maps) if i != self.idx)",
                      "[m for i, m in enumerate(self._children_param_maps) if i != self.idx]",
                      "self._children_param_maps[:self.idx] + self._children_param_maps[self.idx + 1:]")
    if good:
        ctx.ok("V3", "Quotient._other_new_param: the maps of every child except the flipped one, in order")
    else:
        ctx.violation("V3", f, "Quotient._other_new_param must pair the other children's parameters with the maps of every child except exactly self.idx, in order",
                      construct="Quotient._other_new_param maps")
    m = P.need_method("Quotient", "get_terms", own=True)
    if "self._parent_param_map(param)" in norm(m.node):
        ctx.ok("V3", "Quotient.get_terms re-keys the quotient's terms into the flipped child's own parameters")
    else:
        ctx.violation("V3", m.node, "Quotient.get_terms must map each parameter tuple with self._parent_param_map", construct="Quotient.get_terms map")
    # a map applied to positions: child positions index the table, parent positions are written
    for cname in ("Constructor", "DisjointUnion", "Quotient"):
        m = P.need_method(cname, "param_map", own=True)
        t = norm(m.node)
        if "for pos, value in enumerate(param)" in t and "child_pos_to_parent_pos[pos]" in t and "range(num_parent_params)" in t:
            ctx.ok("V3", f"{cname}.param_map reads the table at the source position and writes target positions")
        else:
            ctx.violation("V3", m.node, f"{cname}.param_map must index the table by the source position and size its result by the target count", construct=f"{cname}.param_map")


# ------------------------------------------------------------------------ V4
def v4_parameter_translation(ctx) -> None:
    P = ctx.P
    m = P.need_method("DisjointUnion", "get_extra_parameters", own=True)
    f = m.node
    ctx.analysed(m)
    loops = [l for l in walk_local(f) if isinstance(l, ast.For) and norm(l.iter) == "enumerate(self.extra_parameters)"]
    items = _items_loops(f)
    if not loops or not items:
        raise AnalysisError("V4: DisjointUnion.get_extra_parameters loops not found")
    i = norm(loops[0].target.elts[0])
    _, table, pv, cv = items[0]
    t = norm(f)
    ok = (f"parameters[{pv}]" in t and f"update_params[{cv}]" in t and f"self.fixed_values[{i}]" in t and table == norm(loops[0].target.elts[1]))
    bad = f"parameters[{cv}]" in t or f"update_params[{pv}]" in t
    if ok and not bad:
        ctx.ok("V4", "DisjointUnion.get_extra_parameters: the parent's values are read by parent name and stored under the child's name; fixed values of the same child")
    else:
        ctx.violation("V4", f, "DisjointUnion.get_extra_parameters must read parameters[<parent name>] and write update_params[<child name>] (components of "
                      "table.items() in that order), starting from self.fixed_values of the same child", construct="DisjointUnion.get_extra_parameters")
    m = P.need_method("CartesianProduct", "get_extra_parameters", own=True)
    t = norm(m.node)
    ctx.analysed(m)
    if "zip(child_parameters, self.extra_parameters)" in t and "mapped_k = map_params[k]" in t and "extra_params[mapped_k] = params[k]" in t and "extra_params[mapped_k] != params[k]" in t:
        ctx.ok("V4", "CartesianProduct.get_extra_parameters: child i's values re-keyed through child i's table, contradictions detected")
    else:
        ctx.violation("V4", m.node, "CartesianProduct.get_extra_parameters must pair child_parameters with self.extra_parameters positionally and store params[k] under map_params[k]",
                      construct="CartesianProduct.get_extra_parameters")
    # counts are looked up by the rule's own class's parameter names
    for mname in ("count_objects_of_size", "generate_objects_of_size"):
        m = P.need_method("AbstractRule", mname, own=True)
        if "tuple((parameters[k] for k in self.comb_class.extra_parameters))" in norm(m.node):
            ctx.ok("V4", f"AbstractRule.{mname} indexes by the class's own parameter order")
        else:
            ctx.violation("V4", m.node, f"AbstractRule.{mname} must build the key as tuple(parameters[k] for k in self.comb_class.extra_parameters)", construct=f"AbstractRule.{mname} key")


# ------------------------------------------------------------------------ V6
def v6_derived_constructors(ctx) -> None:
    P = ctx.P
    m = P.need_method("EquivalenceRule", "constructor", own=True)
    f = m.node
    ctx.analysed(m)
    t = norm(f)
    if "original_constructor.extra_parameters[self.child_idx]" in t and "DisjointUnion(self.comb_class, self.children, (original_constructor.extra_parameters[self.child_idx],))" in t:
        ctx.ok("V6", "EquivalenceRule: the union over the single non-empty child uses that child's own table (same index as the child)")
    else:
        ctx.violation("V6", f, "EquivalenceRule.constructor must build DisjointUnion(comb_class, children, (original.extra_parameters[self.child_idx],)) -- the table of the "
                      "very child that is kept", construct="EquivalenceRule.constructor union branch")
    if ("original_original_rule.to_equivalence_rule().child_idx" in t and "original_original_constructor.extra_parameters[original_original_child_idx]" in t
            and "Complement(self.children[0], (self.comb_class,), 0," in t):
        ctx.ok("V6", "EquivalenceRule (reverse): complement of the one-child union, with the table of the kept child of the original rule")
    else:
        ctx.violation("V6", f, "EquivalenceRule.constructor (Complement branch) must be Complement(children[0], (comb_class,), 0, (table of the original rule's kept child,))",
                      construct="EquivalenceRule.constructor complement branch")
    # path composition
    m = P.need_method("EquivalencePathRule", "constructor", own=True)
    f = m.node
    ctx.analysed(m)
    t = norm(f)
    if "{k: k for k in self.comb_class.extra_parameters}" in t:
        ctx.ok("V6", "path: the running map starts as the identity on the first class's parameters")
    else:
        ctx.violation("V6", f, "EquivalencePathRule.constructor must start from the identity on self.comb_class.extra_parameters", construct="EquivalencePathRule.constructor start")
    # inversion exactly for Complement steps
    inv = [n for n in walk_local(f) if isinstance(n, ast.Assign) and isinstance(n.value, ast.DictComp)
           and _is_swap(n.value)]
    if not inv:
        ctx.violation("V6", f, "EquivalencePathRule.constructor no longer inverts the table of a Complement step", construct="EquivalencePathRule.constructor inversion")
    for n in inv:
        gt = C.guard_texts(f, n)
        if ("isinstance(original_constructor, Complement)", True) in gt:
            ctx.ok("V6", "path: a step's table is inverted exactly when the step's constructor is a Complement (its table is written original-parent -> original-child)")
        else:
            ctx.violation("V6", n, f"the step table is inverted under {sorted(gt)} instead of `isinstance(original_constructor, Complement)`: an equivalence form wrapping a "
                          "reverse rule has a Complement constructor without being a ReverseRule, and is then composed in the wrong direction")
        # injectivity refusal precedes
        rs = [r for r in C.raises_of(f) if r.exc is not None and "NotImplementedError" in norm(r.exc)]
        if rs and all(("isinstance(original_constructor, Complement)", True) in C.guard_texts(f, r) for r in rs) and any(C.dominates(f, _top(f, r, n), n) for r in rs):
            ctx.ok("V6", "path: a non-injective Complement table is refused before it is inverted")
        else:
            ctx.violation("V6", n, "a Complement step with duplicate values must be refused (NotImplementedError) before its table is inverted")
    # composition: {first: step[second] for first, second in running.items() if second in step}
    comps = [n for n in walk_local(f) if isinstance(n, ast.DictComp) and not _is_swap(n) and len(n.generators) == 1
             and isinstance(n.generators[0].iter, ast.Call) and norm(n.generators[0].iter.func).endswith(".items")]
    done = False
    for n in comps:
        g = n.generators[0]
        if not (isinstance(g.target, ast.Tuple) and len(g.target.elts) == 2):
            continue
        a, b = norm(g.target.elts[0]), norm(g.target.elts[1])
        running = norm(g.iter.func.value)
        if not isinstance(n.value, ast.Subscript):
            continue
        done = True
        step = norm(n.value.value)
        okk = norm(n.key) == a and norm(n.value.slice) == b
        okf = len(g.ifs) == 1 and norm(g.ifs[0]) == f"{b} in {step}"
        if okk and okf:
            ctx.ok("V6", f"path: composition keeps the first class's name and looks the current name up in the step table ({{{a}: {step}[{b}] ... if {b} in {step}}})")
        else:
            ctx.violation("V6", n, f"composition `{norm(n)[:110]}`: the running map {running} sends first-class names to current names; the step table is keyed by "
                          f"current names, so both the lookup and the filter must use the current name `{b}` (and the key the first-class name `{a}`)")
    if not done:
        ctx.violation("V6", f, "EquivalencePathRule.constructor no longer composes the running map with each step's table", construct="EquivalencePathRule.constructor composition")
    if "for k in self.children[0].extra_parameters if k not in extra_parameters.values()" in t and "DisjointUnion(self.comb_class, self.children, (extra_parameters,), (fixed_values,))" in t:
        ctx.ok("V6", "path: parameters of the last class that nothing maps onto are fixed to 0")
    else:
        ctx.violation("V6", f, "EquivalencePathRule.constructor must fix to 0 the last class's parameters outside the image of the composed map and build "
                      "DisjointUnion(comb_class, children, (map,), (fixed,))", construct="EquivalencePathRule.constructor fixed values")
    if "rules_parameters = original_constructor.extra_parameters[0]" in t:
        ctx.ok("V6", "path: each (one-child) step contributes the table of its only child")
    else:
        ctx.violation("V6", f, "each step must contribute original_constructor.extra_parameters[0]", construct="EquivalencePathRule.constructor step table")


def _is_swap(dc: ast.DictComp) -> bool:
    if len(dc.generators) != 1:
        return False
    g = dc.generators[0]
    if not (isinstance(g.target, ast.Tuple) and len(g.target.elts) == 2):
        return False
    a, b = norm(g.target.elts[0]), norm(g.target.elts[1])
    return norm(dc.key) == b and norm(dc.value) == a


def _top(f, r, other):
    from .labelkind import _top_stmt_under
    return _top_stmt_under(f, C.stmt_of(r), other)


# ------------------------------------------------------------------------ V5 (C20)
def v5_equations(ctx) -> None:
    P = ctx.P
    # union: multi-valued substitution child -> product of parent variables
    m = P.need_method("DisjointUnion", "get_equation", own=True)
    f = m.node
    ctx.analysed(m)
    loops = [l for l in walk_local(f) if isinstance(l, ast.For) and isinstance(l.iter, ast.Call) and norm(l.iter.func) == "zip"]
    if not loops:
        raise AnalysisError("V5: DisjointUnion.get_equation no longer zips functions with tables")
    za = sorted(norm(a) for a in loops[0].iter.args)
    if za == ["rhs_funcs", "self.extra_parameters"]:
        ctx.ok("V5", "DisjointUnion.get_equation: child i's function with child i's table")
    else:
        ctx.violation("V5", loops[0], f"DisjointUnion.get_equation pairs {za}; function i must be paired with table i")
    _multi_valued_substitution(ctx, f, loops[0], "DisjointUnion.get_equation")
    _subs_calls(ctx, f, "DisjointUnion.get_equation")
    # product
    m = P.need_method("CartesianProduct", "get_equation", own=True)
    f = m.node
    ctx.analysed(m)
    loops = [l for l in walk_local(f) if isinstance(l, ast.For) and isinstance(l.iter, ast.Call) and norm(l.iter.func) == "zip"]
    if loops and sorted(norm(a) for a in loops[0].iter.args) == ["rhs_funcs", "self.extra_parameters"]:
        ctx.ok("V5", "CartesianProduct.get_equation: child i's function with child i's table")
    else:
        ctx.violation("V5", f, "CartesianProduct.get_equation must pair rhs_funcs with self.extra_parameters positionally", construct="CartesianProduct.get_equation zip")
    if loops:
        _multi_valued_substitution(ctx, f, loops[0], "CartesianProduct.get_equation")
    _subs_calls(ctx, f, "CartesianProduct.get_equation")
    # constructors that cannot express parameters refuse
    for cname in ("Complement", "Quotient"):
        m = P.need_method(cname, "get_equation", own=True)
        rs = [r for r in C.raises_of(m.node) if r.exc is not None and "NotImplementedError" in norm(r.exc)]
        if rs and all(("any(self.extra_parameters)", True) in C.guard_texts(m.node, r) for r in rs) and m.node.body and \
                all(C.dominates(m.node, _top(m.node, rs[0], x), x) for x in C.returns_of(m.node)):
            ctx.ok("V5", f"{cname}.get_equation refuses (NotImplementedError) as soon as any child has parameters")
        else:
            ctx.violation("V5", m.node, f"{cname}.get_equation must raise NotImplementedError under any(self.extra_parameters) before building the unparameterised equation",
                          construct=f"{cname}.get_equation refusal")
    # the only fallback of a reverse rule: the original rule's equation, on NotImplementedError only
    m = P.need_method("ReverseRule", "get_equation", own=True)
    f = m.node
    ctx.analysed(m)
    tries = [n for n in walk_local(f) if isinstance(n, ast.Try)]
    okr = False
    if len(tries) == 1 and len(tries[0].handlers) == 1:
        h = tries[0].handlers[0]
        okr = (C.handler_names(h) == {"NotImplementedError"} and "super().get_equation(get_function)" in norm(tries[0])
               and len(h.body) == 1 and norm(h.body[0]) == "return self.original_rule.get_equation(get_function)")
    if okr:
        ctx.ok("V5", "ReverseRule.get_equation falls back only on NotImplementedError and only to the original rule's (true) equation")
    else:
        ctx.violation("V5", f, "ReverseRule.get_equation may fall back only on NotImplementedError and only to self.original_rule.get_equation(get_function)",
                      construct="ReverseRule.get_equation fallback")
    # Rule.get_equation: functions aligned with children
    m = P.need_method("Rule", "get_equation", own=True)
    f = m.node
    t = norm(f)
    from . import provenance as PV
    rets = C.returns_of(f)
    okq = False
    if len(rets) == 1 and isinstance(rets[0].value, ast.Call) and norm(rets[0].value.func) == "self.constructor.get_equation" and len(rets[0].value.args) == 2:
        a0, a1 = rets[0].value.args
        l0 = PV.rv(f, a0)
        okq = norm(l0) == "get_function(self.comb_class)" and PV.aligned_image(f, a1, {"self.children"}, fn_suffix="get_function")
    if okq:
        ctx.ok("V5", "Rule.get_equation: lhs is the function of the rule's class, rhs functions are those of its children, in order")
    else:
        ctx.violation("V5", f, "Rule.get_equation must call constructor.get_equation(get_function(self.comb_class), <get_function over self.children, in order>)",
                      construct="Rule.get_equation")
    # verification rules substitute the placeholder by the class's own function
    m = P.need_method("VerificationRule", "get_equation", own=True)
    t = norm(m.node)
    if "lhs_func = get_function(self.comb_class)" in t and ".subs({var('F'): lhs_func})" in t and "Eq(lhs_func," in t:
        ctx.ok("V5", "VerificationRule.get_equation: F is replaced by the class's own function")
    else:
        ctx.violation("V5", m.node, "VerificationRule.get_equation must be Eq(lhs, genf.subs({var('F'): lhs})) with lhs = get_function(self.comb_class)",
                      construct="VerificationRule.get_equation")
    # the specification never omits a class
    m = P.need_method("CombinatorialSpecification", "get_equations", own=True)
    f = m.node
    ctx.analysed(m)
    hs = [h for n in walk_local(f) if isinstance(n, ast.Try) for h in n.handlers]
    okp = any(C.handler_names(h) == {"NotImplementedError"} and any(isinstance(x, ast.Yield) and "NOTIMPLEMENTED" in norm(x) for x in ast.walk(h)) for h in hs)
    if okp:
        ctx.ok("V5", "get_equations replaces a rule it cannot express by the NOTIMPLEMENTED placeholder (no class is silently omitted)")
    else:
        ctx.violation("V5", f, "get_equations must yield the NOTIMPLEMENTED placeholder for a rule whose equation is not implemented", construct="CombinatorialSpecification.get_equations placeholder")
    loops = [l for l in walk_local(f) if isinstance(l, ast.For) and "self.rules_dict.items()" in norm(l.iter)]
    if loops:
        ctx.ok("V5", "get_equations emits one equation per rule of the specification")
    else:
        ctx.violation("V5", f, "get_equations must walk every rule of the specification", construct="CombinatorialSpecification.get_equations loop")



def _multi_valued_substitution(ctx, f, loop_zip, where: str) -> None:
    """Inside the per-child loop: the substitution for a child variable is the product of
    all parent variables mapped onto it."""
    items = _items_loops(loop_zip)
    if not items:
        ctx.violation("V5", f, f"{where} no longer walks the table's items", construct=f"{where} items")
        return
    node, table, pv, cv = items[0]
    if not isinstance(node, ast.For):
        ctx.violation("V5", parent(node), f"{where}: the substitution table is built by a comprehension {{child: parent ...}}, which keeps only one parent "
                      "variable per child variable; when several parent statistics map onto one child statistic the substitute must be their *product* "
                      "(the counting code does credit all of them)")
        return
    t = norm(node)
    form_a = f"subs[{cv}] *= sympy.var({pv})" in t and f"subs[{cv}] = sympy.var({pv})" in t and f"{cv} in subs" in t
    form_b = f"subs[{cv}] = subs.get({cv}, 1) * sympy.var({pv})" in t or f"subs[{cv}] = sympy.var({pv}) * subs.get({cv}, 1)" in t
    swapped = f"subs[{pv}]" in t
    if (form_a or form_b) and not swapped:
        ctx.ok("V5", f"{where}: the child's variable is replaced by the product of all parent variables mapped onto it")
    elif swapped:
        ctx.violation("V5", node, f"{where}: the substitution is keyed by the parent's variable; the child's function is written in the child's variables, "
                      "which must be replaced by the parent's")
    else:
        ctx.violation("V5", node, f"{where}: the substitution for a child variable must accumulate the product of the parent variables mapped onto it "
                      f"(subs[{cv}] *= var({pv}) when already present)")


def _subs_calls(ctx, f, where: str) -> None:
    calls = [c for c in walk_local(f) if isinstance(c, ast.Call) and isinstance(c.func, ast.Attribute) and c.func.attr == "subs"]
    if not calls:
        ctx.violation("V5", f, f"{where} no longer substitutes the child's variables", construct=f"{where} subs")
    for c in calls:
        kw = {k.arg: norm(k.value) for k in c.keywords}
        if kw.get("simultaneous") == "True":
            ctx.ok("V5", f"{where}: substitution is simultaneous (parent and child may reuse names in permuted roles)")
        else:
            ctx.violation("V5", c, f"{where}: `.subs(...)` without simultaneous=True substitutes sequentially; when parent and child names overlap in shifted or "
                          "permuted roles a variable is rewritten twice and the equation is false")


# ------------------------------------------------------------------------ V7
def v7_zeroes(ctx) -> None:
    """DisjointUnion.zeroes[i] = parent statistics that child i does not track: a set of
    *parent* names (parent.extra_parameters minus the keys of child i's table), consulted
    with parent names."""
    P = ctx.P
    init = P.need_method("DisjointUnion", "__init__", own=True)
    f = init.node
    ctx.analysed(init)
    assigns = [n for n in walk_local(f) if isinstance(n, ast.Assign) and any(is_self_attr(t, "zeroes") for t in n.targets)]
    if len(assigns) != 1:
        raise AnalysisError("V7: DisjointUnion.__init__ no longer sets self.zeroes once")
    v = assigns[0].value
    gens = [g for g in ast.walk(v) if isinstance(g, ast.GeneratorExp)]
    ok = False
    why = "zeroes must be, for each child's table, the parent's parameter names minus the table's keys"
    if gens and len(gens[0].generators) == 1 and norm(gens[0].generators[0].iter) == "self.extra_parameters":
        tb = norm(gens[0].generators[0].target)
        e = gens[0].elt
        if isinstance(e, ast.BinOp) and isinstance(e.op, ast.Sub):
            l, r = norm(e.left), norm(e.right)
            ok_l = l in ("frozenset(parent.extra_parameters)", "set(parent.extra_parameters)")
            ok_r = r in (f"frozenset({tb}.keys())", f"set({tb}.keys())", f"frozenset({tb})", f"set({tb})", f"{tb}.keys()")
            ok = ok_l and ok_r
            if ok_l and not ok_r:
                why = (f"the names subtracted are `{r}`: the table maps parent names (keys) to child names (values), and zeroes is a set of "
                       "parent names -- subtracting the child's names marks tracked statistics as untracked whenever the names differ")
    if ok:
        ctx.ok("V7", "DisjointUnion.zeroes[i] = parent parameter names not among the keys (parent names) of child i's table")
    else:
        ctx.violation("V7", assigns[0], why)
    m = P.need_method("DisjointUnion", "random_sample_sub_objects", own=True)
    t = norm(m.node)
    if "k in self.zeroes[idx] for k, val in parameters.items()" in t and "val != 0" in t:
        ctx.ok("V7", "the walk skips child i when a parent statistic it does not track is non-zero (looked up by parent name)")
    else:
        uses = [n for n in walk_local(m.node) if isinstance(n, ast.Attribute) and n.attr == "zeroes"]
        if not uses:
            ctx.violation("V7", m.node, "the union walk no longer skips children that cannot carry a non-zero value of an untracked parent statistic",
                          construct="DisjointUnion.random_sample_sub_objects zeroes")
        else:
            ctx.note("DisjointUnion.random_sample_sub_objects consults zeroes in another form (not judged)")
