"""
Engine V -- variable-namespace discipline (parent statistic names PV vs child statistic
names CV, and the two position spaces) in the constructors and in the derived
constructors of rule.py.  DESIGN.md section 3 (engine V).  Used by C09, C20, C07, C08.

Kinds are assigned *positionally*: iterating `<PV->CV table>.items()` binds (PV, CV)
whatever the loop variables are called; `enumerate(X.extra_parameters)` binds (position,
name).  Local variables are never referred to by name: rules use structural patterns with
metavariables (core/pattern.py) and bind locals through their role.
"""
from __future__ import annotations

import ast
from typing import Dict, List, Optional, Tuple

from ..core import control as C
from ..core import dataflow as D
from ..core import pattern as PT
from ..core.program import AnalysisError, AnchorError, is_self_attr, norm, parent, walk_local

BUILDERS = (
    ("DisjointUnion", "_build_children_param_maps", "self.extra_parameters"),
    ("Complement", "_build_children_param_maps", "self.extra_parameters"),
    ("CartesianProduct", "_build_children_param_map", "extra_parameters"),
)


def _items_loops(node: ast.AST) -> List[Tuple[ast.AST, str, str, str]]:
    """(loop-or-comprehension node, table text, first target, second target) for every
    `for a, b in T.items()` inside node."""
    out = []
    for n in ast.walk(node):
        it = tgt = None
        if isinstance(n, ast.For):
            it, tgt = n.iter, n.target
        elif isinstance(n, ast.comprehension):
            it, tgt = n.iter, n.target
        if it is None:
            continue
        if isinstance(it, ast.Call) and isinstance(it.func, ast.Attribute) and it.func.attr == "items" and not it.args \
                and isinstance(tgt, ast.Tuple) and len(tgt.elts) == 2:
            out.append((n, norm(it.func.value), norm(tgt.elts[0]), norm(tgt.elts[1])))
    return out


def _resolved(f, e: ast.AST) -> ast.AST:
    for _ in range(5):
        if isinstance(e, ast.Name) and parent(e) is not None:
            r = D.reaching_value(f, e, e.id)
            if r is None:
                return e
            e = r[1]
        else:
            return e
    return e


def _assigned_name(node: ast.AST) -> Optional[str]:
    """Name a value expression is (directly) assigned to."""
    p = parent(node)
    t, v = PT.assign_value(p) if p is not None else (None, None)
    if v is node and isinstance(t, ast.Name):
        return t.id
    return None


# ------------------------------------------------------------------------ V1
def v1_children_map_builders(ctx) -> None:
    P = ctx.P
    for cname, mname, tables in BUILDERS:
        m = P.need_method(cname, mname, own=True)
        f = m.node
        ctx.analysed(m)
        outer = [l for l in f.body if isinstance(l, ast.For)]
        if len(outer) != 1:
            raise AnalysisError(f"V1: {m.qualname} no longer has one loop over the children")
        loop = outer[0]
        it = loop.iter
        if not (isinstance(it, ast.Call) and norm(it.func) == "zip" and len(it.args) == 2):
            ctx.violation("V1", loop, f"{m.qualname}: children and their parameter tables must be walked together with zip(children, {tables})")
            continue
        a0, a1 = norm(it.args[0]), norm(it.args[1])
        if a1 != tables or a0 not in ("children", "enumerate(children)"):
            ctx.violation("V1", loop, f"{m.qualname}: pairs `{a0}` with `{a1}`; table i must be paired with child i (zip(children, {tables}))")
            continue
        child_t = loop.target.elts[0]
        child = norm(child_t.elts[1]) if isinstance(child_t, ast.Tuple) else norm(child_t)
        idx_var = norm(child_t.elts[0]) if isinstance(child_t, ast.Tuple) else None
        table = norm(loop.target.elts[1])
        ctx.ok("V1", f"{m.qualname}: table i is paired with child i")
        # parent names -> parent positions
        pp = PT.find_all(f, "{_M_a: _M_b for _M_b, _M_a in enumerate(parent.extra_parameters)}")
        ppos = _assigned_name(pp[0][0]) if pp else None
        # the call that builds the map: (table, count)
        builds = [c for c in walk_local(f) if isinstance(c, ast.Call) and isinstance(c.func, ast.Attribute) and c.func.attr == "build_param_map" and len(c.args) == 2]
        cnt_ok = bool(builds) and all(norm(_resolved(f, c.args[1])) == "len(parent.extra_parameters)" for c in builds)
        if ppos and cnt_ok:
            ctx.ok("V1", f"{m.qualname}: parent names -> parent positions, count = number of parent parameters")
        else:
            ctx.violation("V1", f, f"{m.qualname}: the map must be built from a {{parent name: position}} table over parent.extra_parameters and sized "
                          "len(parent.extra_parameters)", construct=f"{m.qualname} parent positions")
            continue
        # the inverse table: fresh per child, keyed by the child's name, collecting parent names
        items = [x for x in _items_loops(loop) if x[1] == table]
        if not items:
            ctx.violation("V1", loop, f"{m.qualname}: the child's table is no longer inverted by walking `{table}.items()`")
            continue
        node, _, pv, cv = items[0]
        inv_name = None
        if isinstance(node, ast.For):
            for c in walk_local(node):
                if isinstance(c, ast.Call) and isinstance(c.func, ast.Attribute) and c.func.attr == "append" and isinstance(c.func.value, ast.Subscript) \
                        and isinstance(c.func.value.value, ast.Name) and c.args:
                    inv_name = c.func.value.value.id
                    key, val = norm(c.func.value.slice), norm(c.args[0])
                    if key == cv and val == pv:
                        ctx.ok("V1", f"{m.qualname}: inverse table is keyed by the child's name and collects every parent name mapped to it")
                    else:
                        ctx.violation("V1", c, f"{m.qualname}: `{norm(c)}` -- the inverse table must be keyed by the child's name (second component of "
                                      f"`{table}.items()`) and collect the parent's names (first component)")
        if inv_name is None:
            ctx.violation("V1", node if isinstance(node, ast.For) else parent(node),
                          f"{m.qualname}: the inverse of the parent->child table is built by overwriting, not by collecting: when several parent "
                          "statistics map onto one child statistic all but one are silently dropped")
            continue
        fresh = [st for st in loop.body if isinstance(st, (ast.Assign, ast.AnnAssign)) and PT.assign_value(st)[0] is not None
                 and norm(PT.assign_value(st)[0]) == inv_name and PT.assign_value(st)[1] is not None
                 and norm(PT.assign_value(st)[1]) in ("defaultdict(list)", "collections.defaultdict(list)")]
        if fresh:
            ctx.ok("V1", f"{m.qualname}: a fresh inverse table per child")
        else:
            ctx.violation("V1", loop, f"{m.qualname}: the inverse table `{inv_name}` is not re-created (defaultdict(list)) for each child: names inherited "
                          "from an earlier child leak into the maps of the later ones")
        # child positions -> parent positions, in the order of the child's own parameters
        okc = False
        for g in walk_local(loop):
            if isinstance(g, ast.GeneratorExp) and len(g.generators) == 1 and norm(g.generators[0].iter) == f"{child}.extra_parameters":
                cp = norm(g.generators[0].target)
                if PT.find_all(g.elt, "map(_M_pp.__getitem__, _M_inv[_M_cp])", {"_M_pp": ppos, "_M_inv": inv_name, "_M_cp": cp}, local=False) or \
                        PT.find_all(g.elt, "(_M_pp[_M_x] for _M_x in _M_inv[_M_cp])", {"_M_pp": ppos, "_M_inv": inv_name, "_M_cp": cp}, local=False):
                    okc = True
        if okc:
            ctx.ok("V1", f"{m.qualname}: for each position of the child's own parameters, the parent positions of the names mapped onto it")
        else:
            ctx.violation("V1", loop, f"{m.qualname}: the position table must range over {child}.extra_parameters (child positions) and translate "
                          f"`{inv_name}[child name]` through the parent's name->position table", construct=f"{m.qualname} position table")
        if cname == "Complement":
            conts = [n for n in walk_local(loop) if isinstance(n, ast.Continue)]
            want = {(f"{idx_var} == self.idx", True), (f"self.idx == {idx_var}", True)}
            if idx_var and conts and all(C.guard_texts(f, c) & want for c in conts):
                ctx.ok("V1", "Complement: exactly the flipped child has no map (its terms are the ones being computed)")
            else:
                ctx.violation("V1", loop, "Complement._build_children_param_maps must skip exactly the child at self.idx")


# ------------------------------------------------------------------------ V2
def v2_parent_map_builders(ctx) -> None:
    P = ctx.P
    for cname in ("Complement", "Quotient"):
        m = P.need_method(cname, "_build_parent_param_map", own=True)
        f = m.node
        ctx.analysed(m)
        idx_ok = all(x in ("idx", "self.idx") for x in _subs_of(f, "self.extra_parameters") + _subs_of(f, "children"))
        if idx_ok and _subs_of(f, "self.extra_parameters") and _subs_of(f, "children"):
            ctx.ok("V2", f"{cname}._build_parent_param_map: table and class of the same flipped child")
        else:
            ctx.violation("V2", f, f"{cname}._build_parent_param_map must take the table and the class of the same child (the flipped one)",
                          construct=f"{cname}._build_parent_param_map index")
        ok_tab, why = _parent_to_child_table(f)
        if ok_tab:
            ctx.ok("V2", f"{cname}: parent position -> position of the child's name it maps to; count = number of child parameters")
        else:
            ctx.violation("V2", f, f"{cname}._build_parent_param_map: {why}", construct=f"{cname}._build_parent_param_map table")


def _name_to_pos_dict(f, name: str) -> Optional[str]:
    """If `name` is {p: i for i, p in enumerate(X.extra_parameters)} return text of X."""
    for n, b in PT.find_all(f, "{_M_a: _M_b for _M_b, _M_a in enumerate(_E_owner.extra_parameters)}"):
        if _assigned_name(n) == name:
            return b["_E_owner"]
    return None


def _parent_to_child_table(f) -> Tuple[bool, str]:
    gens = [n for n in walk_local(f) if isinstance(n, ast.GeneratorExp) and len(n.generators) == 1
            and norm(n.generators[0].iter) == "parent.extra_parameters"]
    if not gens:
        return False, "the table must have one entry per parameter of the parent (generator over parent.extra_parameters)"
    g = gens[0]
    pv = norm(g.generators[0].target)
    elt = g.elt
    if not isinstance(elt, ast.IfExp):
        return False, "an unmapped parent parameter must give an empty entry (conditional on membership in the child's table)"
    test = elt.test
    if not (isinstance(test, ast.Compare) and len(test.ops) == 1 and isinstance(test.ops[0], ast.In) and norm(test.left) == pv):
        return False, f"the entry must be conditional on `{pv} in <table of the flipped child>`"
    table = norm(test.comparators[0])
    tsrc = _resolved(f, test.comparators[0])
    if not (isinstance(tsrc, ast.Subscript) and norm(tsrc.value) == "self.extra_parameters"):
        return False, "the table consulted must be the flipped child's own table (self.extra_parameters[idx])"
    body = elt.body
    if not (isinstance(body, ast.Tuple) and len(body.elts) == 1 and isinstance(body.elts[0], ast.Subscript)):
        return False, "a mapped parent parameter must give exactly one child position"
    sub = body.elts[0]
    inner = sub.slice
    if not (isinstance(inner, ast.Subscript) and norm(inner.value) == table and norm(inner.slice) == pv):
        return False, f"the child's name must be looked up as {table}[{pv}] (parent name -> child name)"
    owner = _name_to_pos_dict(f, norm(sub.value))
    if owner is None:
        return False, f"`{norm(sub.value)}` must map the child's own parameter names to their positions"
    osrc = D.expanded(f, ast.parse(owner, mode="eval").body)
    if not (isinstance(osrc, ast.Subscript) and norm(osrc.value) == "children"):
        return False, "the class whose positions are used must be the flipped child (children[idx])"
    empty = elt.orelse
    if not ((isinstance(empty, ast.Tuple) and not empty.elts) or (isinstance(empty, ast.Call) and norm(empty.func) == "tuple" and not empty.args)):
        return False, "an unmapped parent parameter must give the empty tuple"
    rets = [r for r in C.returns_of(f) if r.value is not None and isinstance(r.value, ast.Call)]
    if not rets or len(rets[0].value.args) != 2 or norm(D.expanded(f, rets[0].value.args[1])) != norm(D.expanded(f, ast.parse(f"len({owner}.extra_parameters)", mode="eval").body)):
        return False, f"the size of the target namespace must be len({owner}.extra_parameters) (the flipped child's parameters)"
    return True, ""


def _subs_of(f, base: str) -> List[str]:
    return [norm(n.slice) for n in walk_local(f) if isinstance(n, ast.Subscript) and norm(n.value) == base]


# ------------------------------------------------------------------------ V3
def _zip_loops(f, want: set) -> List[ast.For]:
    out = []
    for l in walk_local(f):
        if isinstance(l, ast.For) and isinstance(l.iter, ast.Call) and norm(l.iter.func) == "zip" and len(l.iter.args) == 2 \
                and isinstance(l.target, ast.Tuple) and len(l.target.elts) == 2:
            args = {norm(_resolved(f, a)) for a in l.iter.args}
            if args == want:
                out.append(l)
    return out


def _zip_roles(f, loop: ast.For, first_text: str) -> Tuple[str, str]:
    """Names of the loop targets bound to (the argument whose resolved text is first_text,
    the other one)."""
    a = [norm(_resolved(f, x)) for x in loop.iter.args]
    t = [norm(x) for x in loop.target.elts]
    i = a.index(first_text)
    return t[i], t[1 - i]


def v3_map_uses(ctx) -> None:
    P = ctx.P
    # union
    m = P.need_method("DisjointUnion", "get_terms", own=True)
    f = m.node
    ctx.analysed(m)
    loops = _zip_loops(f, {"subterms", "self._children_param_maps"})
    ok = False
    if loops:
        ct, pm = _zip_roles(f, loops[0], "subterms")
        ok = PT.has(loops[0], "for _M_p, _M_v in _M_ct(n).items():\n    _M_T[_M_pm(_M_p)] += _M_v", {"_M_ct": ct, "_M_pm": pm})
    if ok:
        ctx.ok("V3", "DisjointUnion.get_terms: child i's terms are re-keyed through child i's map")
    else:
        ctx.violation("V3", f, "DisjointUnion.get_terms must pair subterms with self._children_param_maps positionally and add each value under map_i(param)",
                      construct="DisjointUnion.get_terms maps")
    # complement
    m = P.need_method("Complement", "get_terms", own=True)
    f = m.node
    ctx.analysed(m)
    ok_parent = bool(PT.find_all(f, "subterms[0](n)")) and bool(PT.find_all(f, "_M_T[self._parent_param_map(_M_p)] += _M_v"))
    loops = _zip_loops(f, {"subterms[1:]", "self._children_param_maps"})
    ok_sib = False
    if loops:
        ct, pm = _zip_roles(f, loops[0], "subterms[1:]")
        ok_sib = bool(PT.find_all(loops[0], "self._parent_param_map(_M_pm(_M_p))", {"_M_pm": pm})) and \
            bool(PT.find_all(loops[0], "_M_ct(n)", {"_M_ct": ct}))
    if ok_parent and ok_sib:
        ctx.ok("V3", "Complement.get_terms: parent terms through the parent map; sibling i (subterms[1:]) through sibling i's map then the parent map")
    else:
        ctx.violation("V3", f, "Complement.get_terms must map the original parent's terms with _parent_param_map and each sibling's (subterms[1:], aligned with "
                      "_children_param_maps, which has no entry for the flipped child) with _parent_param_map(map_i(param))", construct="Complement.get_terms maps")
    # products
    for cname in ("CartesianProduct", "Quotient"):
        m = P.need_method(cname, "_new_param")
        f = m.node
        ctx.analysed(m)
        g = PT.find_all(f, "(_M_pm(_M_p) for _M_pm, _M_p in zip(self._children_param_maps, children_params))")
        mp = _assigned_name(g[0][0]) if g else None
        ok = bool(g) and mp is not None and PT.has(f, "tuple((sum(_M_v) for _M_v in zip(*_M_mp)))", {"_M_mp": mp})
        if ok:
            ctx.ok("V3", f"{cname}._new_param: child i's parameters through child i's map, summed position-wise")
        else:
            ctx.violation("V3", f, f"{cname}._new_param must pair self._children_param_maps with the children's parameters positionally and sum position-wise",
                          construct=f"{cname}._new_param")
    m = P.need_method("Quotient", "_other_new_param", own=True)
    f = m.node
    ctx.analysed(m)
    zips = [c for c in walk_local(f) if isinstance(c, ast.Call) and norm(c.func) == "zip" and len(c.args) == 2 and norm(c.args[1]) == "children_params"]
    good = False
    if zips:
        src = _resolved(f, zips[0].args[0])
        good = any(PT.match(PT.compile_pattern(p), src) is not None for p in (
            "(_M_m for _M_i, _M_m in enumerate(self._children_param_maps) if _M_i != self.idx)",
            "[_M_m for _M_i, _M_m in enumerate(self._children_param_maps) if _M_i != self.idx]",
            "self._children_param_maps[:self.idx] + self._children_param_maps[self.idx + 1:]"))
    if good:
        ctx.ok("V3", "Quotient._other_new_param: the maps of every child except the flipped one, in order")
    else:
        ctx.violation("V3", f, "Quotient._other_new_param must pair the other children's parameters with the maps of every child except exactly self.idx, in order",
                      construct="Quotient._other_new_param maps")
    m = P.need_method("Quotient", "get_terms", own=True)
    if PT.has(m.node, "self._parent_param_map(_M_p)"):
        ctx.ok("V3", "Quotient.get_terms re-keys the quotient's terms into the flipped child's own parameters")
    else:
        ctx.violation("V3", m.node, "Quotient.get_terms must map each parameter tuple with self._parent_param_map", construct="Quotient.get_terms map")
    # a map applied to positions: source positions index the table, target positions are written
    for cname in ("Constructor", "DisjointUnion", "Quotient"):
        if cname == "Quotient":
            # the quotient's map runs the other way (one value to several target positions): the version it resolves to *assigns*
            res = P.find_method(P.need_class("Quotient"), "param_map")
            bres = P.find_method(P.need_class("Quotient"), "build_param_map")
            acc = [n for r_ in (res, bres) if r_ is not None for n in walk_local(r_.node) if isinstance(n, ast.AugAssign) and isinstance(n.target, ast.Subscript)]
            bound = {a.value.id for r_ in (bres,) if r_ is not None for a in ast.walk(r_.node) if isinstance(a, ast.Attribute) and a.attr == "param_map"
                     and isinstance(a.value, ast.Name) and a.value.id in P.classes}
            for b in sorted(bound):
                bm = P.find_method(P.classes[b], "param_map")
                if bm is not None:
                    acc += [n for n in walk_local(bm.node) if isinstance(n, ast.AugAssign) and isinstance(n.target, ast.Subscript)]
            if res is None or bres is None:
                raise AnalysisError("V3: Quotient has no param_map / build_param_map at all")
            if acc:
                ctx.violation("V3", acc[0], f"the parameter map a Quotient builds resolves to {res.qualname} / {bres.qualname}, which *adds* into the target position "
                              f"(`{norm(acc[0])[:50]}`): a quotient's map hands one value to several positions of the product, and where two of them meet the value is doubled",
                              construct="Quotient.param_map resolves to an accumulating map")
                continue
        m = P.need_method(cname, "param_map", own=True)
        f = m.node
        loops = [l for l in walk_local(f) if isinstance(l, ast.For) and norm(l.iter) == "enumerate(param)" and isinstance(l.target, ast.Tuple)]
        ok = False
        if loops:
            pos = norm(loops[0].target.elts[0])
            ok = bool(PT.find_all(loops[0], "child_pos_to_parent_pos[_M_pos]", {"_M_pos": pos})) and bool(PT.find_all(f, "range(num_parent_params)"))
        if ok:
            # what is written is a *target* position: an element of the table's entry for the source position, never the source position itself
            tgt_vars = set()
            for l2 in walk_local(loops[0]):
                if isinstance(l2, ast.For) and isinstance(l2.target, ast.Name):
                    it2 = D.expanded(f, l2.iter) if isinstance(l2.iter, ast.Name) else l2.iter
                    if norm(it2) == f"child_pos_to_parent_pos[{pos}]":
                        tgt_vars.add(l2.target.id)
            writes = [w for w in walk_local(loops[0]) if isinstance(w, ast.Subscript) and isinstance(w.ctx, ast.Store) and isinstance(w.value, ast.Name)]
            wrong = [w for w in writes if not (isinstance(w.slice, ast.Name) and w.slice.id in tgt_vars)]
            if writes and wrong:
                ok = False
                ctx.violation("V3", wrong[0], f"{cname}.param_map writes `{norm(wrong[0])}`: the position written must be one of the target positions child_pos_to_parent_pos[{pos}] "
                              f"(found index `{norm(wrong[0].slice)}`); written at the source position, a statistic that the parent lists in another place than the child lands "
                              "on the wrong statistic")
        if ok:
            ctx.ok("V3", f"{cname}.param_map reads the table at the source position and writes target positions")
        elif not any(v_.rule == "V3" and v_.function.endswith(f"{cname}.param_map") for v_ in ctx.violations):
            ctx.violation("V3", f, f"{cname}.param_map must index the table by the source position and size its result by the target count", construct=f"{cname}.param_map")


# ------------------------------------------------------------------------ V4
def v4_parameter_translation(ctx) -> None:
    P = ctx.P
    m = P.need_method("DisjointUnion", "get_extra_parameters", own=True)
    f = m.node
    ctx.analysed(m)
    loops = [l for l in walk_local(f) if isinstance(l, ast.For) and norm(l.iter) == "enumerate(self.extra_parameters)" and isinstance(l.target, ast.Tuple)]
    if not loops:
        raise AnalysisError("V4: DisjointUnion.get_extra_parameters no longer walks enumerate(self.extra_parameters)")
    i, tab = norm(loops[0].target.elts[0]), norm(loops[0].target.elts[1])
    items = [x for x in _items_loops(loops[0]) if x[1] == tab]
    if not items:
        ctx.violation("V4", f, "DisjointUnion.get_extra_parameters no longer walks the child's table", construct="DisjointUnion.get_extra_parameters items")
    else:
        _, _, pv, cv = items[0]
        reads_p = bool(PT.find_all(loops[0], "parameters[_M_pv]", {"_M_pv": pv}))
        reads_c = bool(PT.find_all(loops[0], "parameters[_M_cv]", {"_M_cv": cv}))
        stores = [n for n in walk_local(loops[0]) if isinstance(n, ast.Subscript) and isinstance(n.ctx, ast.Store) and isinstance(n.value, ast.Name)]
        st_c = [n for n in stores if norm(n.slice) == cv]
        st_p = [n for n in stores if norm(n.slice) == pv]
        fixed = bool(PT.find_all(loops[0], "self.fixed_values[_M_i]", {"_M_i": i}))
        if reads_p and not reads_c and st_c and not st_p and fixed:
            ctx.ok("V4", "DisjointUnion.get_extra_parameters: the parent's values are read by parent name and stored under the child's name; fixed values of the same child")
        else:
            ctx.violation("V4", f, "DisjointUnion.get_extra_parameters must read parameters[<parent name>] and write <result>[<child name>] (components of "
                          "table.items() in that order), starting from self.fixed_values of the same child", construct="DisjointUnion.get_extra_parameters")
    # ... and the result has exactly one entry per child, on every path (None for a child that cannot match):
    # the consumers pair it with the children by position
    if loops:
        lp0 = loops[0]
        rets0 = [r for r in C.returns_of(f) if r.value is not None and isinstance(r.value, ast.Name)]
        if rets0:
            res0 = rets0[0].value.id

            def _is_app(x, res0=res0):
                return isinstance(x, ast.Call) and isinstance(x.func, ast.Attribute) and x.func.attr == "append" and isinstance(x.func.value, ast.Name) and x.func.value.id == res0

            exits = C._exits(lp0.body, _is_app, 0, 0)
            bad = [(k, kind, w) for k, kind, w in exits if kind in ("fall", "continue") and k != 1]
            if any(kind == "break" for _k, kind, _w in exits):
                bad.append((0, "break", lp0))
            if bad:
                k, kind, w = bad[0]
                ctx.violation("V4", w if w is not None else lp0, f"DisjointUnion.get_extra_parameters: one iteration over the children can end ({kind}) with {k} entries added to "
                              f"`{res0}`: the result must have exactly one entry per child (None for a child whose parameters contradict), the sampler and the counts "
                              "pair it with the children by position")
            else:
                ctx.ok("V4", "DisjointUnion.get_extra_parameters adds exactly one entry per child on every path")
    m = P.need_method("CartesianProduct", "get_extra_parameters", own=True)
    f = m.node
    ctx.analysed(m)
    loops = _zip_loops(f, {"child_parameters", "self.extra_parameters"})
    ok = False
    if loops:
        pr, mp = _zip_roles(f, loops[0], "child_parameters")
        inner = [l for l in walk_local(loops[0]) if isinstance(l, ast.For) and norm(l.iter) in (mp, f"{mp}.keys()", f"{mp}.items()")]
        if inner:
            mkn = None
            if norm(inner[0].iter) == f"{mp}.items()" and isinstance(inner[0].target, ast.Tuple) and len(inner[0].target.elts) == 2:
                k, mkn = (norm(e) for e in inner[0].target.elts)
            else:
                k = norm(inner[0].target)
                mk = PT.find_all(inner[0], "_M_mk = _M_mp[_M_k]", {"_M_mp": mp, "_M_k": k})
                if mk:
                    mkn = mk[0][1]["_M_mk"]
            for mke in ([mkn] if mkn is not None else []) + [f"{mp}[{k}]"]:
                ok = ok or (PT.has(inner[0], "_M_ep[_E_mk] = _M_pr[_M_k]", {"_E_mk": mke, "_M_pr": pr, "_M_k": k}) and
                            bool(PT.find_all(inner[0], "_M_ep[_E_mk] != _M_pr[_M_k]", {"_E_mk": mke, "_M_pr": pr, "_M_k": k})))
    if ok:
        ctx.ok("V4", "CartesianProduct.get_extra_parameters: child i's values re-keyed through child i's table, contradictions detected")
    else:
        ctx.violation("V4", f, "CartesianProduct.get_extra_parameters must pair child_parameters with self.extra_parameters positionally and store values[k] under table[k], "
                      "detecting contradictions", construct="CartesianProduct.get_extra_parameters")
    for mname in ("count_objects_of_size", "generate_objects_of_size"):
        m = P.need_method("AbstractRule", mname, own=True)
        if PT.has(m.node, "tuple((parameters[_M_k] for _M_k in self.comb_class.extra_parameters))"):
            ctx.ok("V4", f"AbstractRule.{mname} indexes by the class's own parameter order")
        else:
            ctx.violation("V4", m.node, f"AbstractRule.{mname} must build the key as tuple(parameters[k] for k in self.comb_class.extra_parameters)", construct=f"AbstractRule.{mname} key")


# ------------------------------------------------------------------------ V6
def v6b_kept_child_position(ctx) -> None:
    """EquivalenceRule keeps the one non-empty child of a rule and remembers *where it stood in
    that rule*: child_idx indexes the original rule's children (and tables); it is what the
    constructor, the maps and the reversal of the original rule are addressed with.  The
    equivalence rule's own children are just (child,), in which every position is 0."""
    P = ctx.P
    init = P.need_method("EquivalenceRule", "__init__", own=True)
    f = init.node
    ctx.analysed(init)
    rp = [x for x in D.param_names(f) if x != "self"]
    if len(rp) != 1:
        raise AnalysisError("V6: EquivalenceRule.__init__(self, rule) expected")
    r = rp[0]
    st = [a for a in walk_local(f) if isinstance(a, (ast.Assign, ast.AnnAssign)) and any(is_self_attr(t, "child_idx") for t in (a.targets if isinstance(a, ast.Assign) else [a.target]))]
    if len(st) != 1 or st[0].value is None:
        raise AnalysisError("V6: EquivalenceRule.__init__ no longer sets self.child_idx once")
    v = D.expanded(f, st[0].value)
    m = PT.match(PT.compile_pattern(f"{r}.children.index(_E_c)"), v)
    kept = norm(D.expanded(f, ast.parse(m["_E_c"], mode="eval").body)) if m is not None else None
    if m is not None and kept in (f"{r}.non_empty_children()[0]",):
        ctx.ok("V6", "EquivalenceRule.child_idx is the position of the kept child among the original rule's children")
    else:
        ctx.violation("V6", st[0], f"EquivalenceRule.child_idx must be {r}.children.index(<the kept non-empty child of {r}>); found `{norm(v)[:80]}`: the index is used to "
                      "address the original rule's tables, maps and reversal, and in the equivalence rule's own children every child sits at 0")
    tr = P.need_method("EquivalenceRule", "to_reverse_rule", own=True)
    ctx.analysed(tr)
    calls = [c for c in walk_local(tr.node) if isinstance(c, ast.Call) and norm(c.func) == "self.original_rule.to_reverse_rule"]
    if calls and all(len(c.args) == 1 and norm(D.expanded(tr.node, c.args[0])) == "self.child_idx" for c in calls):
        ctx.ok("V6", "EquivalenceRule.to_reverse_rule reverses the original rule at the kept child's position (child_idx)")
    elif calls:
        ctx.violation("V6", calls[0], f"EquivalenceRule.to_reverse_rule reverses the original rule at `{norm(calls[0].args[0]) if calls[0].args else '?'}`; the kept child stands at "
                      "self.child_idx there (the parameter addresses the equivalence rule's own single child and is always 0)")
    else:
        ctx.violation("V6", tr.node, "EquivalenceRule.to_reverse_rule must reverse the original rule at self.child_idx", construct="EquivalenceRule.to_reverse_rule")


def v6_derived_constructors(ctx) -> None:
    v6b_kept_child_position(ctx)
    P = ctx.P
    m = P.need_method("EquivalenceRule", "constructor", own=True)
    f = m.node
    ctx.analysed(m)
    oc = PT.find_all(f, "_M_oc = self.original_rule.constructor")
    ocn = oc[0][1]["_M_oc"] if oc else None
    if ocn and PT.find_all(f, "DisjointUnion(self.comb_class, self.children, (_M_oc.extra_parameters[self.child_idx],))", {"_M_oc": ocn}):
        ctx.ok("V6", "EquivalenceRule: the union over the single non-empty child uses that child's own table (same index as the child)")
    else:
        ctx.violation("V6", f, "EquivalenceRule.constructor must build DisjointUnion(comb_class, children, (original.extra_parameters[self.child_idx],)) -- the table of the "
                      "very child that is kept", construct="EquivalenceRule.constructor union branch")
    okc = False
    oor = PT.find_all(f, "_M_oor = self.original_rule.original_rule")
    if oor:
        b = {"_M_oor": oor[0][1]["_M_oor"]}
        ci = PT.find_all(f, "_M_ci = _M_oor.to_equivalence_rule().child_idx", b)
        ooc = PT.find_all(f, "_M_ooc = _M_oor.constructor", b)
        if ci and ooc:
            okc = bool(PT.find_all(f, "Complement(self.children[0], (self.comb_class,), 0, (_M_ooc.extra_parameters[_M_ci],))",
                                   {"_M_ooc": ooc[0][1]["_M_ooc"], "_M_ci": ci[0][1]["_M_ci"]}))
    if okc:
        ctx.ok("V6", "EquivalenceRule (reverse): complement of the one-child union, with the table of the kept child of the original rule")
    else:
        ctx.violation("V6", f, "EquivalenceRule.constructor (Complement branch) must be Complement(children[0], (comb_class,), 0, (table of the original rule's kept child,))",
                      construct="EquivalenceRule.constructor complement branch")
    # path composition ------------------------------------------------------------
    m = P.need_method("EquivalencePathRule", "constructor", own=True)
    f = m.node
    ctx.analysed(m)
    ident = PT.find_all(f, "{_M_k: _M_k for _M_k in self.comb_class.extra_parameters}")
    run = _assigned_name(ident[0][0]) if ident else None
    if run:
        ctx.ok("V6", "path: the running map starts as the identity on the first class's parameters")
    else:
        ctx.violation("V6", f, "EquivalencePathRule.constructor must start from the identity on self.comb_class.extra_parameters", construct="EquivalencePathRule.constructor start")
        return
    steps = [l for l in walk_local(f) if isinstance(l, ast.For) and norm(l.iter) == "self.rules"]
    if not steps:
        ctx.violation("V6", f, "EquivalencePathRule.constructor no longer walks self.rules", construct="EquivalencePathRule.constructor steps")
        return
    step = steps[0]
    rule_v = norm(step.target)
    ocs = PT.find_all(step, "_M_oc = _M_r.constructor", {"_M_r": rule_v})
    ocn = ocs[0][1]["_M_oc"] if ocs else None
    rps = PT.find_all(step, "_M_rp = _M_oc.extra_parameters[0]", {"_M_oc": ocn}) if ocn else []
    rpn = rps[0][1]["_M_rp"] if rps else None
    if rpn:
        ctx.ok("V6", "path: each (one-child) step contributes the table of its only child")
    else:
        ctx.violation("V6", f, "each step must contribute <step constructor>.extra_parameters[0]", construct="EquivalencePathRule.constructor step table")
        return
    want_guard = (f"isinstance({ocn}, Complement)", True)
    inv = [n for n in walk_local(step) if isinstance(n, (ast.Assign, ast.AnnAssign)) and isinstance(PT.assign_value(n)[1], ast.DictComp)
           and _is_swap(PT.assign_value(n)[1]) and norm(PT.assign_value(n)[0]) == rpn
           and norm(PT.assign_value(n)[1].generators[0].iter) == f"{rpn}.items()"]
    if not inv:
        ctx.violation("V6", f, "EquivalencePathRule.constructor no longer inverts the table of a Complement step", construct="EquivalencePathRule.constructor inversion")
    for n in inv:
        gt = C.guard_texts(f, n)
        if want_guard in gt:
            ctx.ok("V6", "path: a step's table is inverted exactly when the step's constructor is a Complement (its table is written original-parent -> original-child)")
        else:
            ctx.violation("V6", n, f"the step table is inverted under {sorted(t for t, p in gt if p)} instead of `isinstance(<step constructor>, Complement)`: an equivalence form "
                          "wrapping a reverse rule has a Complement constructor without being a ReverseRule, and is then composed in the wrong direction")
        rs = [r for r in C.raises_of(f) if r.exc is not None and "NotImplementedError" in norm(r.exc)]
        if rs and all(want_guard in C.guard_texts(f, r) for r in rs) and any(C.dominates(f, _top(f, r, n), n) for r in rs):
            ctx.ok("V6", "path: a non-injective Complement table is refused before it is inverted")
        else:
            ctx.violation("V6", n, "a Complement step with duplicate values must be refused (NotImplementedError) before its table is inverted")
    # composition: {first: step[second] for first, second in running.items() if second in step}
    done = False
    for n in walk_local(step):
        if not (isinstance(n, ast.DictComp) and not _is_swap(n) and len(n.generators) == 1):
            continue
        g = n.generators[0]
        if not (isinstance(g.iter, ast.Call) and norm(g.iter) == f"{run}.items()" and isinstance(g.target, ast.Tuple) and len(g.target.elts) == 2):
            continue
        if _assigned_name(n) != run:
            continue
        done = True
        # every step of the path takes part: a step with an empty table maps *nothing* on (the running map must
        # become empty), so it may not be skipped
        skipping = [(norm(t), p_) for t, p_ in C.guards(f, C.stmt_of(n), within=step) if not isinstance(getattr(t, "_parent", None), ast.Assert)]
        if skipping:
            ctx.violation("V6", C.stmt_of(n), f"the running map is composed with a step's table only under {skipping}: a step that is skipped lets statistics of the first class "
                          "through to names the later classes use for something else (a step whose table is empty ends every statistic)")
        a, b = norm(g.target.elts[0]), norm(g.target.elts[1])
        okk = norm(n.key) == a and isinstance(n.value, ast.Subscript) and norm(n.value.value) == rpn and norm(n.value.slice) == b
        okf = len(g.ifs) == 1 and norm(g.ifs[0]) == f"{b} in {rpn}"
        if okk and okf:
            ctx.ok("V6", "path: composition keeps the first class's name and looks the current name up in the step table ({first: step[current] ... if current in step})")
        else:
            ctx.violation("V6", n, f"composition `{norm(n)[:110]}`: the running map sends first-class names to current names; the step table is keyed by "
                          f"current names, so both the lookup and the filter must use the current name `{b}` (and the key the first-class name `{a}`)")
    if not done:
        ctx.violation("V6", f, "EquivalencePathRule.constructor no longer composes the running map with each step's table", construct="EquivalencePathRule.constructor composition")
    if PT.find_flow(f, "{_M_k: 0 for _M_k in self.children[0].extra_parameters if _M_k not in _M_run.values()}",
                    "DisjointUnion(self.comb_class, self.children, (_M_run,), (_M_fv,))", "_M_fv", {"_M_run": run}):
        ctx.ok("V6", "path: parameters of the last class that nothing maps onto are fixed to 0")
    else:
        ctx.violation("V6", f, "EquivalencePathRule.constructor must fix to 0 the last class's parameters outside the image of the composed map and build "
                      "DisjointUnion(comb_class, children, (map,), (fixed,))", construct="EquivalencePathRule.constructor fixed values")


def _is_swap(dc: ast.DictComp) -> bool:
    if len(dc.generators) != 1:
        return False
    g = dc.generators[0]
    if not (isinstance(g.target, ast.Tuple) and len(g.target.elts) == 2):
        return False
    a, b = norm(g.target.elts[0]), norm(g.target.elts[1])
    return norm(dc.key) == b and norm(dc.value) == a


def _top(f, r, other):
    from .labelkind import _top_stmt_under
    return _top_stmt_under(f, C.stmt_of(r), other)


# ------------------------------------------------------------------------ V5 (C20)
def v5_equations(ctx) -> None:
    P = ctx.P
    for cname in ("DisjointUnion", "CartesianProduct"):
        m = P.need_method(cname, "get_equation", own=True)
        f = m.node
        ctx.analysed(m)
        loops = _zip_loops(f, {"rhs_funcs", "self.extra_parameters"})
        if not loops:
            ctx.violation("V5", f, f"{cname}.get_equation must pair rhs_funcs with self.extra_parameters positionally (function i with table i)",
                          construct=f"{cname}.get_equation zip")
            continue
        fn, tb = _zip_roles(f, loops[0], "rhs_funcs")
        ctx.ok("V5", f"{cname}.get_equation: child i's function with child i's table")
        _multi_valued_substitution(ctx, f, loops[0], f"{cname}.get_equation", fn, tb)
    # constructors that cannot express parameters refuse
    for cname in ("Complement", "Quotient"):
        m = P.need_method(cname, "get_equation", own=True)
        rs = [r for r in C.raises_of(m.node) if r.exc is not None and "NotImplementedError" in norm(r.exc)]
        if rs and all(("any(self.extra_parameters)", True) in C.guard_texts(m.node, r) for r in rs) and m.node.body and \
                all(C.dominates(m.node, _top(m.node, rs[0], x), x) for x in C.returns_of(m.node)):
            ctx.ok("V5", f"{cname}.get_equation refuses (NotImplementedError) as soon as any child has parameters")
        else:
            ctx.violation("V5", m.node, f"{cname}.get_equation must raise NotImplementedError under any(self.extra_parameters) before building the unparameterised equation",
                          construct=f"{cname}.get_equation refusal")
    # the only fallback of a reverse rule: the original rule's equation, on NotImplementedError only
    m = P.need_method("ReverseRule", "get_equation", own=True)
    f = m.node
    ctx.analysed(m)
    tries = [n for n in walk_local(f) if isinstance(n, ast.Try)]
    okr = False
    if len(tries) == 1 and len(tries[0].handlers) == 1:
        h = tries[0].handlers[0]
        okr = (C.handler_names(h) == {"NotImplementedError"} and bool(PT.find_all(tries[0], "super().get_equation(get_function)"))
               and len(h.body) == 1 and norm(h.body[0]) == "return self.original_rule.get_equation(get_function)")
    if okr:
        ctx.ok("V5", "ReverseRule.get_equation falls back only on NotImplementedError and only to the original rule's (true) equation")
    else:
        ctx.violation("V5", f, "ReverseRule.get_equation may fall back only on NotImplementedError and only to self.original_rule.get_equation(get_function)",
                      construct="ReverseRule.get_equation fallback")
    # Rule.get_equation: functions aligned with children
    m = P.need_method("Rule", "get_equation", own=True)
    f = m.node
    from . import provenance as PV
    rets = C.returns_of(f)
    okq = False
    if len(rets) == 1 and isinstance(rets[0].value, ast.Call) and norm(rets[0].value.func) == "self.constructor.get_equation" and len(rets[0].value.args) == 2:
        a0, a1 = rets[0].value.args
        l0 = PV.rv(f, a0)
        okq = norm(l0) == "get_function(self.comb_class)" and PV.aligned_image(f, a1, {"self.children"}, fn_suffix="get_function")
    if okq:
        ctx.ok("V5", "Rule.get_equation: lhs is the function of the rule's class, rhs functions are those of its children, in order")
    else:
        ctx.violation("V5", f, "Rule.get_equation must call constructor.get_equation(get_function(self.comb_class), <get_function over self.children, in order>)",
                      construct="Rule.get_equation")
    # verification rules substitute the placeholder by the class's own function
    m = P.need_method("VerificationRule", "get_equation", own=True)
    lh = PT.find_all(m.node, "_M_l = get_function(self.comb_class)")
    okv = bool(lh) and bool(PT.find_all(m.node, "Eq(_M_l, _A_.subs({var('F'): _M_l}))", {"_M_l": lh[0][1]["_M_l"]}))
    if okv:
        ctx.ok("V5", "VerificationRule.get_equation: F is replaced by the class's own function")
    else:
        ctx.violation("V5", m.node, "VerificationRule.get_equation must be Eq(lhs, genf.subs({var('F'): lhs})) with lhs = get_function(self.comb_class)",
                      construct="VerificationRule.get_equation")
    # the specification never omits a class
    m = P.need_method("CombinatorialSpecification", "get_equations", own=True)
    f = m.node
    ctx.analysed(m)
    hs = [h for n in walk_local(f) if isinstance(n, ast.Try) for h in n.handlers]
    okp = any(C.handler_names(h) == {"NotImplementedError"} and any(isinstance(x, ast.Yield) and "NOTIMPLEMENTED" in norm(x) for x in ast.walk(h)) for h in hs)
    if okp:
        ctx.ok("V5", "get_equations replaces a rule it cannot express by the NOTIMPLEMENTED placeholder (no class is silently omitted)")
    else:
        ctx.violation("V5", f, "get_equations must yield the NOTIMPLEMENTED placeholder for a rule whose equation is not implemented", construct="CombinatorialSpecification.get_equations placeholder")
    loops = [l for l in walk_local(f) if isinstance(l, ast.For) and "self.rules_dict.items()" in norm(l.iter)]
    if loops:
        ctx.ok("V5", "get_equations emits one equation per rule of the specification")
    else:
        ctx.violation("V5", f, "get_equations must walk every rule of the specification", construct="CombinatorialSpecification.get_equations loop")


def _multi_valued_substitution(ctx, f, loop_zip, where: str, fn: str, tb: str) -> None:
    """Inside the per-child loop: the substitution for a child variable is the product of
    all parent variables mapped onto it, and is applied simultaneously to that child's
    function."""
    items = [x for x in _items_loops(loop_zip) if x[1] == tb]
    if not items:
        ctx.violation("V5", f, f"{where} no longer walks the child's table", construct=f"{where} items")
        return
    node, table, pv, cv = items[0]
    if not isinstance(node, ast.For):
        ctx.violation("V5", parent(node), f"{where}: the substitution table is built by a comprehension {{child: parent ...}}, which keeps only one parent "
                      "variable per child variable; when several parent statistics map onto one child statistic the substitute must be their *product* "
                      "(the counting code does credit all of them)")
        return
    b = {"_M_pv": pv, "_M_cv": cv}
    form_a = PT.find_all(node, "if _M_cv in _M_s:\n    _M_s[_M_cv] *= sympy.var(_M_pv)\nelse:\n    _M_s[_M_cv] = sympy.var(_M_pv)", b)
    form_b = PT.find_all(node, "_M_s[_M_cv] = _M_s.get(_M_cv, 1) * sympy.var(_M_pv)", b) or PT.find_all(node, "_M_s[_M_cv] = sympy.var(_M_pv) * _M_s.get(_M_cv, 1)", b)
    swapped = PT.find_all(node, "_M_s[_M_pv] = _A_", {"_M_pv": pv}) or PT.find_all(node, "_M_s[_M_pv] *= _A_", {"_M_pv": pv})
    hit = form_a or form_b
    if swapped:
        ctx.violation("V5", node, f"{where}: the substitution is keyed by the parent's variable; the child's function is written in the child's variables, "
                      "which must be replaced by the parent's")
        return
    if not hit:
        ctx.violation("V5", node, f"{where}: the substitution for a child variable must accumulate the product of the parent variables mapped onto it "
                      "(table[child] *= var(parent) when already present)")
        return
    sname = hit[0][1]["_M_s"]
    ctx.ok("V5", f"{where}: the child's variable is replaced by the product of all parent variables mapped onto it")
    calls = [c for c in walk_local(loop_zip) if isinstance(c, ast.Call) and isinstance(c.func, ast.Attribute) and c.func.attr == "subs"]
    if not calls:
        ctx.violation("V5", f, f"{where} no longer substitutes the child's variables", construct=f"{where} subs")
    for c in calls:
        kw = {k.arg: norm(k.value) for k in c.keywords}
        on_child = norm(c.func.value) == fn and c.args and norm(c.args[0]) == sname
        if not on_child:
            ctx.violation("V5", c, f"{where}: the table built from child i's parameters must be applied to child i's function")
        elif kw.get("simultaneous") == "True":
            ctx.ok("V5", f"{where}: substitution applied to the same child's function, simultaneously (parent and child may reuse names in permuted roles)")
        else:
            ctx.violation("V5", c, f"{where}: `.subs(...)` without simultaneous=True substitutes sequentially; when parent and child names overlap in shifted or "
                          "permuted roles a variable is rewritten twice and the equation is false")


# ------------------------------------------------------------------------ V7
def v7_zeroes(ctx) -> None:
    """DisjointUnion.zeroes[i] = parent statistics that child i does not track: a set of
    *parent* names (parent.extra_parameters minus the keys of child i's table), consulted
    with parent names."""
    P = ctx.P
    init = P.need_method("DisjointUnion", "__init__", own=True)
    f = init.node
    ctx.analysed(init)
    assigns = [n for n in walk_local(f) if isinstance(n, ast.Assign) and any(is_self_attr(t, "zeroes") for t in n.targets)]
    if len(assigns) != 1:
        raise AnalysisError("V7: DisjointUnion.__init__ no longer sets self.zeroes once")
    v = assigns[0].value
    gens = [g for g in ast.walk(v) if isinstance(g, ast.GeneratorExp)]
    ok = False
    why = "zeroes must be, for each child's table, the parent's parameter names minus the table's keys"
    if gens and len(gens[0].generators) == 1 and norm(gens[0].generators[0].iter) == "self.extra_parameters":
        tb = norm(gens[0].generators[0].target)
        e = gens[0].elt
        if isinstance(e, ast.BinOp) and isinstance(e.op, ast.Sub):
            l, r = norm(D.expanded(f, e.left)), norm(e.right)
            ok_l = l in ("frozenset(parent.extra_parameters)", "set(parent.extra_parameters)")
            ok_r = r in (f"frozenset({tb}.keys())", f"set({tb}.keys())", f"frozenset({tb})", f"set({tb})", f"{tb}.keys()")
            ok = ok_l and ok_r
            if ok_l and not ok_r:
                why = (f"the names subtracted are `{r}`: the table maps parent names (keys) to child names (values), and zeroes is a set of "
                       "parent names -- subtracting the child's names marks tracked statistics as untracked whenever the names differ")
    if ok:
        ctx.ok("V7", "DisjointUnion.zeroes[i] = parent parameter names not among the keys (parent names) of child i's table")
    else:
        ctx.violation("V7", assigns[0], why)
    m = P.need_method("DisjointUnion", "random_sample_sub_objects", own=True)
    hits = PT.find_all(m.node, "any((_M_val != 0 and _M_k in self.zeroes[_M_i] for _M_k, _M_val in parameters.items()))")
    if hits:
        ctx.ok("V7", "the walk skips child i when a parent statistic it does not track is non-zero (looked up by parent name)")
    else:
        uses = [n for n in walk_local(m.node) if isinstance(n, ast.Attribute) and n.attr == "zeroes"]
        if not uses:
            ctx.violation("V7", m.node, "the union walk no longer skips children that cannot carry a non-zero value of an untracked parent statistic",
                          construct="DisjointUnion.random_sample_sub_objects zeroes")
        else:
            ctx.ok("V7", "the union walk consults zeroes (form not judged)")


# ------------------------------------------------------------------------ V8
def v8_queries_do_not_mutate_constructor_state(ctx) -> None:
    """Counting / sampling queries are repeatable: a constructor's own tables
    (extra_parameters, fixed_values, ...) are never written through an alias.  A name bound
    directly to `self.<attr>` / `self.<attr>[...]` must not be the target of a subscript
    store or of a mutating call (the dictionary filled for one query would leak into the
    next)."""
    P = ctx.P
    mutators = {"update", "pop", "popitem", "clear", "setdefault", "append", "extend", "remove", "insert", "add", "discard"}
    n = 0
    for cname in ("DisjointUnion", "CartesianProduct", "Complement", "Quotient"):
        cls = P.need_class(cname)
        for m in cls.methods.values():
            if m.name == "__init__" or m.name.startswith("_build"):
                continue
            f = m.node
            aliases = {}
            for st in walk_local(f):
                t, v = PT.assign_value(st)
                if isinstance(t, ast.Name) and v is not None:
                    base = v
                    while isinstance(base, ast.Subscript):
                        base = base.value
                    if is_self_attr(base) and (v is base or isinstance(v, ast.Subscript)):
                        aliases[t.id] = norm(v)
            for name, owner in aliases.items():
                n += 1
                bad = []
                for x in walk_local(f):
                    if isinstance(x, ast.Subscript) and isinstance(x.ctx, (ast.Store, ast.Del)) and isinstance(x.value, ast.Name) and x.value.id == name:
                        bad.append(x)
                    if isinstance(x, ast.Call) and isinstance(x.func, ast.Attribute) and x.func.attr in mutators and isinstance(x.func.value, ast.Name) \
                            and x.func.value.id == name:
                        bad.append(x)
                if bad:
                    ctx.violation("V8", C.stmt_of(bad[0]), f"{m.qualname}: `{name}` is `{owner}` itself (not a copy) and is written to: what one query stores is still "
                                  "there for the next query with other parameter values")
                else:
                    ctx.ok("V8", f"{m.qualname}: alias `{name}` of {owner} is only read")
    # the dictionaries that are filled per query are fresh
    m = P.need_method("DisjointUnion", "get_extra_parameters", own=True)
    fresh = PT.find_all(m.node, "_M_u = {**self.fixed_values[_M_i]}") or PT.find_all(m.node, "_M_u = dict(self.fixed_values[_M_i])") \
        or PT.find_all(m.node, "_M_u = self.fixed_values[_M_i].copy()")
    if fresh:
        ctx.ok("V8", "DisjointUnion.get_extra_parameters starts each child's dictionary as a copy of its fixed values")
    elif not any(isinstance(x, ast.Attribute) and x.attr == "fixed_values" for x in walk_local(m.node)):
        ctx.violation("V8", m.node, "DisjointUnion.get_extra_parameters no longer starts from the child's fixed values", construct="DisjointUnion.get_extra_parameters fixed values")


def v10_param_map(ctx) -> None:
    """The parameter map applied to every child's parameters: position `pos` of the child
    contributes its value to every parent position listed for it, starting from zeros of the
    parent's width; build_param_map is that function with the table bound -- for *every*
    table (a one-to-one table can still permute positions)."""
    P = ctx.P
    b = P.need_method("Constructor", "build_param_map", own=True)
    ctx.analysed(b)
    ps = [p for p in D.param_names(b.node) if p not in ("self", "cls")]
    rets = [r for r in C.returns_of(b.node) if r.value is not None]
    want = f"partial(Constructor.param_map, {ps[0]}, {ps[1]})"
    bad = [r for r in rets if norm(r.value) != want]
    if rets and not bad:
        ctx.ok("V10", f"build_param_map is {want} for every table")
    for r in bad:
        ctx.violation("V10", r, f"build_param_map returns `{norm(r.value)[:80]}`; every table, one-to-one ones included, needs {want} (positions may be permuted)")
    m = P.need_method("Constructor", "param_map", own=True)
    ctx.analysed(m)
    f = m.node
    tab, num, par = [p for p in D.param_names(f) if p not in ("self", "cls")][:3]
    init = PT.find_all(f, f"_M_new = [0 for _A_ in range({num})]") or PT.find_all(f, f"_M_new = [0] * {num}")
    if not init:
        ctx.violation("V10", f, f"param_map must start from {num} zeros (the parent's width)", construct="Constructor.param_map zeros")
        return
    new = init[0][1]["_M_new"]
    loops = [l for l in walk_local(f) if isinstance(l, ast.For) and norm(l.iter) == f"enumerate({par})" and isinstance(l.target, ast.Tuple) and len(l.target.elts) == 2]
    if len(loops) != 1:
        ctx.violation("V10", f, f"param_map must visit every (position, value) of enumerate({par})", construct="Constructor.param_map loop")
        return
    pos, val = (norm(e) for e in loops[0].target.elts)
    adds = [a for a in walk_local(loops[0]) if isinstance(a, ast.AugAssign) and isinstance(a.target, ast.Subscript) and norm(a.target.value) == new]
    ok = False
    for a in adds:
        inner = [l for l in C.enclosing_loops(f, a) if isinstance(l, ast.For) and l is not loops[0]]
        if len(inner) == 1 and isinstance(inner[0].target, ast.Name) and norm(a.target.slice) == inner[0].target.id and isinstance(a.op, ast.Add) and norm(a.value) == val:
            src = inner[0].iter
            if isinstance(src, ast.Name):
                ds = [d for d in D.definitions(f).get(src.id, []) if d[1] is not None]
                src_t = norm(ds[0][1]) if ds else src.id
            else:
                src_t = norm(src)
            if src_t == f"{tab}[{pos}]" and not C.guards(f, a, within=loops[0]):
                ok = True
    if ok:
        ctx.ok("V10", "param_map adds the value at child position pos to every parent position listed in table[pos]")
    else:
        ctx.violation("V10", loops[0], f"param_map must do `{new}[p] += {val}` for every p in {tab}[{pos}], unconditionally", construct="Constructor.param_map accumulation")
    rets = [r for r in C.returns_of(f) if r.value is not None]
    if len(rets) == 1 and norm(rets[0].value) == f"tuple({new})":
        ctx.ok("V10", "param_map returns the accumulated tuple")
    else:
        ctx.violation("V10", f, f"param_map must return tuple({new})", construct="Constructor.param_map return")


def v11_provider_results_not_written(ctx) -> None:
    """What a provider (the terms / objects / counts function of another rule, handed in as a
    callable) returns is that rule's cached level.  A constructor may read it and must copy it
    before changing anything: a name bound directly to a provider call is never the target of a
    subscript store, an augmented subscript assignment or a mutating call."""
    P = ctx.P
    mutators = {"update", "pop", "popitem", "clear", "setdefault", "append", "extend", "remove", "insert", "add", "discard", "subtract"}
    n = 0
    for cname in ("DisjointUnion", "CartesianProduct", "Complement", "Quotient"):
        cls = P.need_class(cname)
        for m in cls.methods.values():
            f = m.node
            params = set(D.param_names(f)) - {"self", "cls"}
            callables = set()
            for c in walk_local(f):
                if isinstance(c, ast.Call) and isinstance(c.func, ast.Name) and c.func.id in params:
                    callables.add(c.func.id)
            # elements of provider tuples: `for sub in subterms: sub(n)` / zip(...) targets
            for lp in walk_local(f):
                if isinstance(lp, (ast.For, ast.comprehension)):
                    its = {x.id for x in ast.walk(lp.iter) if isinstance(x, ast.Name)}
                    if its & params:
                        for t in ast.walk(lp.target):
                            if isinstance(t, ast.Name):
                                callables.add(t.id)
            if not callables:
                continue
            for st in walk_local(f):
                t, v = PT.assign_value(st)
                if not (isinstance(t, ast.Name) and isinstance(v, ast.Call) and isinstance(v.func, ast.Name) and v.func.id in callables):
                    continue
                n += 1
                name = t.id
                bad = []
                for x in walk_local(f):
                    if isinstance(x, ast.Subscript) and isinstance(x.ctx, (ast.Store, ast.Del)) and isinstance(x.value, ast.Name) and x.value.id == name:
                        bad.append(x)
                    if isinstance(x, ast.Call) and isinstance(x.func, ast.Attribute) and x.func.attr in mutators and isinstance(x.func.value, ast.Name) and x.func.value.id == name:
                        bad.append(x)
                if bad:
                    ctx.violation("V11", C.stmt_of(bad[0]), f"{m.qualname}: `{name}` is what the provider `{norm(v)}` returned (another rule's cached level), not a copy, and is written "
                                  "to: that rule's terms are changed for every later reader")
                else:
                    ctx.ok("V11", f"{m.qualname}: `{name}` = {norm(v)[:40]} is only read")
            ctx.analysed(m)
    # the flipped constructors start from a copy of the parent's terms
    for cname, mname in (("Quotient", "_a"), ("Complement", "get_terms")):
        m = P.need_method(cname, mname, own=True)
        f = m.node
        cps = [c for c in walk_local(f) if isinstance(c, ast.Call) and norm(c.func) in ("Counter", "dict", "copy") and len(c.args) == 1 and isinstance(c.args[0], ast.Call)
               and isinstance(c.args[0].func, ast.Name) and c.args[0].func.id in D.param_names(f)]
        if cps:
            n += 1
            ctx.ok("V11", f"{m.qualname} starts from a copy of the parent's terms")
    if n < 2:
        ctx.floor("V11", 99)


def v5b_univariate_genf_refuses_statistics(ctx) -> None:
    """A generating function written in the size variable only (x ** k) is the generating
    function of the class only when the class tracks no statistic: AtomStrategy.get_genf must
    refuse (NotImplementedError) a class with extra parameters before it returns one, and
    every get_genf refuses a class that is not verified."""
    P = ctx.P
    n = 0
    for cname in ("AtomStrategy", "VerificationStrategy", "EmptyStrategy"):
        m = P.need_method(cname, "get_genf", own=True)
        f = m.node
        ctx.analysed(m)
        cc = [p for p in D.param_names(f) if p != "self"][0]
        rets = [r for r in C.returns_of(f) if r.value is not None]
        for r in rets:
            gs = {(norm(t), pol) for t, pol in C.flatten_guards(C.guards(f, r))}
            n += 1
            if (f"self.verified({cc})", True) in gs:
                ctx.ok("V5", f"{cname}.get_genf answers only for a verified class")
            else:
                ctx.violation("V5", r, f"{cname}.get_genf returns a generating function without `self.verified({cc})` having been tested (StrategyDoesNotApply otherwise)")
            univariate = any(isinstance(x, ast.Call) and norm(x.func) in ("var", "sympy.var", "Symbol", "sympy.Symbol") for x in ast.walk(D.expanded(f, r.value)))
            if univariate:
                if (f"{cc}.extra_parameters", False) in gs:
                    ctx.ok("V5", f"{cname}.get_genf: the one-variable answer is given only for a class without statistics")
                else:
                    ctx.violation("V5", r, f"{cname}.get_genf returns a function of the size variable alone for a class that may track statistics: `{cc}.extra_parameters` "
                                  "must be refused with NotImplementedError first (the equations of a specification with statistics would silently lose them)")
    if n < 3:
        ctx.floor("V5", 99)


def v12_initial_conditions_bound(ctx) -> None:
    """get_initial_conditions(check) compares `check + 1` coefficients; both ways of getting
    them -- from the counts, and by generating objects of the root -- use that `check`."""
    P = ctx.P
    m = P.need_method("CombinatorialSpecification", "get_initial_conditions", own=True)
    f = m.node
    ctx.analysed(m)
    ps = [p for p in m.params() if p != "self"]
    if not ps:
        raise AnalysisError("V12: get_initial_conditions(check) expected")
    chk = ps[0]
    rets = [r for r in C.returns_of(f) if r.value is not None]
    if len(rets) < 2:
        raise AnalysisError("V12: get_initial_conditions no longer has its two providers")
    for r in rets:
        if any(isinstance(x, ast.Name) and x.id == chk for x in ast.walk(D.expanded(f, r.value))):
            ctx.ok("V12", f"`{norm(r.value)[:50]}` is computed for the requested number of coefficients")
        else:
            ctx.violation("V12", r, f"`{norm(r.value)[:60]}` does not depend on `{chk}`: this provider hands back its default number of coefficients whatever was asked for, and the "
                          "comparison with the series expansion (zip / ==) is made against a list of another length")


def v13_dictionaries_kept_as_given(ctx) -> None:
    """A constructor keeps the strategy's parameter dictionaries as they are given: a key that
    is absent from a child's dictionary *means* that the child drops that statistic (it
    contributes 0), so a dictionary that is completed, defaulted or merged on the way in says
    something else than the strategy did."""
    P = ctx.P
    n = 0
    for cls in P.subclasses(P.need_class("Constructor"), strict=True):
        init = cls.methods.get("__init__")
        if init is None or "extra_parameters" not in init.params():
            continue
        f = init.node
        for st in walk_local(f):
            if not (isinstance(st, ast.Assign) and any(is_self_attr(t, "extra_parameters") for t in st.targets)):
                continue
            v0 = D.expanded(f, st.value)
            arms = [v0]
            # tuple(<conditional>) is the conditional of the tuples; a conditional is read arm by arm
            if isinstance(v0, ast.Call) and norm(v0.func) == "tuple" and len(v0.args) == 1 and isinstance(v0.args[0], ast.IfExp):
                arms = [ast.Call(func=v0.func, args=[a_], keywords=[]) for a_ in (v0.args[0].body, v0.args[0].orelse)]
            elif isinstance(v0, ast.IfExp):
                arms = [v0.body, v0.orelse]
            for v in arms:
                n += 1
                txt = norm(v)
                if txt in ("tuple(tuple(({} for _ in children)))",):
                    txt = "tuple(({} for _ in children))"
                    v = v.args[0]
                if "extra_parameters" not in txt:
                    # the default when nothing is given: one empty dictionary per child
                    if isinstance(v, ast.Call) and norm(v.func) == "tuple" and v.args and isinstance(v.args[0], ast.GeneratorExp) and norm(v.args[0].elt) == "{}":
                        ctx.ok("V13", f"{cls.name}: without dictionaries, one empty dictionary per child")
                        continue
                    raise AnalysisError(f"V13: {cls.name}.__init__ stores `{txt[:60]}` as its dictionaries")
                if txt in ("extra_parameters", "tuple(extra_parameters)", "tuple((dict(_m) for _m in extra_parameters))", "tuple((_m.copy() for _m in extra_parameters))"):
                    ctx.ok("V13", f"{cls.name} keeps the strategy's dictionaries as given (`{txt}`)")
                    continue
                helpers = [c for c in ast.walk(v) if isinstance(c, ast.Call) and isinstance(c.func, ast.Attribute) and isinstance(c.func.value, ast.Name)
                           and c.func.value.id in ("self", "cls", cls.name) and P.find_method(cls, c.func.attr) is not None]
                grows = [x for c in helpers for x in ast.walk(P.find_method(cls, c.func.attr).node)
                         if (isinstance(x, ast.Dict) and any(k is None for k in x.keys)) or (isinstance(x, ast.Call) and isinstance(x.func, ast.Attribute)
                                                                                            and x.func.attr in ("setdefault", "update"))
                         or (isinstance(x, ast.Subscript) and isinstance(x.ctx, ast.Store))]
                grows += [x for x in ast.walk(v) if isinstance(x, ast.Dict) and any(k is None for k in x.keys)]
                if grows:
                    ctx.violation("V13", st, f"{cls.name}.__init__ stores `{txt[:70]}`: the dictionaries are completed on the way in (`{norm(grows[0])[:50]}`), but a key that is absent "
                                  "from a child's dictionary means that the child drops that statistic -- the added entry pours another statistic of the child into it")
                else:
                    raise AnalysisError(f"V13: {cls.name}.__init__ reworks the dictionaries (`{txt[:60]}`) in a way the analysis does not read")
    if n < 6:
        ctx.floor("V13", 99)


def v14_expansion_decides(ctx) -> None:
    """Whether a closed form has a power series is decided by computing the series.  The
    solver's closed forms have removable singularities at the origin
    ((1 - sqrt(1 - 4x^2)) / (2x^2)): any cheaper test on the expression -- its value under plain
    substitution, its denominator at 0 -- rejects correct candidates before they are expanded,
    and get_genf then finds none that matches the initial conditions."""
    P = ctx.P
    te = P.need_function("utils", "taylor_expand")
    f = te.node
    ctx.analysed(te)
    ps = te.params()
    if not ps:
        raise AnalysisError("V14: taylor_expand(genf, n) expected")
    gname = ps[0]
    ser = [c for c in walk_local(f) if isinstance(c, ast.Call) and isinstance(c.func, ast.Attribute) and c.func.attr == "series"]
    if not ser:
        raise AnalysisError("V14: taylor_expand no longer calls .series()")
    first = min(c.lineno for c in ser)
    early = [x for x in walk_local(f) if isinstance(x, (ast.Raise, ast.Return)) and x.lineno < first
             and not any(isinstance(p_, ast.ExceptHandler) for p_ in _anc(x, f))]
    bad = False
    for x in early:
        gs = [norm(t) for t, _p in C.flatten_guards(C.guards(f, x))]
        dep = [t for t in gs if any(isinstance(nm, ast.Name) and nm.id == gname for nm in ast.walk(ast.parse(t, mode="eval")))]
        # a local derived from the expression counts too
        if not dep:
            derived = {t_.id for st in walk_local(f) for t_, v in [PT.assign_value(st)] if isinstance(t_, ast.Name) and v is not None
                       and any(isinstance(nm, ast.Name) and nm.id == gname for nm in ast.walk(v))}
            dep = [t for t in gs if any(isinstance(nm, ast.Name) and nm.id in derived for nm in ast.walk(ast.parse(t, mode="eval")))]
        if dep:
            bad = True
            ctx.violation("V14", x, f"taylor_expand gives up under `{dep[0][:70]}` before the series is computed: a test on the expression is not a test on its series (closed forms "
                          "of algebraic systems are 0/0 at the origin under substitution), so correct candidates are thrown away and get_genf reports that none matches")
    if not bad:
        ctx.ok("V14", "taylor_expand rejects a candidate only when computing its series fails")


def _anc(node: ast.AST, stop: ast.AST):
    p_ = getattr(node, "_parent", None)
    while p_ is not None and p_ is not stop:
        yield p_
        p_ = getattr(p_, "_parent", None)


# which way a constructor's parameter maps combine the values that arrive at one target position (confirmed by reading):
# a union-type constructor sees the *same* statistic arrive from several positions (assign, equal values merged); a
# product sees the parts of one statistic (sum); a quotient hands one value to several positions (assign).
EXPECTED_MAP_KIND = {"DisjointUnion": "assign", "Complement": "assign", "Quotient": "assign", "CartesianProduct": "sum"}


def v15_map_kind_per_constructor(ctx) -> None:
    """Every `build_param_map` a constructor calls resolves -- through the class it is called on,
    `self` meaning the class of the method and its bases -- to the param_map of the kind that
    constructor needs.  Static methods bound by class name do not dispatch, and `self.` on a class
    that does not define the helper finds the base's summing version."""
    P = ctx.P
    n = 0
    for cname, want in EXPECTED_MAP_KIND.items():
        cls = P.need_class(cname)
        for mm in cls.methods.values():
            for c in walk_local(mm.node):
                if not (isinstance(c, ast.Call) and isinstance(c.func, ast.Attribute) and c.func.attr == "build_param_map" and isinstance(c.func.value, ast.Name)):
                    continue
                recv = c.func.value.id
                start = cls if recv in ("self", "cls") else P.classes.get(recv)
                if start is None:
                    raise AnalysisError(f"V15: cannot resolve `{norm(c.func)}` in {mm.qualname}")
                b = P.find_method(start, "build_param_map")
                if b is None:
                    raise AnalysisError(f"V15: {start.name} has no build_param_map")
                bound = [a.value.id for a in ast.walk(b.node) if isinstance(a, ast.Attribute) and a.attr == "param_map" and isinstance(a.value, ast.Name)]
                pm = None
                for r_ in bound:
                    k = b.cls if r_ in ("self", "cls") else P.classes.get(r_)
                    if k is not None:
                        pm = P.find_method(k, "param_map")
                if pm is None:
                    raise AnalysisError(f"V15: cannot tell which param_map {b.qualname} binds")
                acc = any(isinstance(x, ast.AugAssign) and isinstance(x.target, ast.Subscript) for x in walk_local(pm.node))
                kind = "sum" if acc else "assign"
                n += 1
                if kind == want:
                    ctx.ok("V15", f"{mm.qualname}: `{norm(c.func)}` resolves to {pm.qualname} ({kind}), the kind a {cname} needs")
                else:
                    ctx.violation("V15", c, f"{mm.qualname}: `{norm(c.func)}` resolves to {b.qualname} -> {pm.qualname}, which {'adds the values up' if acc else 'assigns'}; a {cname} "
                                  f"needs the map that {'assigns (the same statistic arrives from several positions)' if want == 'assign' else 'sums the parts'}: where several "
                                  "parent statistics meet in one child statistic the value comes out multiplied")
    if n < 4:
        ctx.floor("V15", 99)


def v16_injectivity_is_about_values(ctx) -> None:
    """A reverse rule can be an equivalence only if no two parent statistics are poured into
    one child statistic: the parameter dictionaries are injective, i.e. their *values* are
    pairwise distinct.  The same test on the dictionary itself (its keys) is always true."""
    P = ctx.P
    n = 0
    for cls in P.subclasses(P.need_class("Constructor"), strict=False):
        m = cls.methods.get("can_be_equivalent")
        if m is None:
            continue
        for c in walk_local(m.node):
            if not (isinstance(c, ast.Compare) and len(c.ops) == 1 and isinstance(c.ops[0], (ast.Eq, ast.NotEq))):
                continue
            sides = [D.expanded(m.node, x) if isinstance(x, ast.Name) else x for x in (c.left, c.comparators[0])]
            lens = [s_ for s_ in sides if isinstance(s_, ast.Call) and norm(s_.func) == "len" and len(s_.args) == 1]
            if len(lens) != 2:
                continue
            inner = []
            for s_ in lens:
                a = s_.args[0]
                a = D.expanded(m.node, a) if isinstance(a, ast.Name) else a
                if isinstance(a, ast.Call) and norm(a.func) in ("set", "frozenset") and len(a.args) == 1:
                    a = a.args[0]
                    a = D.expanded(m.node, a) if isinstance(a, ast.Name) else a
                while isinstance(a, ast.Call) and norm(a.func) in ("tuple", "list") and len(a.args) == 1:
                    a = a.args[0]
                    a = D.expanded(m.node, a) if isinstance(a, ast.Name) else a
                inner.append(a)
            if norm(inner[0]) != norm(inner[1]):
                continue
            n += 1
            e = inner[0]
            if isinstance(e, ast.Call) and isinstance(e.func, ast.Attribute) and e.func.attr == "values":
                ctx.ok("V16", f"{m.qualname}: the dictionaries are tested for distinct values")
            else:
                ctx.violation("V16", c, f"{m.qualname} tests `{norm(c)[:70]}`: the keys of a dictionary are distinct by construction, so this is always true -- a reverse rule that pours "
                              "two parent statistics into one child statistic is declared a possible equivalence, filed as such and preferred to a forward rule")
    if n < 1:
        ctx.floor("V16", 99)


def v17_quotient_bookkeeping(ctx) -> None:
    """A Quotient divides polynomials in the *product's* statistics: `_num_parent_params` is the
    number of statistics of the product's parent, and every Quotient a strategy hands out is
    given the dictionaries (a quotient without them treats every statistic as dropped)."""
    P = ctx.P
    init = P.need_method("Quotient", "__init__", own=True)
    ctx.analysed(init)
    ps = init.params()[1:]
    parent = ps[0]
    st = [s_ for s_ in walk_local(init.node) if isinstance(s_, ast.Assign) and any(is_self_attr(t, "_num_parent_params") for t in s_.targets)]
    if not st:
        raise AnalysisError("V17: Quotient.__init__ no longer keeps _num_parent_params")
    for s_ in st:
        if norm(D.expanded(init.node, s_.value)) == f"len({parent}.extra_parameters)":
            ctx.ok("V17", "the quotient's polynomial ring has one variable per statistic of the product's parent")
        else:
            ctx.violation("V17", s_, f"Quotient._num_parent_params is `{norm(s_.value)[:60]}`, not len({parent}.extra_parameters): the division is carried out in the statistics of the "
                          "product (A = B x C), whatever the counted factor keeps of them")
    n = 0
    for fi in P.all_functions():
        if fi.cls is None or fi.name != "reverse_constructor":
            continue
        for c in walk_local(fi.node):
            if isinstance(c, ast.Call) and norm(c.func) == "Quotient":
                n += 1
                if any(k.arg == "extra_parameters" for k in c.keywords) or len(c.args) >= 4:
                    ctx.ok("V17", f"{fi.qualname} hands the dictionaries to the Quotient it makes")
                else:
                    ctx.violation("V17", c, f"{fi.qualname} makes `{norm(c)[:50]}` without extra_parameters: the quotient then reads every statistic of the product as dropped by "
                                  "every factor, and the counted factor's terms lose the statistics of the parent")
    if n < 1:
        ctx.floor("V17", 99)


def v18_class_objects_keep_nothing(ctx) -> None:
    """The library's `CombinatorialClass` base keeps no state of its own: what a class is *called*
    in a specification (F_<label>) is the specification's business and changes from one
    specification to the next (expand_verified re-labels).  A method of the base class that
    remembers something on the class object makes the first answer stick."""
    P = ctx.P
    cls = P.need_class("CombinatorialClass")
    n = 0
    for m in cls.methods.values():
        if m.name == "__init__":
            continue
        n += 1
        for x in walk_local(m.node):
            hit = None
            if isinstance(x, ast.Attribute) and isinstance(x.ctx, ast.Store) and isinstance(x.value, ast.Name) and x.value.id == "self":
                hit = x
            elif isinstance(x, ast.Subscript) and isinstance(x.ctx, ast.Store) and isinstance(x.value, ast.Attribute) and x.value.attr == "__dict__":
                hit = x
            elif isinstance(x, ast.Call) and isinstance(x.func, ast.Attribute) and x.func.attr in ("setdefault", "update") and isinstance(x.func.value, ast.Attribute) \
                    and x.func.value.attr == "__dict__":
                hit = x
            elif isinstance(x, ast.Call) and isinstance(x.func, ast.Name) and x.func.id == "setattr" and x.args and norm(x.args[0]) == "self":
                hit = x
            if hit is not None:
                ctx.violation("V18", hit, f"{m.qualname} remembers something on the class object (`{norm(C.stmt_of(hit))[:60]}`): the same class is labelled differently in another "
                              "specification (after expand_verified, or in a verification strategy's own specification), and is then still called by its first name in the equations")
    if n >= 5 and not any(v.rule == "V18" for v in ctx.violations):
        ctx.ok("V18", f"the {n} methods of the CombinatorialClass base keep nothing on the object")
    elif n < 5:
        ctx.floor("V18", 99)
