"""
Engine G -- closure of extracted specifications (specification_extrator.py, specification.py)
-> C02.

A specification is closed when every class on a right-hand side is the left-hand side of
exactly one rule (or is empty and gets the lazy empty rule).  The extractor builds the label
level picture in three steps (decomposition rules of the proof tree, the labels left without
a left-hand side, one equivalence path for each of them) and turns each (parent, children)
into a rule; the specification keys the rules by their own class, folds equivalence chains
into path rules and hands every rule the rules of its children.  The rules below decide that
each step covers everything it has to and nothing is dropped on the way.  They do not decide
productivity (tree search / table method: C05, C03, C11) nor that a re-applied strategy
returns the same children (C14).
"""
from __future__ import annotations

import ast
from typing import List, Optional

from ..core import control as C
from ..core import dataflow as D
from ..core import pattern as PT
from ..core.program import AnalysisError, is_self_attr, norm, walk_local

EX = "SpecificationRuleExtractor"
SP = "CombinatorialSpecification"


def _skips(f, node, within=None):
    out = []
    for t, pol in C.guards(f, node, within=within):
        if isinstance(getattr(t, "_parent", None), ast.Assert):
            continue
        out.extend(C.flatten_guards([(t, pol)]))
    return out


def _atoms(gs):
    """(text, truth) pairs with `a not in b` written as (`a in b`, False), `a is not b` as
    (`a is b`, False), `a != b` as (`a == b`, False)."""
    out = set()
    flip = {ast.NotIn: "in", ast.IsNot: "is", ast.NotEq: "=="}
    for t, pol in gs:
        if isinstance(t, ast.Compare) and len(t.ops) == 1 and type(t.ops[0]) in flip:
            out.add((f"{norm(t.left)} {flip[type(t.ops[0])]} {norm(t.comparators[0])}", not pol))
        else:
            out.add((norm(t), pol))
    return out


def g1_decompositions(ctx) -> None:
    P = ctx.P
    m = P.need_method(EX, "_populate_decompositions", own=True)
    f = m.node
    ctx.analysed(m)
    loops = [l for l in walk_local(f) if isinstance(l, ast.For) and norm(l.iter) == "self.eqv_rulekeys" and isinstance(l.target, ast.Name)]
    if len(loops) != 1:
        ctx.violation("G1", f, "_populate_decompositions must visit every rule key of the proof tree (for key in self.eqv_rulekeys)", construct=f"{EX}._populate_decompositions loop")
        return
    lp = loops[0]
    k = lp.target.id
    un = PT.find_all(lp, f"_M_p, _M_c = _E_tab[{k}]")
    if not un:
        raise AnalysisError("G1: the actual rule of a tree key is not unpacked as (parent, children) = table[key]")
    b = un[0][1]
    tab = b["_E_tab"]
    src = tab
    ds = [d for d in D.definitions(f).get(tab, []) if d[1] is not None]
    if ds:
        src = norm(ds[0][1])
    if src == "self.ruledb.rule_from_equivalence_rule_dict(self.eqv_rulekeys)":
        ctx.ok("G1", "actual rules come from ruledb.rule_from_equivalence_rule_dict(all tree keys)")
    else:
        ctx.violation("G1", lp, f"the table of actual rules is `{src[:80]}`; it must be self.ruledb.rule_from_equivalence_rule_dict(self.eqv_rulekeys)")
    st1 = PT.find_all(lp, f"self.rules_dict[{b['_M_p']}] = {b['_M_c']}")
    st2 = PT.find_all(lp, f"self.eqvparent_to_parent[{k}[0]] = {b['_M_p']}")
    for what, st in (("the actual rule parent -> children", st1), ("which actual parent stands for the tree node's representative", st2)):
        if st and not _skips(f, st[0][0], within=lp):
            ctx.ok("G1", f"every tree key records {what}")
        elif st:
            ctx.violation("G1", st[0][0], f"{what} is recorded only under {[(norm(t), p) for t, p in _skips(f, st[0][0], within=lp)]}: a node of the proof tree is left without its rule")
        else:
            ctx.violation("G1", lp, f"_populate_decompositions no longer records {what}")


def g2_no_lhs_labels(ctx) -> None:
    P = ctx.P
    m = P.need_method(EX, "_no_lhs_labels", own=True)
    f = m.node
    ctx.analysed(m)
    rets = [r for r in C.returns_of(f) if r.value is not None]
    if len(rets) != 1:
        raise AnalysisError("G2: _no_lhs_labels has several returns")
    if isinstance(rets[0].value, ast.Name):
        res = rets[0].value.id
        ds = [d for d in D.definitions(f).get(res, []) if d[1] is not None]
    else:
        res = "<returned set>"
        ds = [(rets[0], rets[0].value, (), "assign")]
    forms = ("set(itertools.filterfalse(self.rules_dict.__contains__, itertools.chain.from_iterable(self.rules_dict.values())))",
             "{_M_l for _M_c in self.rules_dict.values() for _M_l in _M_c if _M_l not in self.rules_dict}",
             "set((_M_l for _M_c in self.rules_dict.values() for _M_l in _M_c if _M_l not in self.rules_dict))")
    val = ds[0][1] if ds else None
    if val is not None:
        inner = D.resolve(D.definitions(f), val)
        # resolve nested single-use names
        txt = val
    if val is not None:
        val = D.expanded(f, val)
    forms = forms + ("{_M_l for _M_l in itertools.chain.from_iterable(self.rules_dict.values()) if _M_l not in self.rules_dict}",
                     "set((_M_l for _M_l in itertools.chain.from_iterable(self.rules_dict.values()) if _M_l not in self.rules_dict))",
                     "{_M_l for _M_l in itertools.chain.from_iterable(self.rules_dict.values()) if not _M_l in self.rules_dict}")
    if val is not None and any(PT.match(PT.compile_pattern(p), val) is not None for p in forms):
        ctx.ok("G2", "labels without a left-hand side = all right-hand labels that are not keys of rules_dict (nothing filtered besides)")
    else:
        # allow the two-step form: all_rhs = chain...; set(filterfalse(contains, all_rhs))
        two = PT.match(PT.compile_pattern("set(itertools.filterfalse(self.rules_dict.__contains__, _M_a))"), val) if val is not None else None
        if two is not None:
            ad = [d for d in D.definitions(f).get(two["_M_a"], []) if d[1] is not None]
            if ad and norm(ad[0][1]) == "itertools.chain.from_iterable(self.rules_dict.values())":
                ctx.ok("G2", "labels without a left-hand side = all right-hand labels that are not keys of rules_dict (nothing filtered besides)")
            else:
                ctx.violation("G2", rets[0], "the right-hand labels must be all labels of self.rules_dict.values()")
        else:
            ctx.violation("G2", rets[0], f"_no_lhs_labels must collect every right-hand label that is not a key of self.rules_dict; found `{norm(val)[:100] if val is not None else '?'}`: "
                          "a class left out never gets its equivalence path and the specification is not closed")
    adds = [c for c in walk_local(f) if isinstance(c, ast.Call) and norm(c.func) == f"{res}.add" and len(c.args) == 1 and norm(c.args[0]) == "self.root_label"]
    if adds and all(_atoms(C.flatten_guards(C.guards(f, a))) == {("self.root_label in self.rules_dict", False)} for a in adds):
        ctx.ok("G2", "the root joins them when it is not a left-hand side itself")
    else:
        ctx.violation("G2", f, "the root label must be added exactly when `self.root_label not in self.rules_dict` (a root that is only equivalent to a tree node needs its path too)",
                      construct=f"{EX}._no_lhs_labels root")


def g3_equivalence_paths(ctx) -> None:
    P = ctx.P
    m = P.need_method(EX, "_populate_equivalences", own=True)
    f = m.node
    ctx.analysed(m)
    loops = [l for l in f.body if isinstance(l, ast.For) and norm(l.iter) == "self._no_lhs_labels()" and isinstance(l.target, ast.Name)]
    if len(loops) != 1:
        ctx.violation("G3", f, "_populate_equivalences must treat every label of self._no_lhs_labels()", construct=f"{EX}._populate_equivalences loop")
        return
    lp = loops[0]
    lab = lp.target.id
    want_call = f"self.ruledb.equivdb.find_path({lab}, self.eqvparent_to_parent[self.ruledb.equivdb[{lab}]])"
    paths = []
    for inner_loop in walk_local(lp):
        if not isinstance(inner_loop, ast.For) or inner_loop is lp or not isinstance(inner_loop.target, ast.Tuple) or len(inner_loop.target.elts) != 2:
            continue
        mt = PT.match(PT.compile_pattern("zip(_E_p[:-1], _E_p[1:])"), inner_loop.iter)
        if mt is None:
            continue
        src = norm(D.expanded(f, ast.parse(mt["_E_p"], mode="eval").body))
        if src == want_call:
            paths.append((inner_loop, {"_M_a": norm(inner_loop.target.elts[0]), "_M_b": norm(inner_loop.target.elts[1])}))
    if not paths:
        # which part is off?
        fp = [c for c in walk_local(lp) if isinstance(c, ast.Call) and norm(c.func).endswith("equivdb.find_path")]
        if not fp:
            ctx.violation("G3", lp, f"each label without a left-hand side must be connected by equivdb.find_path({lab}, <tree parent of its representative>)")
            return
        a = [norm(D.expanded(f, x)) for x in fp[0].args]
        want = [lab, f"self.eqvparent_to_parent[self.ruledb.equivdb[{lab}]]"]
        if a != want:
            ctx.violation("G3", fp[0], f"the path must lead from the label itself to the actual parent standing for its representative: find_path({', '.join(want)}); found ({', '.join(a)})")
        else:
            ctx.violation("G3", lp, "the path must be walked as consecutive pairs zip(path[:-1], path[1:])")
        return
    ctx.ok("G3", "each such label is connected from itself to the actual parent that stands for its representative, along consecutive pairs of the path")
    inner, b = paths[0]
    pa, ch = b["_M_a"], b["_M_b"]
    # every label without a rule of its own gets its path: nothing about the label lets the walk be skipped
    sk0 = _atoms(_skips(f, inner, within=lp))
    if sk0:
        ctx.violation("G3", inner, f"the path of a label is walked only under {sorted(sk0)[:2]}: a label that is skipped (it may be the representative of its class without being the "
                      "member that was expanded) stays without a rule, and the specification has a class on a right-hand side that is nobody's left-hand side")
    st = PT.find_all(inner, f"self.rules_dict[{pa}] = ({ch},)")
    if st:
        sk = _atoms(_skips(f, st[0][0], within=inner))
        if sk <= {(f"{pa} in self.rules_dict", False)}:
            ctx.ok("G3", "every step of the path becomes a one-child rule, unless the class already has a rule")
        else:
            ctx.violation("G3", st[0][0], f"a step of the path is recorded only under {sorted(sk)}: a class on the path is left without a rule")
        brk = [n for n in walk_local(inner) if isinstance(n, (ast.Break, ast.Continue, ast.Return))]
        for x in brk:
            gs = _atoms(C.flatten_guards(C.guards(f, x, within=inner)))
            if gs != {(f"{pa} in self.rules_dict", True)}:
                ctx.violation("G3", x, f"the walk along the path is cut short under {sorted(gs)}; it may stop only at a class that already has a rule ({pa} in self.rules_dict)")
    else:
        ctx.violation("G3", inner, f"each step must be recorded as self.rules_dict[{pa}] = ({ch},)")


def g4_rules_from_labels(ctx) -> None:
    P = ctx.P
    m = P.need_method(EX, "rules", own=True)
    f = m.node
    ctx.analysed(m)
    pat = PT.find_all(f, "for _M_p, _M_c in self.rules_dict.items():\n    yield self._find_rule(_M_p, _M_c)")
    if pat and not _skips(f, C.yields_of(f)[0]):
        ctx.ok("G4", "every (parent, children) of rules_dict is turned into a rule")
    else:
        ctx.violation("G4", f, "SpecificationRuleExtractor.rules must yield self._find_rule(parent, children) for every item of self.rules_dict, unfiltered", construct=f"{EX}.rules")
    fr = P.need_method(EX, "_find_rule", own=True)
    ctx.analysed(fr)
    g = fr.node
    ps = [p for p in D.param_names(g) if p != "self"]
    pa, ch = ps[0], ps[1]
    # reverse form: strategy stored for children[0] -> (parent,), applied to the class of children[0], reversed at 0
    rev = PT.find_all(g, f"_M_s = self.ruledb.eqv_rule_to_strategy[{ch}[0], ({pa},)]")
    if rev:
        s = rev[0][1]["_M_s"]
        app = [c for c in walk_local(g) if isinstance(c, ast.Call) and norm(c) == f"{s}(self.classdb.get_class({ch}[0]))"]
        rr = [r for r in C.returns_of(g) if r.value is not None and isinstance(r.value, ast.Call) and isinstance(r.value.func, ast.Attribute) and r.value.func.attr == "to_reverse_rule"]
        if app and rr and all(len(r.value.args) == 1 and norm(r.value.args[0]) == "0" for r in rr):
            ctx.ok("G4", "a rule stored in the other direction is re-applied to the class of the child and reversed at its only child")
        else:
            ctx.violation("G4", rev[0][0], f"the strategy stored under ({ch}[0], ({pa},)) must be applied to self.classdb.get_class({ch}[0]) and the result reversed with to_reverse_rule(0)")
    else:
        ctx.violation("G4", g, f"_find_rule must also look for the rule in the other direction: eqv_rule_to_strategy[({ch}[0], ({pa},))]", construct=f"{EX}._find_rule reverse")
    # two-way forms are narrowed to the single non-empty child
    narrow = "_M_r if len(_M_r.children) == 1 else _M_r.to_equivalence_rule()"
    direct = [x for x in walk_local(g) if isinstance(x, ast.IfExp) and PT.match(PT.compile_pattern(narrow), x) is not None]
    via = []
    for c in walk_local(g):
        if isinstance(c, ast.Call) and isinstance(c.func, ast.Attribute) and isinstance(c.func.value, ast.Name) and c.func.value.id in ("self", EX, "cls") and len(c.args) == 1:
            hm = P.find_method(P.need_class(EX), c.func.attr)
            if hm is not None and hm.node is not g:
                hr = [r for r in C.returns_of(hm.node) if r.value is not None]
                if len(hr) == 1 and PT.match(PT.compile_pattern(narrow), hr[0].value) is not None:
                    via.append(c)
    if len(direct) + len(via) >= 2:
        ctx.ok("G4", "a two-way rule with empty children is narrowed to its equivalence form")
    else:
        ctx.violation("G4", g, "a rule from the equivalence store must be returned as `rule if len(rule.children) == 1 else rule.to_equivalence_rule()`, in both directions",
                      construct=f"{EX}._find_rule equivalence form")
    raises = [r for r in C.raises_of(g)]
    if raises and isinstance(g.body[-1], ast.Raise):
        ctx.ok("G4", "a pair for which no stored strategy is found is an error, not a silent omission")
    else:
        ctx.violation("G4", g, "_find_rule must end by raising when no strategy is stored for the pair", construct=f"{EX}._find_rule missing")


def g5_specification_dict(ctx) -> None:
    P = ctx.P
    m = P.need_method(SP, "__init__", own=True)
    f = m.node
    ctx.analysed(m)
    ps = D.param_names(f)
    rules = ps[2]
    if PT.find_all(f, f"self.rules_dict = {{_M_r.comb_class: _M_r for _M_r in {rules}}}"):
        ctx.ok("G5", "the specification keys every rule by the rule's own class")
    else:
        ctx.violation("G5", f, f"CombinatorialSpecification.__init__ must build self.rules_dict = {{rule.comb_class: rule for rule in {rules}}} (all rules, keyed by their own class)",
                      construct=f"{SP}.__init__ rules_dict")
    root = ps[1]
    if PT.find_all(f, f"self.root = {root}"):
        ctx.ok("G5", "the root is the class handed in")
    else:
        ctx.violation("G5", f, f"self.root must be the `{root}` argument", construct=f"{SP}.__init__ root")
    order = [norm(c.func) for st in f.body for c in ast.walk(st) if isinstance(c, ast.Call) and norm(c.func) in ("self._group_equiv_in_path", "self._set_subrules", "self._enforce_labels")]
    if "self._set_subrules" in order and (("self._group_equiv_in_path" not in order) or order.index("self._group_equiv_in_path") < order.index("self._set_subrules")):
        ctx.ok("G5", "rules are wired to their children's rules after equivalence chains are folded")
    else:
        ctx.violation("G5", f, "_set_subrules() must run, after _group_equiv_in_path(): rules wired before the folding keep pointing at rules that are no longer in the specification",
                      construct=f"{SP}.__init__ order")
    ss = P.need_method(SP, "_set_subrules", own=True)
    ctx.analysed(ss)
    if PT.find_all(ss.node, "for _M_r in list(self):\n    _M_r.set_subrecs(self.get_rule)") or PT.find_all(ss.node, "for _M_r in list(self.rules_dict.values()):\n    _M_r.set_subrecs(self.get_rule)"):
        ctx.ok("G5", "every rule gets self.get_rule as the source of its children's rules (over a snapshot: empty rules are added lazily)")
    else:
        ctx.violation("G5", ss.node, "_set_subrules must call rule.set_subrecs(self.get_rule) for every rule of a snapshot list(self)", construct=f"{SP}._set_subrules")
    it = P.need_method(SP, "__iter__", own=True)
    rets = [r for r in C.returns_of(it.node) if r.value is not None]
    ys = C.yields_of(it.node)
    txt = norm(rets[0].value) if rets else (norm(ys[0]) if ys else "")
    if "self.rules_dict.values()" in txt:
        ctx.ok("G5", "iterating a specification gives all its rules")
    else:
        ctx.violation("G5", it.node, "CombinatorialSpecification.__iter__ must run over self.rules_dict.values()", construct=f"{SP}.__iter__")


def g6_lazy_empty_rule(ctx) -> None:
    P = ctx.P
    m = P.need_method(SP, "get_rule", own=True)
    f = m.node
    ctx.analysed(m)
    c = [p for p in D.param_names(f) if p != "self"][0]
    st = [(a, {"_E_v": norm(a.value)}) for a in walk_local(f) if isinstance(a, ast.Assign) and any(norm(t) == f"self.rules_dict[{c}]" for t in a.targets)]
    if not st:
        ctx.violation("G6", f, f"get_rule must store the lazily made rule under the class asked for (self.rules_dict[{c}])", construct=f"{SP}.get_rule store")
        return
    node, b = st[0]
    gs = _atoms(C.flatten_guards(C.guards(f, node)))
    # `try: return self.rules_dict[c]  except KeyError: <make up>` is the same test
    for t in walk_local(f):
        if isinstance(t, ast.Try) and len(t.body) == 1 and isinstance(t.body[0], ast.Return) and t.body[0].value is not None \
                and norm(t.body[0].value) == f"self.rules_dict[{c}]":
            for h in t.handlers:
                if h.type is not None and norm(h.type) == "KeyError" and any(node is x for st_ in h.body for x in ast.walk(st_)):
                    gs = set(gs) | {(f"{c} in self.rules_dict", False)}
    if (f"{c} in self.rules_dict", False) not in gs:
        ctx.violation("G6", node, f"a rule is made up although the class may already have one: the store must be under `{c} not in self.rules_dict`")
    elif (f"{c}.is_empty()", True) in gs:
        ctx.ok("G6", "a rule is made up only for a class without a rule that is empty")
    else:
        ctx.violation("G6", node, f"a rule is made up for a class without one without checking `{c}.is_empty()`: a missing rule is papered over by an empty rule and the class counts 0")
    v = b["_E_v"]
    if v in (f"EmptyStrategy()({c})", f"empty_strat({c})", f"EmptyStrategy()({c})"):
        ctx.ok("G6", "the made-up rule is EmptyStrategy applied to that very class")
    else:
        val = node.value
        ok = False
        if isinstance(val, ast.Call) and len(val.args) == 1 and norm(val.args[0]) == c:
            fn = val.func
            if isinstance(fn, ast.Name):
                ds = [d for d in D.definitions(f).get(fn.id, []) if d[1] is not None]
                ok = bool(ds) and norm(ds[0][1]).startswith("EmptyStrategy")
            else:
                ok = norm(fn).startswith("EmptyStrategy")
        if ok:
            ctx.ok("G6", "the made-up rule is EmptyStrategy applied to that very class")
        else:
            ctx.violation("G6", node, f"the made-up rule must be EmptyStrategy()({c}); found `{v[:80]}`")
    rets = [r for r in C.returns_of(f) if r.value is not None]
    def _is_stored(v: ast.AST) -> bool:
        if norm(v) == f"self.rules_dict[{c}]":
            return True
        if isinstance(v, ast.Name):      # rule = self.rules_dict[c] = <made up>
            asg = [a for a in walk_local(f) if isinstance(a, ast.Assign) and any(isinstance(t, ast.Name) and t.id == v.id for t in a.targets)]
            return len(asg) == 1 and any(norm(t) == f"self.rules_dict[{c}]" for t in asg[0].targets) and C.dominates(f, asg[0], v)
        return False

    if rets and all(_is_stored(r.value) for r in rets):
        ctx.ok("G6", "get_rule returns the rule stored for the class asked for")
    else:
        ctx.violation("G6", f, f"get_rule must return self.rules_dict[{c}]", construct=f"{SP}.get_rule return")


def g7_equivalence_folding(ctx) -> None:
    P = ctx.P
    m = P.need_method(SP, "_group_equiv_in_path", own=True)
    f = m.node
    ctx.analysed(m)
    init = PT.find_all(f, "_M_nh = {self.root}")
    if not init:
        raise AnalysisError("G7: the set of classes that stay visible does not start as {self.root}")
    nh = init[0][1]["_M_nh"]
    lp = False
    for loop in f.body:
        if isinstance(loop, ast.For) and norm(loop.iter) in ("self", "self.rules_dict.values()") and isinstance(loop.target, ast.Name):
            rv = loop.target.id
            adds = [c for c in walk_local(loop) if isinstance(c, ast.Call) and norm(c) == f"{nh}.add({rv}.comb_class)"]
            upds = [c for c in walk_local(loop) if isinstance(c, ast.Call) and norm(c) == f"{nh}.update({rv}.children)"]
            # for a rule that is not an equivalence both happen, whatever else holds
            if adds and upds and all(C.runs_under(f, c, {f"{rv}.is_equivalence()": False}, within=loop) is True for c in adds + upds):
                lp = True
    if lp:
        ctx.ok("G7", "visible classes = the root and both sides of every rule that is not an equivalence")
    else:
        ctx.violation("G7", f, f"`{nh}` must collect rule.comb_class and rule.children of every non-equivalence rule (and only skip equivalence rules): a class of a real rule "
                      "that is hidden loses its rule when the dictionary is filtered", construct=f"{SP}._group_equiv_in_path visible classes")
    flt = PT.find_all(f, f"self.rules_dict = {{_M_c: _M_r for _M_c, _M_r in self.rules_dict.items() if _M_c in {nh}}}")
    upd = PT.find_all(f, "self.rules_dict.update(_M_paths)")
    if flt and upd and C.dominates(f, flt[0][0], upd[0][0]):
        ctx.ok("G7", "exactly the hidden classes lose their rule, then the path rules are added")
    else:
        ctx.violation("G7", f, f"the dictionary must be filtered to the classes in `{nh}` and then updated with the path rules (in this order)", construct=f"{SP}._group_equiv_in_path filter")
    if upd:
        paths = upd[0][1]["_M_paths"]
        mk = PT.find_all(f, f"_M_n = EquivalencePathRule(_M_pr)")
        st = PT.find_all(f, f"{paths}[_M_n.comb_class] = _M_n")
        if mk and st and mk[0][1]["_M_n"] == st[0][1]["_M_n"]:
            pr = mk[0][1]["_M_pr"]
            closing = {(norm(t), p) for t, p in C.flatten_guards(C.guards(f, mk[0][0]))}
            if (f"{pr}[-1].children[0] in {nh}", True) in closing:
                ctx.ok("G7", "a path is closed exactly when it reaches a visible class, and keyed by its own first class")
            else:
                ctx.violation("G7", mk[0][0], f"a path must be closed when its last step leads to a visible class (`{pr}[-1].children[0] in {nh}`)")
            if PT.find_all(f, f"{pr}.clear()"):
                ctx.ok("G7", "the collected steps are dropped once the path is made")
            else:
                ctx.violation("G7", mk[0][0], f"`{pr}` must be cleared after a path rule is made from it (the next path would start with these steps)")
            ap = [c for c in walk_local(f) if isinstance(c, ast.Call) and norm(c.func) == f"{pr}.append"]
            okap = ap and all(any(p and norm(t).endswith(".is_equivalence()") for t, p in C.flatten_guards(C.guards(f, c))) for c in ap)
            if okap:
                ctx.ok("G7", "only equivalence rules become steps of a path")
            else:
                ctx.violation("G7", f, "only rules with is_equivalence() may be appended to the path being collected", construct=f"{SP}._group_equiv_in_path steps")
        else:
            ctx.violation("G7", f, "each EquivalencePathRule must be stored under its own comb_class", construct=f"{SP}._group_equiv_in_path path key")
    ext = PT.find_all(f, "_M_stack.extend(_M_r.children)")
    if ext and not [g for g in _skips(f, ext[0][0]) if "visited" not in norm(g[0]) and nh not in norm(g[0]) and norm(g[0]) != ext[0][1]["_M_stack"]]:
        ctx.ok("G7", "the walk continues into all children of every rule it meets")
    else:
        ctx.violation("G7", f, "the walk must push all children of each visited rule", construct=f"{SP}._group_equiv_in_path walk")
    # a hidden class (one that only occurs inside chains) is walked every time a chain reaches it: it can be the common tail
    # of two chains, and the second chain needs its steps as well.  Only visible classes are skipped when met again.
    if ext:
        for x in walk_local(f):
            if not isinstance(x, ast.Continue):
                continue
            gs = _atoms(C.flatten_guards(C.guards(f, x)))
            seen_again = [t for t, p_ in gs if p_ and t.endswith(" in visited")]
            if seen_again and not any(p_ and t.endswith(f" in {nh}") for t, p_ in gs):
                ctx.violation("G7", x, f"the walk skips every class it has met before (`{seen_again[0]}`), hidden ones too: a hidden class shared by two equivalence chains is "
                              "walked for the first only, the second chain is cut there -- its first step stays an ordinary rule into a class whose own rule is deleted")
            elif seen_again:
                ctx.ok("G7", "only visible classes are skipped when met again; hidden ones are walked for every chain through them")
    un = P.need_method(SP, "_ungroup_equiv_path", own=True)
    ctx.analysed(un)
    if PT.find_all(un.node, "for _M_r in _M_rule.rules:\n    _M_new[_M_r.comb_class] = _M_r") and PT.find_all(un.node, "self.rules_dict.update(_M_new)"):
        ctx.ok("G7", "unfolding puts every step of every path rule back under its own class")
    else:
        ctx.violation("G7", un.node, "_ungroup_equiv_path must restore every step r of every path rule under r.comb_class", construct=f"{SP}._ungroup_equiv_path")
    vs = P.need_method(SP, "_is_valid_spec", own=True)
    ctx.analysed(vs)
    rets = [r for r in C.returns_of(vs.node) if r.value is not None]
    pm = PT.match(PT.compile_pattern("self.root in _M_cs and all((_M_c in self.rules_dict or _M_c.is_empty() for _M_c in _M_cs))"), rets[0].value) if len(rets) == 1 else None
    col = PT.find_all(vs.node, "for _M_r in self:\n    _M_cs.add(_M_r.comb_class)\n    _M_cs.update(_M_r.children)")
    if pm is not None and col and col[0][1]["_M_cs"] == pm["_M_cs"]:
        ctx.ok("G7", "the validity test: the root occurs, and every class of every rule has a rule or is empty")
    else:
        ctx.violation("G7", vs.node, "_is_valid_spec must test that the root occurs and that every class on either side of every rule has a rule or is empty", construct=f"{SP}._is_valid_spec")


def g8_labels_after_final_rules(ctx) -> None:
    """Labels are handed out by walking the rules from the root; the walk sees what the
    specification finally consists of only after equivalence chains were folded into paths
    and the lazily added rules exist.  Labelled earlier, a specification and its own reloaded
    copy (which is built from the folded rules) number their classes differently."""
    P = ctx.P
    m = P.need_method(SP, "__init__", own=True)
    f = m.node
    ctx.analysed(m)
    def calls(name):
        return [C.stmt_of(c) for c in walk_local(f) if isinstance(c, ast.Call) and norm(c.func) == f"self.{name}"]
    lab, grp, sub = calls("_enforce_labels"), calls("_group_equiv_in_path"), calls("_set_subrules")
    if len(lab) != 1 or not grp:
        raise AnalysisError("G8: CombinatorialSpecification.__init__ no longer calls _group_equiv_in_path / _enforce_labels once")
    def top(st):
        cur = st
        while getattr(cur, "_parent", None) is not f:
            cur = cur._parent
        return f.body.index(cur)
    if sub and any(top(s_) < top(g) for s_ in sub for g in grp):
        ctx.violation("G8", sub[0], "the rules are wired to their children's recurrences (_set_subrules) before the equivalence chains are folded (_group_equiv_in_path): the rules "
                      "the folding creates are never wired, and asking them for anything raises")
    elif all(top(g) < top(lab[0]) for g in grp) and all(top(s_) < top(lab[0]) for s_ in sub):
        ctx.ok("G8", "labels are assigned after the rules were folded into equivalence paths and wired")
    else:
        ctx.violation("G8", lab[0], "labels are assigned (_enforce_labels) before the specification's rules have their final form (_group_equiv_in_path / _set_subrules): the "
                      "classes inside an equivalence path get labels, and a reloaded copy -- built from the folded rules -- numbers its classes differently")


def g9_ungroup_only_when_grouping(ctx) -> None:
    """Equivalence paths are taken apart only as the first step of putting them together
    (_group_equiv_in_path).  A specification built with group_equiv=False -- what from_dict
    does with rules that were dumped in their folded form -- keeps its rules as given."""
    P = ctx.P
    cls = P.need_class(SP)
    callers = []
    for m in cls.methods.values():
        for c in walk_local(m.node):
            if isinstance(c, ast.Call) and norm(c.func) == "self._ungroup_equiv_path":
                callers.append((m, c))
    if not callers:
        raise AnalysisError("G9: nobody calls _ungroup_equiv_path any more")
    for m, c in callers:
        if m.name == "_group_equiv_in_path":
            ctx.ok("G9", "equivalence paths are unfolded only inside _group_equiv_in_path")
        else:
            gs = {(norm(e), p_) for e, p_ in C.flatten_guards(C.guards(m.node, c))}
            if ("group_equiv", True) in gs:
                ctx.ok("G9", f"{m.qualname} unfolds equivalence paths under `group_equiv`")
            else:
                ctx.violation("G9", c, f"{m.qualname} unfolds the equivalence paths whether or not they are folded again: with group_equiv=False (a specification being loaded) the "
                              "rules inside a path, reverse steps included, become rules of the specification on their own")


def g10_loader_takes_rules_as_written(ctx) -> None:
    """to_jsonable writes the rules in their final form (paths already folded, or left bare
    when the specification was built with group_equiv=False).  The loader hands them to the
    constructor with group_equiv=False -- the constant: folding again, always or depending on
    what the rules look like, turns a specification that was saved bare into another one."""
    P = ctx.P
    m = P.need_method(SP, "from_dict", own=True)
    f = m.node
    ctx.analysed(m)
    mk = [c for c in walk_local(f) if isinstance(c, ast.Call) and norm(c.func) in (SP, "cls")]
    if not mk:
        raise AnalysisError("G10: from_dict no longer builds the specification with the constructor")
    init = P.need_method(SP, "__init__", own=True)
    ps = init.params()[1:]
    for c in mk:
        val = None
        for k in c.keywords:
            if k.arg == "group_equiv":
                val = k.value
        if val is None and "group_equiv" in ps and len(c.args) > ps.index("group_equiv"):
            val = c.args[ps.index("group_equiv")]
        if val is None:
            ctx.violation("G10", c, "from_dict builds the specification with the constructor's default group_equiv (True): a specification saved with bare equivalence rules "
                          "comes back folded, with other rules for the same classes")
            continue
        v = D.expanded(f, val)
        if isinstance(v, ast.Constant) and v.value is False:
            ctx.ok("G10", "the loader hands the rules to the constructor as they were written (group_equiv=False)")
        else:
            ctx.violation("G10", c, f"from_dict builds the specification with group_equiv=`{norm(v)[:60]}`: what is folded is decided while loading, so a specification that was "
                          "built (and saved) with bare equivalence rules is not the one that comes back")


def g11_one_place_hands_out_labels(ctx) -> None:
    """The equations name each class F_<label>.  A fresh label is `len(self._class_to_label)`,
    which is a label nobody has only as long as the labels in use are exactly 0 .. n-1, i.e. as
    long as get_label is the only writer of the two tables.  A second writer (labels taken over
    from elsewhere) leaves gaps, and the next fresh label is one that is already in use: two
    classes share a function name and the system of equations is false."""
    P = ctx.P
    cls = P.need_class(SP)
    tables = ("_class_to_label", "_label_to_class")
    gl = P.need_method(SP, "get_label", own=True)
    ctx.analysed(gl)
    n = 0
    for k in P.subclasses(cls, strict=False):
        for mm in k.methods.values():
            for w in walk_local(mm.node):
                hit = None
                if isinstance(w, ast.Subscript) and isinstance(w.ctx, (ast.Store, ast.Del)) and any(is_self_attr(w.value, t) for t in tables):
                    hit = w
                elif isinstance(w, ast.Call) and isinstance(w.func, ast.Attribute) and any(is_self_attr(w.func.value, t) for t in tables) \
                        and w.func.attr in ("update", "setdefault", "pop", "popitem", "clear", "__setitem__"):
                    hit = w
                elif isinstance(w, (ast.Assign, ast.AnnAssign)) and mm.name != "__init__" \
                        and any(is_self_attr(t_, t) for t in tables for t_ in (w.targets if isinstance(w, ast.Assign) else [w.target])):
                    v = w.value
                    if not (isinstance(v, ast.Dict) and not v.keys) and not (isinstance(v, ast.Call) and norm(v.func) == "dict" and not v.args):
                        hit = w
                if hit is None:
                    continue
                n += 1
                if mm is gl:
                    continue
                ctx.violation("G11", hit, f"{mm.qualname} writes the label tables itself (`{norm(C.stmt_of(hit))[:60]}`); get_label takes len(self._class_to_label) as the next unused "
                              "label, which is only unused while get_label alone numbers the classes 0, 1, 2, ... -- with labels brought in from elsewhere the next class gets a "
                              "label that is taken, and two classes share one F_i in the equations")
    f = gl.node
    fresh = [st for st in walk_local(f) if isinstance(st, ast.Assign) and norm(st.value) == "len(self._class_to_label)"]
    stores = [w for w in walk_local(f) if isinstance(w, ast.Subscript) and isinstance(w.ctx, ast.Store) and any(is_self_attr(w.value, t) for t in tables)]
    if fresh and len(stores) == 2 and n >= 2:
        ctx.ok("G11", "labels are handed out by get_label alone, densely from 0 (next label = number of labels in use), and entered in both tables")
    elif not ctx.violations:
        raise AnalysisError("G11: get_label no longer numbers the classes with len(self._class_to_label)")
