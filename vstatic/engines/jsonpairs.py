"""
Engine J -- serialisation tables (rules J1-J5).  DESIGN.md section 3 (engine J), C18.
"""
from __future__ import annotations

import ast
from typing import Dict, List, Optional, Set, Tuple

from ..core import control as C
from ..core import dataflow as D
from ..core.program import (
    AnalysisError,
    AnchorError,
    ClassInfo,
    FuncInfo,
    Program,
    is_self_attr,
    norm,
    parent,
    walk_local,
)

DISPATCH_KEYS = {
    "rule": {"class_module", "rule_class"},
    "strategy": {"class_module", "strategy_class"},
    "comb_class": {"class_module", "comb_class"},
}


def family(P: Program, cls: ClassInfo) -> Optional[str]:
    names = {c.name for c in P.mro(cls)}
    if "AbstractRule" in names:
        return "rule"
    if "AbstractStrategy" in names or "StrategyFactory" in names:
        return "strategy"
    if "CombinatorialClass" in names:
        return "comb_class"
    return None


# ---------------------------------------------------------------- writer side
def _const_key(e: ast.AST) -> Optional[str]:
    if isinstance(e, ast.Constant) and isinstance(e.value, str):
        return e.value
    return None


def written_keys(P: Program, cls: ClassInfo, depth: int = 0) -> Optional[Dict[str, Optional[ast.AST]]]:
    """key -> value expression (None if inherited value unknown) of the dict returned by
    cls.to_jsonable, following super().to_jsonable() through the MRO.  None = no writer."""
    m = P.find_method(cls, "to_jsonable")
    if m is None or depth > 8:
        return None
    return _written_keys_of(P, m, depth)


def _written_keys_of(P: Program, m: FuncInfo, depth: int) -> Dict[str, Optional[ast.AST]]:
    f = m.node
    env: Dict[str, Dict[str, Optional[ast.AST]]] = {}
    result: Optional[Dict[str, Optional[ast.AST]]] = None

    def dict_of(e: ast.AST) -> Optional[Dict[str, Optional[ast.AST]]]:
        e = D.strip_casts(e)
        if isinstance(e, ast.Dict):
            out: Dict[str, Optional[ast.AST]] = {}
            for k, v in zip(e.keys, e.values):
                if k is None:
                    inner = dict_of(v)
                    if inner is None:
                        raise AnalysisError(f"J: cannot read `**{norm(v)}` in {m.qualname}")
                    out.update(inner)
                    continue
                ck = _const_key(k)
                if ck is None:
                    raise AnalysisError(f"J: non-literal key `{norm(k)}` written by {m.qualname}")
                out[ck] = v
            return out
        if isinstance(e, ast.Call) and norm(e.func) == "super().to_jsonable":
            sm = P.super_method(m.cls, "to_jsonable") if m.cls is not None else None
            if sm is None:
                raise AnalysisError(f"J: super().to_jsonable() of {m.qualname} not found")
            return dict(_written_keys_of(P, sm, depth + 1))
        # the same call spelled with the base class: Base.to_jsonable(self)
        if isinstance(e, ast.Call) and isinstance(e.func, ast.Attribute) and e.func.attr == "to_jsonable" and isinstance(e.func.value, ast.Name) \
                and e.func.value.id in P.classes and len(e.args) == 1 and norm(e.args[0]) == "self" and m.cls is not None \
                and any(k.name == e.func.value.id for k in P.mro(m.cls)[1:]):
            bm = P.find_method(P.classes[e.func.value.id], "to_jsonable")
            if bm is None:
                raise AnalysisError(f"J: {norm(e.func)} of {m.qualname} not found")
            return dict(_written_keys_of(P, bm, depth + 1))
        if isinstance(e, ast.Name) and e.id in env:
            return env[e.id]
        return None

    for st in f.body:
        if isinstance(st, (ast.Assign, ast.AnnAssign)):
            tgt = st.targets[0] if isinstance(st, ast.Assign) else st.target
            val = st.value
            if isinstance(tgt, ast.Name) and val is not None:
                dv = dict_of(val)
                if dv is not None:
                    env[tgt.id] = dv
                continue
            if isinstance(tgt, ast.Subscript) and isinstance(tgt.value, ast.Name) and tgt.value.id in env:
                ck = _const_key(tgt.slice)
                if ck is None:
                    raise AnalysisError(f"J: non-literal key store in {m.qualname}")
                env[tgt.value.id][ck] = val
                continue
        elif isinstance(st, ast.Expr) and isinstance(st.value, ast.Call):
            c = st.value
            if isinstance(c.func, ast.Attribute) and isinstance(c.func.value, ast.Name) and c.func.value.id in env:
                if c.func.attr == "pop" and c.args:
                    ck = _const_key(c.args[0])
                    if ck is None:
                        raise AnalysisError(f"J: non-literal pop in {m.qualname}")
                    env[c.func.value.id].pop(ck, None)
                    continue
                if c.func.attr == "update":
                    for k in c.keywords:
                        if k.arg:
                            env[c.func.value.id][k.arg] = k.value
                    for a in c.args:
                        dv = dict_of(a)
                        if dv is None:
                            raise AnalysisError(f"J: cannot read update argument in {m.qualname}")
                        env[c.func.value.id].update(dv)
                    continue
        elif isinstance(st, ast.Return) and st.value is not None:
            result = dict_of(st.value)
            if result is None:
                raise AnalysisError(f"J: {m.qualname} returns `{norm(st.value)[:60]}`, not a dict the analysis can read")
            return result
        elif isinstance(st, ast.Expr) and isinstance(st.value, ast.Constant):
            continue  # docstring
        elif isinstance(st, (ast.If, ast.For, ast.While, ast.Try, ast.With)):
            raise AnalysisError(f"J: {m.qualname} is not straight-line code; writer table not understood")
    raise AnalysisError(f"J: {m.qualname} has no return")


# ---------------------------------------------------------------- reader side
def _dict_param(m: FuncInfo) -> str:
    ps = m.params()
    if m.is_classmethod() or (ps and ps[0] in ("cls", "self")):
        ps = ps[1:]
    if not ps:
        raise AnalysisError(f"J: {m.qualname} takes no dictionary")
    return ps[0]


def read_keys(m: FuncInfo) -> Tuple[Set[str], Set[str], bool]:
    """(required keys, optional keys, wildcard) consumed from the dict parameter."""
    d = _dict_param(m)
    req: Set[str] = set()
    opt: Set[str] = set()
    wild = False
    for n in walk_local(m.node):
        if isinstance(n, ast.Subscript) and isinstance(n.value, ast.Name) and n.value.id == d and isinstance(n.ctx, ast.Load):
            k = _const_key(n.slice)
            if k is not None:
                req.add(k)
        elif isinstance(n, ast.Call) and isinstance(n.func, ast.Attribute) and isinstance(n.func.value, ast.Name) and n.func.value.id == d:
            if n.func.attr in ("pop", "get") and n.args:
                k = _const_key(n.args[0])
                if k is not None:
                    (opt if (len(n.args) > 1 or n.func.attr == "get") else req).add(k)
        elif isinstance(n, ast.Compare) and len(n.ops) == 1 and isinstance(n.ops[0], (ast.In, ast.NotIn)) \
                and isinstance(n.comparators[0], ast.Name) and n.comparators[0].id == d:
            k = _const_key(n.left)
            if k is not None:
                opt.add(k)
        elif isinstance(n, ast.keyword) and n.arg is None and isinstance(n.value, ast.Name) and n.value.id == d:
            wild = True
    # a key that is both guarded by `in d` and subscripted is optional
    req -= {k for k in opt if k in req and _guarded_by_membership(m, d, k)}
    return req, opt, wild


def _guarded_by_membership(m: FuncInfo, d: str, k: str) -> bool:
    for n in walk_local(m.node):
        if isinstance(n, ast.Subscript) and isinstance(n.value, ast.Name) and n.value.id == d and _const_key(n.slice) == k:
            gt = C.guard_texts(m.node, n)
            if (f"'{k}' in {d}", True) not in gt:
                return False
    return True


def derived_keys(m: FuncInfo, e: ast.AST, depth: int = 0) -> Set[str]:
    """Keys of the dict parameter an expression is computed from (through local names)."""
    d = _dict_param(m)
    out: Set[str] = set()
    if depth > 6:
        return out
    defs = D.definitions(m.node)
    for n in ast.walk(e):
        if isinstance(n, ast.Subscript) and isinstance(n.value, ast.Name) and n.value.id == d:
            k = _const_key(n.slice)
            if k:
                out.add(k)
        elif isinstance(n, ast.Call) and isinstance(n.func, ast.Attribute) and isinstance(n.func.value, ast.Name) \
                and n.func.value.id == d and n.func.attr in ("pop", "get") and n.args:
            k = _const_key(n.args[0])
            if k:
                out.add(k)
        elif isinstance(n, ast.Name) and n.id != d:
            for st, val, path, kind in defs.get(n.id, []):
                if val is not None and val is not e:
                    out |= derived_keys(m, val, depth + 1)
                if kind == "for" and isinstance(st, ast.For):
                    # names appended in a loop: rules.append(rule)
                    pass
            # list built by .append(x) in a loop
            for c in walk_local(m.node):
                if isinstance(c, ast.Call) and isinstance(c.func, ast.Attribute) and c.func.attr in ("append", "extend", "add") \
                        and isinstance(c.func.value, ast.Name) and c.func.value.id == n.id and c.args and depth < 4:
                    out |= derived_keys(m, c.args[0], depth + 2)
    return out


# --------------------------------------------------------- constructor plumbing
def writer_attr_mentions(P: Program, cls: ClassInfo, w: FuncInfo, e: ast.AST) -> Set[str]:
    """attr_mentions, plus: locals of the writer stand for the attributes mentioned in the
    statements that fill them; iterating over `self` stands for what __iter__ reads."""
    out = attr_mentions(P, cls, e)
    locs = {n.id for n in ast.walk(e) if isinstance(n, ast.Name) and n.id not in ("self", "cls")}
    for st in w.node.body:
        names = {n.id for n in ast.walk(st) if isinstance(n, ast.Name)}
        if names & locs and not isinstance(st, ast.Return):
            out |= attr_mentions(P, cls, st)
    for n in ast.walk(e):
        if isinstance(n, ast.comprehension) and isinstance(n.iter, ast.Name) and n.iter.id == "self":
            it = P.find_method(cls, "__iter__")
            if it is not None:
                out |= attr_mentions(P, cls, it.node)
    return out


def attr_mentions(P: Program, cls: ClassInfo, e: ast.AST, depth: int = 0) -> Set[str]:
    """Underlying instance attributes a writer expression reads (properties expanded)."""
    out: Set[str] = set()
    if depth > 5:
        return out
    for n in ast.walk(e):
        if is_self_attr(n):
            m = P.find_method(cls, n.attr)
            if m is not None and m.is_property():
                for r in C.returns_of(m.node):
                    if r.value is not None:
                        out |= _prop_attrs(P, cls, m, r.value, depth + 1)
            else:
                out.add(n.attr)
    return out


def _prop_attrs(P: Program, cls: ClassInfo, m: FuncInfo, e: ast.AST, depth: int) -> Set[str]:
    out = attr_mentions(P, cls, e, depth)
    for n in ast.walk(e):
        if isinstance(n, ast.Attribute) and isinstance(n.value, ast.Call) and norm(n.value.func) == "super" and m.cls is not None:
            sm = P.super_method(m.cls, n.attr)
            if sm is not None and sm.is_property():
                for r in C.returns_of(sm.node):
                    if r.value is not None:
                        out |= _prop_attrs(P, cls, sm, r.value, depth + 1)
    return out


def init_param_attrs(P: Program, cls: ClassInfo, depth: int = 0) -> Dict[str, Set[str]]:
    """constructor parameter -> instance attributes assigned from it (through
    super().__init__ calls)."""
    init = P.find_method(cls, "__init__")
    if init is None or depth > 6:
        return {}
    return _init_param_attrs_of(P, init, depth)


def _init_param_attrs_of(P: Program, init: FuncInfo, depth: int) -> Dict[str, Set[str]]:
    params = init.params()[1:] + [a.arg for a in init.node.args.kwonlyargs]
    out: Dict[str, Set[str]] = {p: set() for p in params}
    for n in walk_local(init.node):
        if isinstance(n, (ast.Assign, ast.AnnAssign)):
            tgts = n.targets if isinstance(n, ast.Assign) else [n.target]
            val = n.value
            if val is None:
                continue
            names = {x.id for x in ast.walk(val) if isinstance(x, ast.Name)}
            for t in tgts:
                if is_self_attr(t):
                    for p in params:
                        if p in names:
                            out[p].add(t.attr)
        elif isinstance(n, ast.Call) and norm(n.func) == "super().__init__" and init.cls is not None:
            sm = P.super_method(init.cls, "__init__")
            if sm is None:
                continue
            sup = _init_param_attrs_of(P, sm, depth + 1)
            sparams = sm.params()[1:]
            for i, a in enumerate(n.args):
                if i < len(sparams):
                    names = {x.id for x in ast.walk(a) if isinstance(x, ast.Name)}
                    for p in params:
                        if p in names:
                            out[p] |= sup.get(sparams[i], set())
            for k in n.keywords:
                if k.arg:
                    names = {x.id for x in ast.walk(k.value) if isinstance(x, ast.Name)}
                    for p in params:
                        if p in names:
                            out[p] |= sup.get(k.arg, set())
    return out


# ------------------------------------------------------------------------ rules
def concrete_pairs(P: Program) -> List[ClassInfo]:
    out = []
    for c in P.classes.values():
        # proof_tree.py is the deprecated pre-specification format, imported by nothing in
        # the package and not covered by the property (DESIGN.md 2.1)
        if c.module.short == "proof_tree":
            continue
        fd = c.methods.get("from_dict")
        if fd is None:
            continue
        if any("abstractmethod" in d for d in fd.decorators):
            continue
        if c.name == "CombinatorialClass":
            continue
        if P.find_method(c, "to_jsonable") is None:
            continue
        out.append(c)
    return sorted(out, key=lambda c: c.name)


def j1_tables_agree(ctx) -> None:
    P = ctx.P
    pairs = concrete_pairs(P)
    ctx.extra["json_pairs"] = [c.name for c in pairs]
    for cls in pairs:
        fd = cls.methods["from_dict"]
        ctx.analysed(fd)
        W = written_keys(P, cls)
        if W is None:
            continue
        ctx.analysed(P.find_method(cls, "to_jsonable"))
        req, opt, wild = read_keys(fd)
        fam = family(P, cls)
        disp = DISPATCH_KEYS.get(fam, set()) if fam else set()
        consumed = req | opt | disp
        # (a) required by the reader but never written
        missing = sorted(req - set(W))
        for k in missing:
            ctx.violation("J1", fd.node, f"{cls.name}.from_dict reads key '{k}' without a default but {cls.name}.to_jsonable never writes it "
                          f"(written: {sorted(W)}): loading fails for every instance", construct=f"{cls.name}.from_dict key {k}")
        # (b) written from constructor state but never read
        pattrs = init_param_attrs(P, cls)
        settable = set().union(*pattrs.values()) if pattrs else set()
        lost = []
        for k, v in W.items():
            if k in consumed or wild:
                continue
            if v is None:
                continue
            if attr_mentions(P, cls, v) & settable:
                lost.append(k)
        for k in sorted(lost):
            ctx.violation("J1", P.find_method(cls, "to_jsonable").node,
                          f"{cls.name}.to_jsonable writes key '{k}' from constructor state but {cls.name}.from_dict never reads it "
                          f"(consumed: {sorted(consumed)}): the setting is lost on a round trip", construct=f"{cls.name}.to_jsonable key {k}")
        # (c) every constructor parameter that sets state is serialised under some key
        wm = P.find_method(cls, "to_jsonable")
        unsaved = []
        own_init = P.find_method(cls, "__init__")
        if own_init is not None:
            mentioned: Set[str] = set()
            for k, v in W.items():
                if v is not None:
                    mentioned |= writer_attr_mentions(P, cls, wm, v)
            none_default = _params_defaulting_to_none(own_init)
            for pname, attrs in pattrs.items():
                # a parameter defaulting to None means "recompute it" (children of a rule)
                if attrs and not (attrs & mentioned) and pname not in none_default:
                    unsaved.append((pname, sorted(attrs)))
        for pname, attrs in unsaved:
            ctx.violation("J1", wm.node, f"{cls.name}: constructor parameter `{pname}` sets {attrs} but no key written by to_jsonable "
                          f"reads that state (written: {sorted(W)}): the setting silently reverts to its default on reload",
                          construct=f"{cls.name}.to_jsonable parameter {pname}")
        if not missing and not lost and not unsaved:
            ctx.ok("J1", f"{cls.name}: written {sorted(W)} / consumed {sorted(consumed)}{' +**d' if wild else ''} agree")
    if len(pairs) < 11:
        ctx.floor("J1", 99)
    # dispatchers
    disp_sites = [
        ("rule", P.need_method("AbstractRule", "to_jsonable", own=True), P.need_method("AbstractRule", "from_dict", own=True)),
        ("strategy", P.need_method("AbstractStrategy", "to_jsonable", own=True), P.need_function("strategies.strategy", "strategy_from_dict")),
        ("strategy", P.need_method("StrategyFactory", "to_jsonable", own=True), P.need_function("strategies.strategy", "strategy_from_dict")),
        ("comb_class", P.need_method("CombinatorialClass", "to_jsonable", own=True), P.need_method("CombinatorialClass", "from_dict", own=True)),
    ]
    for fam, w, r in disp_sites:
        ctx.analysed(w)
        ctx.analysed(r)
        W = _written_keys_of(P, w, 0)
        req, opt, _ = read_keys(r)
        want = DISPATCH_KEYS[fam]
        if want <= set(W) and want <= req:
            mod_ok = any(k == "class_module" and v is not None and norm(v).endswith("__module__") for k, v in W.items())
            name_key = sorted(want - {"class_module"})[0]
            name_ok = W.get(name_key) is not None and norm(W[name_key]).endswith("__name__")
            if mod_ok and name_ok:
                ctx.ok("J1", f"{w.qualname} writes {sorted(want)} (module, class name) and {r.qualname} pops exactly them")
            else:
                ctx.violation("J1", w.node, f"{w.qualname} must write the class's __module__ and __name__ under {sorted(want)}", construct=f"{w.qualname} dispatch values")
        else:
            ctx.violation("J1", r.node, f"dispatcher {r.qualname} pops {sorted(req)} but {w.qualname} writes {sorted(W)}: expected both to use {sorted(want)}",
                          construct=f"{r.qualname} dispatch keys")


def _params_defaulting_to_none(init: FuncInfo) -> Set[str]:
    a = init.node.args
    names = [x.arg for x in a.posonlyargs + a.args]
    out = set()
    for nm, d in zip(names[len(names) - len(a.defaults):], a.defaults):
        if isinstance(d, ast.Constant) and d.value is None:
            out.add(nm)
    for kw, d in zip(a.kwonlyargs, a.kw_defaults):
        if d is not None and isinstance(d, ast.Constant) and d.value is None:
            out.add(kw.arg)
    return out


def _is_loaded_strategy(fd: FuncInfo, name: ast.Name) -> bool:
    """The callee is a local holding the strategy just loaded with <X>.from_dict(d.pop(..))."""
    r = D.reaching_value(fd.node, name, name.id)
    v = r[1] if r is not None else D.resolve(D.definitions(fd.node), name)
    return isinstance(v, ast.Call) and isinstance(v.func, ast.Attribute) and v.func.attr == "from_dict" and bool(derived_keys(fd, v))


def _call_builds(P: Program, strategy_name: ast.Name, fd: FuncInfo, cls: ClassInfo) -> bool:
    """Re-applying the loaded strategy gives back this very rule form only if some strategy
    __call__ of the package constructs `cls` (VerificationStrategy -> VerificationRule) and
    cls has no subclass: Rule itself is also what factories hand out as subclasses."""
    if P.subclasses(cls, strict=True):
        return False
    for k in P.subclasses(P.need_class("AbstractStrategy"), strict=False):
        m = k.methods.get("__call__")
        if m is None:
            continue
        for r in C.returns_of(m.node):
            if r.value is not None and isinstance(r.value, ast.Call) and norm(r.value.func) == cls.name:
                return True
    return False


def _return_calls(m: FuncInfo) -> List[ast.Call]:
    defs = D.definitions(m.node)
    out = []
    for r in C.returns_of(m.node):
        v = r.value
        if v is None:
            continue
        v = D.resolve(defs, v)
        if isinstance(v, ast.Call):
            out.append(v)
    return out


def j2_j3_constructor_round_trip(ctx) -> None:
    P = ctx.P
    for cls in concrete_pairs(P):
        fd = cls.methods["from_dict"]
        W = written_keys(P, cls) or {}
        calls = _return_calls(fd)
        if not calls:
            raise AnalysisError(f"J3: {fd.qualname} does not return a constructor call the analysis can follow")
        for c in calls:
            callee = norm(c.func)
            if callee == "cls":
                target = cls
                ctx.ok("J3", f"{fd.qualname} rebuilds through cls(...): subclasses keep their own form")
            elif family(P, cls) == "rule" and isinstance(c.func, ast.Name) and _is_loaded_strategy(fd, c.func) \
                    and not any(isinstance(st_, ast.Call) and norm(st_.func) == "cls" for st_ in ast.walk(fd.node)) \
                    and _call_builds(P, c.func, fd, cls):
                # VerificationRule: rebuilt by re-applying the strategy, whose __call__ makes exactly this form
                ctx.ok("J3", f"{fd.qualname} rebuilds by re-applying the loaded strategy")
                # ... to the saved class only: whatever else the rule holds (its children) is recomputed by the
                # strategy; a fixed extra argument replaces that computation (and the check that it still applies)
                for a in list(c.args[1:]) + [k.value for k in c.keywords]:
                    if not derived_keys(fd, a):
                        ctx.violation("J2", c, f"{fd.qualname} re-applies the loaded strategy with the fixed extra argument `{norm(a)}`: nothing is saved for it, "
                                      "so the reloaded rule gets this value instead of what the strategy computes for the class (children of a verification rule "
                                      "with dependencies are lost, and a class that no longer qualifies is accepted)")
                continue
            elif callee == cls.name and not P.subclasses(cls, strict=True) and family(P, cls) is None:
                target = cls
                ctx.ok("J3", f"{fd.qualname} rebuilds {cls.name}(...) (no subclass in the package)")
            else:
                ctx.violation("J3", c, f"{fd.qualname} rebuilds the object as `{callee}(...)` instead of `cls(...)`: a subclass (a user's own rule / pack / "
                              "specification class) comes back as the base class and no longer equals the original")
                continue
            init = P.find_method(target, "__init__")
            if init is None:
                continue
            pnames = init.params()[1:]
            pattrs = init_param_attrs(P, target)
            bound: List[Tuple[str, ast.AST]] = []
            for i, a in enumerate(c.args):
                if isinstance(a, ast.Starred):
                    continue
                if i < len(pnames):
                    bound.append((pnames[i], a))
            for k in c.keywords:
                if k.arg:
                    bound.append((k.arg, k.value))
            for pname, a in bound:
                keys_read = derived_keys(fd, a)
                attrs = pattrs.get(pname, set())
                wm = P.find_method(target, "to_jsonable")
                keys_written = {k for k, v in W.items() if v is not None and writer_attr_mentions(P, target, wm, v) & attrs}
                if attrs and not keys_written and not keys_read:
                    # nothing is saved for this state; the constructor recomputes it when the parameter is
                    # left at its default None.  Handing in a fixed value instead replaces what the original had.
                    dflt = _param_default(init.node, pname)
                    fixed = not any(isinstance(x, ast.Name) and x.id not in ("tuple", "list", "dict", "set", "frozenset") for x in ast.walk(a)) \
                        and not (isinstance(a, ast.Constant) and a.value is None)
                    if dflt is not None and isinstance(dflt, ast.Constant) and dflt.value is None and fixed:
                        ctx.violation("J2", c, f"{fd.qualname} passes the fixed value `{norm(a)}` to parameter `{pname}`; its state ({sorted(attrs)}) is not saved and is "
                                      "recomputed when the parameter is left out: the reloaded object gets this value instead of what the original computed")
                    continue
                if not attrs or not keys_written:
                    continue
                if not keys_read:
                    ctx.violation("J2", c, f"{fd.qualname} passes `{norm(a)}` to parameter `{pname}` although its state is written under "
                                  f"{sorted(keys_written)}: the saved value never reaches the constructor")
                    continue
                if keys_read & keys_written:
                    ctx.ok("J2", f"{fd.qualname}: parameter `{pname}` <- key(s) {sorted(keys_read)} ; its attribute(s) {sorted(attrs)} are written under {sorted(keys_written)}")
                else:
                    ctx.violation("J2", c, f"{fd.qualname} passes key(s) {sorted(keys_read)} to parameter `{pname}`, whose state is written under "
                                  f"{sorted(keys_written)}: the reloaded object is built from another setting")
    # base writer of strategy settings: key k is written from self._k and __init__ has parameter k -> self._k
    w = P.need_method("AbstractStrategy", "to_jsonable", own=True)
    W = _written_keys_of(P, w, 0)
    pattrs = init_param_attrs(P, P.need_class("AbstractStrategy"))
    for k, v in W.items():
        if k in DISPATCH_KEYS["strategy"]:
            continue
        attrs = attr_mentions(P, P.need_class("AbstractStrategy"), v) if v is not None else set()
        if k in pattrs and attrs and attrs <= pattrs[k]:
            ctx.ok("J2", f"AbstractStrategy: key '{k}' is written from {sorted(attrs)}, the attribute set from constructor parameter `{k}` (so cls(**d) restores it)")
        else:
            ctx.violation("J2", w.node, f"AbstractStrategy.to_jsonable writes key '{k}' from {sorted(attrs)}, which is not the attribute set from a "
                          f"constructor parameter named `{k}`: user strategies reloaded with cls(**d) get another setting", construct=f"AbstractStrategy.to_jsonable key {k}")


def _param_default(init: ast.FunctionDef, pname: str) -> Optional[ast.AST]:
    a = init.args
    pos = a.posonlyargs + a.args
    for i, p in enumerate(pos):
        if p.arg == pname:
            j = i - (len(pos) - len(a.defaults))
            return a.defaults[j] if j >= 0 else None
    for p, d in zip(a.kwonlyargs, a.kw_defaults):
        if p.arg == pname:
            return d
    return None


def j7_positional_settings(ctx) -> None:
    """Settings handed on to a constructor of the package positionally arrive at the parameter
    of that position, whatever the variable is called: a call `C(a, b)` whose arguments are
    plain names that are *also* parameter names of C, at other positions, has them exchanged
    (possibly_empty / inferrable, start / end, ...)."""
    P = ctx.P
    n = 0
    for fi in P.all_functions():
        if fi.cls is None:
            continue
        for c in walk_local(fi.node):
            if not isinstance(c, ast.Call) or len(c.args) < 2:
                continue
            target = None
            if isinstance(c.func, ast.Attribute) and c.func.attr == "__init__" and isinstance(c.func.value, ast.Call) and norm(c.func.value.func) == "super":
                target = P.super_method(fi.cls, "__init__")
            elif isinstance(c.func, ast.Name) and c.func.id in P.classes:
                target = P.find_method(P.classes[c.func.id], "__init__")
            elif isinstance(c.func, ast.Name) and c.func.id == "cls" and fi.is_classmethod():
                target = P.find_method(fi.cls, "__init__")
            if target is None:
                continue
            pnames = target.params()[1:]
            args = [(i, a.id) for i, a in enumerate(c.args) if isinstance(a, ast.Name)]
            if any(isinstance(a, ast.Starred) for a in c.args):
                continue
            n += 1
            wrong = [(i, nm) for i, nm in args if i < len(pnames) and nm in pnames and pnames.index(nm) != i and pnames[i] in [x for _, x in args] and pnames[i] != nm]
            if wrong:
                ctx.violation("J7", c, f"{fi.qualname}: `{norm(c)[:90]}` passes " + ", ".join(f"`{nm}` as parameter `{pnames[i]}`" for i, nm in wrong)
                              + f" of {target.qualname} (declared order: {', '.join(pnames)}): the settings are exchanged, and a round trip through the keyword-based "
                              "loader puts them back, so the reloaded object differs")
    # the same for method calls that resolve by name to one signature in the package: an
    # argument named like an optional parameter of the callee, which the call leaves at its
    # default, is passed under another parameter (set_empty(label, empty) after the signature
    # grew a parameter in between)
    byname: Dict[str, List] = {}
    for cls in P.classes.values():
        for m in cls.methods.values():
            byname.setdefault(m.name, []).append(m)
    nm_calls = 0
    for fi in P.all_functions():
        for c in walk_local(fi.node):
            if not (isinstance(c, ast.Call) and isinstance(c.func, ast.Attribute)) or any(isinstance(a, ast.Starred) for a in c.args):
                continue
            ms = byname.get(c.func.attr)
            if not ms or c.func.attr.startswith("__"):
                continue
            sigs = {tuple(m.params() if m.is_static() else m.params()[1:]) for m in ms}
            if len(sigs) != 1:
                continue
            pn = list(next(iter(sigs)))
            nm_calls += 1
            given = set(pn[:len(c.args)]) | {k.arg for k in c.keywords if k.arg}
            if any(k.arg is None for k in c.keywords):
                continue
            for i, a in enumerate(c.args):
                if isinstance(a, ast.Name) and a.id in pn and i < len(pn) and pn.index(a.id) != i and a.id not in given \
                        and all(_param_default(m.node, a.id) is not None for m in ms):
                    ctx.violation("J7", c, f"{fi.qualname}: `{norm(c)[:90]}` passes `{a.id}` as parameter `{pn[i]}` of {ms[0].qualname} (declared order: {', '.join(pn)}) "
                                  f"and leaves the parameter `{a.id}` at its default: the value arrives under another name")
    # a keyword that is given another parameter of the enclosing function although the function has a parameter of the
    # keyword's own name (`possibly_empty=inferrable` in a constructor that takes both)
    for fi in P.all_functions():
        ps = set(fi.params())
        for c in walk_local(fi.node):
            if not isinstance(c, ast.Call):
                continue
            for k in c.keywords:
                if k.arg and isinstance(k.value, ast.Name) and k.value.id != k.arg and k.arg in ps and k.value.id in ps:
                    ctx.violation("J7", k.value, f"{fi.qualname}: `{norm(c)[:70]}` passes the parameter `{k.value.id}` as `{k.arg}` although {fi.qualname} has a parameter `{k.arg}` "
                                  f"of its own, which is now ignored: the two settings are tied together")
    if nm_calls < 50:
        ctx.floor("J7", 99)
    if n < 10:
        ctx.floor("J7", 99)
    else:
        ctx.ok("J7", f"{n} positional constructor calls of the package: no setting is passed under another setting's position")


def _eq_compares_dict(P: Program, cls: ClassInfo) -> Optional[FuncInfo]:
    m = P.find_method(cls, "__eq__")
    if m is None:
        return None
    t = norm(m.node)
    if "self.__dict__" in t or "vars(self)" in t:
        return m
    return None


def _filters_dunder(m: FuncInfo) -> bool:
    t = norm(m.node)
    return "startswith('__')" in t or "__orig_class__" in t


def j4_equality_purity(ctx) -> None:
    P = ctx.P
    value_classes = []
    for c in P.classes.values():
        if P.find_method(c, "to_jsonable") is None:
            continue
        eqm = _eq_compares_dict(P, c)
        if eqm is not None:
            value_classes.append((c, eqm))
    names = sorted(c.name for c, _ in value_classes)
    ctx.extra["dict_compared_serialisable_classes"] = names
    if len(names) < 8:
        ctx.floor("J4", 99)
    # (a) nothing but __init__ writes the instance dictionary
    for c, eqm in value_classes:
        bad = False
        for m in c.methods.values():
            if m.name == "__init__":
                continue
            for n in walk_local(m.node):
                hit = None
                if isinstance(n, ast.Attribute) and is_self_attr(n) and isinstance(n.ctx, (ast.Store, ast.Del)):
                    hit = n
                elif isinstance(n, ast.Call) and norm(n.func) in ("setattr", "object.__setattr__") and n.args and norm(n.args[0]) == "self":
                    hit = n
                elif isinstance(n, ast.Attribute) and n.attr == "__dict__" and isinstance(n.value, ast.Name) and n.value.id == "self":
                    p = parent(n)
                    if isinstance(p, ast.Attribute) and p.attr in ("setdefault", "update", "pop", "clear", "__setitem__"):
                        hit = p
                    elif isinstance(p, ast.Subscript) and isinstance(p.ctx, (ast.Store, ast.Del)):
                        hit = p
                elif isinstance(n, ast.Call) and norm(n.func) == "vars" and n.args and norm(n.args[0]) == "self":
                    p = parent(n)
                    if isinstance(p, (ast.Attribute, ast.Subscript)):
                        hit = n
                # contents of what the dictionary holds: self.attr[k] = v, self.attr.append(...), ...
                if hit is None and isinstance(n, ast.Subscript) and isinstance(n.ctx, (ast.Store, ast.Del)) and is_self_attr(n.value):
                    hit = n
                    inner_state = True
                elif hit is None and isinstance(n, ast.Call) and isinstance(n.func, ast.Attribute) and is_self_attr(n.func.value) \
                        and n.func.attr in ("append", "extend", "add", "update", "setdefault", "pop", "popitem", "clear", "remove", "discard", "insert", "__setitem__"):
                    hit = n
                    inner_state = True
                else:
                    inner_state = False
                if hit is not None and inner_state:
                    bad = True
                    ctx.violation("J4", C.stmt_of(hit), f"{m.qualname} changes the contents of `{norm(hit.value if isinstance(hit, ast.Subscript) else hit.func.value)}` outside "
                                  f"__init__, and {eqm.qualname} compares __dict__ (contents included): an instance that has been used no longer equals a fresh or reloaded one "
                                  "with the same settings")
                    continue
                if hit is not None:
                    bad = True
                    ctx.violation("J4", C.stmt_of(hit), f"{m.qualname} writes into the instance __dict__ outside __init__, and {eqm.qualname} compares __dict__: "
                                  "two strategies with the same settings stop being equal once one of them has been used")
        if not bad:
            ctx.ok("J4", f"{c.name}: only __init__ writes the instance dictionary that {eqm.qualname} compares")
    # (b) no instantiation through a subscripted generic alias
    bad_alias = 0
    byname = {c.name: eqm for c, eqm in value_classes}
    for fi in P.all_functions():
        for n in walk_local(fi.node):
            if isinstance(n, ast.Call) and isinstance(n.func, ast.Subscript):
                base = norm(n.func.value).split(".")[-1]
                if base in byname and not _filters_dunder(byname[base]):
                    bad_alias += 1
                    ctx.violation("J4", n, f"`{norm(n)[:60]}` instantiates {base} through a subscripted generic alias: typing plants __orig_class__ in the "
                                  f"instance __dict__, which {byname[base].qualname} compares -- this instance never equals a reloaded one")
    if bad_alias == 0:
        ctx.ok("J4", "no __dict__-compared serialisable class is instantiated through a subscripted generic alias")


def j5_bijection_maps(ctx) -> None:
    P = ctx.P
    m = P.need_method("Bijection", "_populate_json_map", own=True)
    f = m.node
    ctx.analysed(m)
    jm = m.params()[1] if m.is_static() else m.params()[2]
    idm = m.params()[2] if m.is_static() else m.params()[3]
    loops = [n for n in walk_local(f) if isinstance(n, ast.For) and isinstance(n.target, ast.Tuple) and len(n.target.elts) == 2
             and isinstance(n.target.elts[0], ast.Tuple) and len(n.target.elts[0].elts) == 2]
    if len(loops) != 1:
        raise AnalysisError("J5: cannot find `for (c1, c2), value in tuple_map.items()` in Bijection._populate_json_map")
    loop = loops[0]
    c1, c2 = norm(loop.target.elts[0].elts[0]), norm(loop.target.elts[0].elts[1])
    val = norm(loop.target.elts[1])
    defs = D.definitions(f)

    def role(e: ast.AST) -> str:
        e = D.resolve(defs, e)
        if isinstance(e, ast.Name):
            ds = defs.get(e.id, [])
            if len(ds) == 1 and ds[0][1] is not None and isinstance(ds[0][1], ast.Tuple) and len(ds[0][2]) == 1:
                e = ds[0][1].elts[ds[0][2][0]]
        t = norm(e)
        if t == f"{idm}[{c1}]":
            return "first"
        if t == f"{idm}[{c2}]":
            return "second"
        return "?" + t

    n_outer = 0
    for n in walk_local(loop):
        key = None
        if isinstance(n, ast.Subscript) and isinstance(n.value, ast.Name) and n.value.id == jm:
            key = n.slice
        elif isinstance(n, ast.Call) and isinstance(n.func, ast.Attribute) and isinstance(n.func.value, ast.Name) and n.func.value.id == jm \
                and n.func.attr in ("get", "setdefault", "pop") and n.args:
            key = n.args[0]
        elif isinstance(n, ast.Compare) and len(n.ops) == 1 and isinstance(n.ops[0], (ast.In, ast.NotIn)) and norm(n.comparators[0]) == jm:
            key = n.left
        if key is None:
            continue
        n_outer += 1
        r = role(key)
        if r == "first":
            ctx.ok("J5", f"_populate_json_map: outer key `{norm(key)}` is the id of the first class of the pair")
        else:
            ctx.violation("J5", n, f"the nested json map is addressed with `{norm(key)}` ({r}) at the outer level; writer and reader agree on "
                          "outer = first class, inner = second class, so entries of one domain class overwrite each other")
    if n_outer < 1:
        ctx.floor("J5", 99)
    # inner keys / values
    for n in walk_local(loop):
        via_setdefault = (isinstance(n, ast.Subscript) and isinstance(n.value, ast.Call) and isinstance(n.value.func, ast.Attribute)
                          and n.value.func.attr == "setdefault" and norm(n.value.func.value) == jm)
        if via_setdefault or isinstance(n, ast.Subscript) and isinstance(n.value, ast.Subscript) and isinstance(n.value.value, ast.Name) and n.value.value.id == jm:
            r = role(n.slice)
            if r == "second":
                ctx.ok("J5", "_populate_json_map: inner key is the id of the second class")
            else:
                ctx.violation("J5", n, f"inner key `{norm(n.slice)}` is not the id of the second class of the pair")
        if isinstance(n, ast.Dict) and n.keys and all(k is not None for k in n.keys):
            for k, v in zip(n.keys, n.values):
                r = role(k)
                if r == "second" and norm(v) == val:
                    ctx.ok("J5", "_populate_json_map: new inner dict {id(second): value}")
                else:
                    ctx.violation("J5", n, f"inner dictionary entry `{norm(k)}: {norm(v)}` is not {{id of second class: value}}")
    # every (first, second, value) triple is stored, whether or not the first class was seen before
    body_txt = [norm(st) for st in loop.body]
    stores_new = [n for n in walk_local(loop) if isinstance(n, ast.Assign) and isinstance(n.targets[0], ast.Subscript) and norm(n.targets[0].value) == jm
                  and isinstance(n.value, ast.Dict) and len(n.value.keys) == 1]
    stores_in = [n for n in walk_local(loop) if isinstance(n, ast.Assign) and isinstance(n.targets[0], ast.Subscript)
                 and (isinstance(n.targets[0].value, ast.Subscript) and norm(n.targets[0].value.value) == jm
                      or isinstance(n.targets[0].value, ast.Call) and norm(n.targets[0].value.func) == f"{jm}.setdefault")]
    covered = False
    for n in stores_in:
        if C.stmt_of(n) in loop.body and isinstance(n.targets[0].value, ast.Call):
            covered = True  # json_map.setdefault(first, {})[second] = value, unconditional
    if stores_new and stores_in:
        g_new = C.guard_texts(f, stores_new[0])
        g_in = C.guard_texts(f, stores_in[0])
        neg = {(t, not p) for t, p in g_new}
        if any(t.endswith(f"not in {jm}") or t.endswith(f"in {jm}") for t, _ in g_new) and (neg & g_in):
            covered = True
    if covered:
        ctx.ok("J5", "_populate_json_map stores every pair, whether or not its first class already has an entry")
    else:
        ctx.violation("J5", loop, "some pairs are never stored: when the first class already has an entry the (second class, value) pair must still be added "
                      "(`json_map[first][second] = value`); otherwise only one pairing per domain class survives the round trip")
    # reader orientation
    fd = P.need_method("Bijection", "from_dict", own=True)
    ctx.analysed(fd)
    comps = [n for n in walk_local(fd.node) if isinstance(n, ast.DictComp) and len(n.generators) == 2]
    dpar = _dict_param(fd)
    nested_keys = {k for dc in comps for k in ("order", "index_data") if norm(dc.generators[0].iter) == f"{dpar}['{k}'].items()"}
    if len(nested_keys) == 1:
        # one writer (_populate_json_map) produces both maps: two readers that take them apart differently cannot both be right
        other = ({"order", "index_data"} - nested_keys).pop()
        ctx.violation("J5", fd.node, f"Bijection.from_dict reads '{sorted(nested_keys)[0]}' as a nested map (outer id -> inner id -> value) but '{other}' in another "
                      "way; both are written by the same helper (_populate_json_map), so one of them cannot be loaded back", construct="Bijection.from_dict sibling readers")
        return
    if len(comps) < 2:
        raise AnalysisError("J5: Bijection.from_dict no longer rebuilds its two maps with nested comprehensions")
    for dc in comps:
        g1, g2 = dc.generators
        if not (isinstance(g1.target, ast.Tuple) and isinstance(g2.target, ast.Tuple)):
            raise AnalysisError("J5: comprehension targets not understood in Bijection.from_dict")
        o, sub = norm(g1.target.elts[0]), norm(g1.target.elts[1])
        i = norm(g2.target.elts[0])
        key = dc.key
        okr = (isinstance(key, ast.Tuple) and len(key.elts) == 2 and o in norm(key.elts[0]) and i in norm(key.elts[1])
               and i not in norm(key.elts[0]) and norm(g2.iter) == f"{sub}.items()")
        if okr:
            ctx.ok("J5", f"Bijection.from_dict: pair = (class[outer key], class[inner key]) for `{norm(g1.iter)}`")
        else:
            ctx.violation("J5", dc, "Bijection.from_dict rebuilds a pair with outer/inner ids in another orientation than _populate_json_map writes them")
    # both maps are written and both are read from their own key
    tj = P.need_method("Bijection", "to_jsonable", own=True)
    calls = [c for c in walk_local(tj.node) if isinstance(c, ast.Call) and norm(c.func).endswith("_populate_json_map")]
    srcs = sorted(norm(c.args[0]) for c in calls if c.args)
    if srcs == ["self._get_order", "self._index_data"]:
        ctx.ok("J5", "to_jsonable serialises both the order map and the index data")
    else:
        ctx.violation("J5", tj.node, f"Bijection.to_jsonable serialises {srcs}; expected the order map and the index data", construct="Bijection.to_jsonable maps")


def j6_all_rules_written(ctx) -> None:
    """The specification writes *every* rule it holds (the reader rebuilds rules_dict from
    exactly that list; a filtered list loses classes, e.g. an empty start class)."""
    P = ctx.P
    m = P.need_method("CombinatorialSpecification", "to_jsonable", own=True)
    W = _written_keys_of(P, m, 0)
    v = W.get("rules")
    if v is None:
        ctx.violation("J6", m.node, "CombinatorialSpecification.to_jsonable no longer writes its rules", construct="CombinatorialSpecification.to_jsonable rules")
        return
    comps = [n for n in ast.walk(v) if isinstance(n, (ast.ListComp, ast.GeneratorExp))]
    ok = bool(comps) and len(comps[0].generators) == 1 and not comps[0].generators[0].ifs and norm(comps[0].generators[0].iter) in ("self", "self.rules_dict.values()")
    if ok:
        ctx.ok("J6", "the specification writes every rule it holds, unfiltered")
    else:
        ctx.violation("J6", v, "the list written under 'rules' is not the unfiltered list of the specification's rules: a rule left out is lost (the loader can only "
                      "re-create empty rules for *children*, not for the start class)")
    w2 = W.get("root")
    if w2 is not None and norm(w2) == "self.root.to_jsonable()":
        ctx.ok("J6", "the start class is written")
    else:
        ctx.violation("J6", m.node, "the specification must write its start class under 'root'", construct="CombinatorialSpecification.to_jsonable root")


# ------------------------------------------------------------------------ J8
def _norm_depth(e: ast.AST) -> int:
    """Levels of nesting at which the value is rebuilt as a container of a fixed type:
    tuple(x) -> 1, tuple(tuple(y) for y in x) -> 2, ..."""
    if isinstance(e, ast.IfExp):
        return min(_norm_depth(e.body), _norm_depth(e.orelse))
    if isinstance(e, (ast.Tuple, ast.List)) and not e.elts:
        return 99
    if isinstance(e, ast.Call) and isinstance(e.func, ast.Name) and e.func.id in ("tuple", "list", "frozenset") and not e.keywords:
        if not e.args:
            return 99
        a = e.args[0]
        if isinstance(a, (ast.GeneratorExp, ast.ListComp)) and len(a.generators) == 1:
            return 1 + _norm_depth(a.elt)
        return 1
    return 0


def _list_depth(e: ast.AST) -> int:
    if isinstance(e, ast.ListComp):
        return 1 + _list_depth(e.elt)
    if isinstance(e, ast.IfExp):
        return max(_list_depth(e.body), _list_depth(e.orelse))
    return 0


def j8_container_normalisation(ctx) -> None:
    """A class compared by __dict__ whose state is saved as (nested) JSON lists is reloaded
    from lists; it equals the original only if __init__ rebuilds every level the writer
    saves as a list into one fixed container type, whatever the caller passed."""
    P = ctx.P
    n = 0
    for cls in concrete_pairs(P):
        if _eq_compares_dict(P, cls) is None:
            continue
        init = P.find_method(cls, "__init__")
        w = P.find_method(cls, "to_jsonable")
        if init is None or w is None:
            continue
        W = written_keys(P, cls) or {}
        for key, v in W.items():
            if v is None:
                continue
            depth = _list_depth(v)
            if depth == 0:
                continue
            comp = v
            while isinstance(comp, ast.ListComp) and isinstance(comp.elt, ast.ListComp):
                comp = comp.elt
            outer = v.generators[0].iter if isinstance(v, ast.ListComp) else None
            if outer is None or not (isinstance(outer, ast.Attribute) and isinstance(outer.value, ast.Name) and outer.value.id == "self"):
                continue
            attr = outer.attr
            stores = [a for a in walk_local(init.node) if isinstance(a, (ast.Assign, ast.AnnAssign))
                      and any(is_self_attr(t, attr) for t in (a.targets if isinstance(a, ast.Assign) else [a.target]))]
            if not stores:
                continue
            n += 1
            for a in stores:
                got = _norm_depth(a.value)
                if got >= depth:
                    ctx.ok("J8", f"{cls.name}.__init__ rebuilds `{attr}` as fixed containers to depth {depth}, the depth saved as lists under '{key}'")
                else:
                    ctx.violation("J8", a, f"{cls.name} is compared by __dict__ and saves `{attr}` as lists nested {depth} deep under '{key}', but __init__ fixes the container "
                                  f"type only {got} level(s) deep (`{norm(a.value)[:80]}`): an object built from other containers (tuples, as add_* helpers do) differs from "
                                  "its own reloaded copy, which is always built from lists")
    if n == 0:
        ctx.floor("J8", 99)


# ------------------------------------------------------------------------ J9
def j9_class_ids_are_positions(ctx) -> None:
    """The bijection dumps its classes into an array and writes the maps with array indices.
    The id given to a class is its position in that array: a class is given `len(array)` at
    the moment it is appended, and only when it has no id yet (a class can occur in several
    pairs)."""
    P = ctx.P
    m = P.need_method("Bijection", "_classes_to_array", own=True)
    f = m.node
    ctx.analysed(m)
    rets = [r for r in C.returns_of(f) if r.value is not None and isinstance(r.value, ast.Tuple) and len(r.value.elts) == 2]
    if len(rets) != 1:
        raise AnalysisError("J9: Bijection._classes_to_array no longer returns (id map, array)")
    idm, arr = (norm(e) for e in rets[0].value.elts)
    defs = D.definitions(f)
    # comprehension form: ids from an enumeration -- right only if the enumerated sequence is the array's own sequence
    dc = [d[1] for d in defs.get(idm, []) if d[1] is not None and isinstance(d[1], ast.DictComp)]
    if dc:
        comp = dc[0]
        it = comp.generators[0].iter
        if isinstance(it, ast.Call) and norm(it.func) == "enumerate" and it.args:
            seq = norm(it.args[0])
            arr_defs = [d[1] for d in defs.get(arr, []) if d[1] is not None]
            same = any(isinstance(a, ast.ListComp) and norm(a.generators[0].iter) == seq for a in arr_defs)
            if same and ("dict.fromkeys" in seq or seq.startswith(("list(dict", "sorted(set"))):
                ctx.ok("J9", "ids enumerate the de-duplicated sequence the array is built from")
            else:
                ctx.violation("J9", comp, f"class ids are enumeration indices over `{seq[:60]}`, while the array `{arr}` is built from another (de-duplicated) sequence: a class "
                              "that occurs in two pairs gets the index of its last occurrence, which is not its position in the array (ids run past the array's end)")
            return
        raise AnalysisError("J9: id map comprehension not understood")
    ok_n = 0
    for st in walk_local(f):
        t, v = PT_assign(st)
        if isinstance(t, ast.Subscript) and norm(t.value) == idm and v is not None:
            c = norm(t.slice)
            is_len = any(isinstance(x, ast.Call) and norm(x) == f"len({arr})" for x in ast.walk(v))
            fresh = (f"{c} not in {idm}", True) in C.guard_texts(f, st) or (f"{c} in {idm}", False) in C.guard_texts(f, st)
            blk = C.block_path(f, st)[-1]
            later = [x_ for x_ in blk[2][blk[3] + 1:] if not isinstance(x_, ast.Pass)]
            app = any(isinstance(x, ast.Call) and norm(x.func) == f"{arr}.append" and x.args and norm(x.args[0]).startswith(f"{c}.") for s2 in later[:1] for x in ast.walk(s2))
            if is_len and fresh and app:
                # `for c in (c1, c2):` covers both components of the pair with one site
                cover = 1
                for lp in C.enclosing_loops(f, st):
                    if isinstance(lp, ast.For) and norm(lp.target) == c and isinstance(lp.iter, (ast.Tuple, ast.List)):
                        cover = len(lp.iter.elts)
                ok_n += cover
                for k_ in range(cover):
                    ctx.ok("J9", f"`{c}` gets the id len({arr}) when it is appended, once" + (f" (component {k_ + 1} of the pair)" if cover > 1 else ""))
            else:
                why = "not len(array)" if not is_len else ("given again to a class that already has one" if not fresh else "not followed by the append of that class")
                ctx.violation("J9", st, f"the id of `{c}` is {why}: ids must be positions in the array of dumped classes")
    if ok_n < 2:
        if not ctx.violations:
            raise AnalysisError("J9: Bijection._classes_to_array is written in a way the analysis does not know")


def PT_assign(st):
    if isinstance(st, ast.Assign) and len(st.targets) == 1:
        return st.targets[0], st.value
    if isinstance(st, ast.AnnAssign):
        return st.target, st.value
    return None, None


def j10_class_array_is_a_list(ctx) -> None:
    """The maps of a dumped bijection refer to classes by position in "classes"; that value is
    the list made by _classes_to_array and is read back by iterating over it.  As a JSON
    object its order is whatever the dump / load (sort_keys, other tools) makes of the keys."""
    P = ctx.P
    w = P.need_method("Bijection", "to_jsonable", own=True)
    ctx.analysed(w)
    W = _written_keys_of(P, w, 0)
    v = W.get("classes")
    if v is None:
        ctx.violation("J10", w.node, "Bijection.to_jsonable no longer writes the array of classes", construct="Bijection.to_jsonable classes")
        return
    val = D.expanded(w.node, v)
    listy = isinstance(val, (ast.List, ast.ListComp)) or (isinstance(val, ast.Call) and norm(val.func) in ("list", "sorted")) \
        or (isinstance(val, ast.Subscript) and "_classes_to_array" in norm(val.value)) or isinstance(v, ast.Name)
    if isinstance(val, (ast.Dict, ast.DictComp)) or (isinstance(val, ast.Call) and norm(val.func) == "dict"):
        ctx.violation("J10", v, f"\"classes\" is written as a JSON object (`{norm(val)[:60]}`): the maps address classes by position, and an object has no position a reader can "
                      "rely on (key order changes with sort_keys and from ten classes on '10' sorts before '2')")
    elif listy:
        ctx.ok("J10", "the classes are written as a list (positions are what the maps refer to)")
    else:
        raise AnalysisError("J10: the value written under 'classes' is not understood")
    r = P.need_method("Bijection", "from_dict", own=True)
    ctx.analysed(r)
    dpar = _dict_param(r)
    uses = [n for n in walk_local(r.node) if isinstance(n, ast.Subscript) and norm(n) == f"{dpar}['classes']"]
    for u in uses:
        par = getattr(u, "_parent", None)
        if isinstance(par, ast.Attribute) and par.attr in ("values", "items", "keys"):
            ctx.violation("J10", par, f"`{norm(par)}` reads the classes in the order of a JSON object's keys, not by position")
        else:
            ctx.ok("J10", "the classes are read back by position")


def j11_pack_builders_carry_everything(ctx) -> None:
    """Every StrategyPack method that returns a new pack (`self.__class__(...)`) passes all the
    constructor's parameters: one left out silently falls back to its default (a pack made
    iterative and then given a symmetry is recursive again)."""
    P = ctx.P
    cls = P.need_class("StrategyPack")
    init = P.need_method("StrategyPack", "__init__", own=True)
    params = [p for p in init.params() if p != "self"]
    n = 0
    for m in cls.methods.values():
        for c in walk_local(m.node):
            if not (isinstance(c, ast.Call) and norm(c.func) in ("self.__class__", "type(self)", "StrategyPack", "cls")):
                continue
            if m.name == "from_dict" and norm(c.func) == "cls":
                given = set(params[:len(c.args)]) | {k.arg for k in c.keywords if k.arg}
                opt = {"symmetries", "iterative"}
            else:
                given = set(params[:len(c.args)]) | {k.arg for k in c.keywords if k.arg}
                opt = set()
            n += 1
            missing = [p for p in params if p not in given and p not in opt]
            if any(k.arg is None for k in c.keywords):
                missing = []
            if missing:
                ctx.violation("J11", c, f"StrategyPack.{m.name} builds the new pack without {missing}: the setting falls back to the constructor's default instead of being carried "
                              "over from this pack")
            else:
                ctx.ok("J11", f"StrategyPack.{m.name} passes every constructor setting on")
            # a setting that is carried over as it is comes from the attribute of the same name
            for k in c.keywords:
                if k.arg in params and is_self_attr(k.value) and k.value.attr in params and k.value.attr != k.arg:
                    ctx.violation("J11", k.value, f"StrategyPack.{m.name} passes `self.{k.value.attr}` as `{k.arg}`: the new pack's {k.arg} are this pack's {k.value.attr}, "
                                  f"and this pack's own {k.arg} are lost")
    # a pack rebuilt elsewhere from the parts of another pack
    for fi in P.all_functions():
        if fi.cls is cls:
            continue
        for c in walk_local(fi.node):
            if not (isinstance(c, ast.Call) and norm(c.func) == "StrategyPack"):
                continue
            srcs = [norm(k.value.value) for k in c.keywords if isinstance(k.value, ast.Attribute) and k.value.attr in params] + \
                   [norm(a.value) for a in c.args if isinstance(a, ast.Attribute) and a.attr in params]
            if len(srcs) >= 2 and len(set(srcs)) == 1:
                given = set(params[:len(c.args)]) | {k.arg for k in c.keywords if k.arg}
                missing = [p for p in params if p not in given]
                n += 1
                if missing:
                    ctx.violation("J11", c, f"{fi.qualname} rebuilds a pack from the parts of `{srcs[0]}` without {missing}: those fall back to the constructor's defaults "
                                  "(a pack without its symmetries cannot recompute the rules the symmetries made)")
                else:
                    ctx.ok("J11", f"{fi.qualname} rebuilds a pack from all the parts of `{srcs[0]}`")
    if n < 6:
        ctx.floor("J11", 99)


def j12_reader_admits_every_writer(ctx) -> None:
    """`strategy_from_dict` loads whatever a `to_jsonable` that writes the key 'strategy_class'
    has saved.  Its sanity assertion on the loaded class admits every family that writes such
    dictionaries (strategies *and* strategy factories): narrower, the packs and strategies that
    were saved by the other family cannot be loaded back."""
    P = ctx.P
    rd = P.need_function("strategies.strategy", "strategy_from_dict")
    f = rd.node
    ctx.analysed(rd)
    writers = sorted({cls.name for cls in P.classes.values() for m in [cls.methods.get("to_jsonable")] if m is not None
                      and any(isinstance(x, ast.Constant) and x.value == "strategy_class" for x in ast.walk(m.node))})
    if len(writers) < 2:
        raise AnalysisError(f"J12: expected two families writing 'strategy_class', found {writers}")
    tests = [c for a in walk_local(f) if isinstance(a, ast.Assert) for c in ast.walk(a.test) if isinstance(c, ast.Call) and norm(c.func) == "issubclass" and len(c.args) == 2]
    tests += [c for i in walk_local(f) if isinstance(i, ast.If) for c in ast.walk(i.test) if isinstance(c, ast.Call) and norm(c.func) == "issubclass" and len(c.args) == 2]
    if not tests:
        ctx.ok("J12", "strategy_from_dict does not restrict the class it loads")
        return
    for c in tests:
        admitted = {norm(e).split(".")[-1] for e in (c.args[1].elts if isinstance(c.args[1], ast.Tuple) else [c.args[1]])}
        missing = [w for w in writers if not any(P.classes.get(a) in P.mro(P.classes[w]) for a in admitted if a in P.classes)]
        if missing:
            ctx.violation("J12", c, f"strategy_from_dict admits only {sorted(admitted)}; {missing} also write dictionaries with 'strategy_class' (their to_jsonable), so a pack "
                          "or strategy saved by them is refused when it is loaded back")
        else:
            ctx.ok("J12", f"strategy_from_dict admits every family that writes 'strategy_class' dictionaries ({', '.join(writers)})")
