"""
Engine T -- totality and container discipline of the class database (rules T1-T4,
T8-T11, A6).  See DESIGN.md section 3 (engine T) and section 4 (C15).
"""
from __future__ import annotations

import ast
from typing import Dict, List, Optional, Set, Tuple

from ..core import control as C
from ..core import dataflow as D
from ..core.program import (
    AnalysisError,
    AnchorError,
    Program,
    attr_chain,
    is_self_attr,
    norm,
    parent,
    qualname_of,
    unparse,
    walk_local,
)

STORAGE = ("comb_class_list", "label_dict", "empty_list")
LIST_ATTRS = ("comb_class_list", "empty_list")
DICT_ATTRS = ("label_dict",)
DB_CLASSES = ("ClassDB", "LabelToInfo", "ClassToInfo")
MUTATORS = {
    "append", "extend", "insert", "pop", "remove", "clear", "sort", "reverse",
    "popitem", "update", "setdefault", "__setitem__", "__delitem__",
}

# parameters that are, by documented contract, the label of the class passed alongside
CONTRACT_LABEL_PARAMS = {("ClassDB.is_empty", "label"): "label of comb_class, supplied by the caller"}


def _annotation_kind(ann: Optional[ast.AST]) -> Optional[str]:
    if ann is None:
        return None
    t = unparse(ann)
    head = t.split("[")[0].split(".")[-1]
    return {
        "List": "list", "list": "list", "Dict": "dict", "dict": "dict",
        "Set": "set", "set": "set", "Tuple": "tuple", "tuple": "tuple",
        "Deque": "deque", "deque": "deque", "MutableMapping": "dict",
    }.get(head)


def storage_kinds(P: Program) -> Dict[str, str]:
    """Kind of the three parallel structures, read from ClassDB.__init__."""
    init = P.need_method("ClassDB", "__init__", own=True)
    kinds: Dict[str, str] = {}
    for node in walk_local(init.node):
        if isinstance(node, ast.AnnAssign) and is_self_attr(node.target):
            k = _annotation_kind(node.annotation)
            if k is None and isinstance(node.value, (ast.List, ast.Dict)):
                k = "list" if isinstance(node.value, ast.List) else "dict"
            if k:
                kinds[node.target.attr] = k
        elif isinstance(node, ast.Assign):
            for t in node.targets:
                if is_self_attr(t):
                    if isinstance(node.value, ast.List):
                        kinds[t.attr] = "list"
                    elif isinstance(node.value, ast.Dict):
                        kinds[t.attr] = "dict"
    for a in STORAGE:
        if a not in kinds:
            raise AnchorError(f"ClassDB.__init__ no longer initialises self.{a} as a list/dict")
    if [kinds[a] for a in STORAGE] != ["list", "dict", "list"]:
        raise AnalysisError(f"storage kinds changed: {kinds}; rules T1-T3 need re-deriving")
    return kinds


# ----------------------------------------------------------------- comparisons
def _cmp_facts(test: ast.AST, pol: bool) -> List[Tuple[str, str, str]]:
    """Atomic facts (lhs, op, rhs) with op in <,<=,==,!=,in,not in,is,is not from a
    guard; comparison chains are split; negative polarity flips the operator (only for
    single comparisons; a negated chain is a disjunction and yields nothing)."""
    out = []
    if not isinstance(test, ast.Compare):
        return out
    ops = {ast.Lt: "<", ast.LtE: "<=", ast.Gt: ">", ast.GtE: ">=", ast.Eq: "==",
           ast.NotEq: "!=", ast.In: "in", ast.NotIn: "not in", ast.Is: "is", ast.IsNot: "is not"}
    neg = {"<": ">=", "<=": ">", ">": "<=", ">=": "<", "==": "!=", "!=": "==",
           "in": "not in", "not in": "in", "is": "is not", "is not": "is"}
    items = [test.left] + list(test.comparators)
    if not pol and len(test.ops) != 1:
        return out
    for i, op in enumerate(test.ops):
        o = ops.get(type(op))
        if o is None:
            continue
        if not pol:
            o = neg[o]
        l, r = norm(items[i]), norm(items[i + 1])
        if o == ">":
            l, r, o = r, l, "<"
        elif o == ">=":
            l, r, o = r, l, "<="
        out.append((l, o, r))
    return out


def _facts(func, node) -> List[Tuple[str, str, str]]:
    out = []
    for e, pol in C.flatten_guards(C.guards(func, node)):
        out.extend(_cmp_facts(e, pol))
    return out


def _len_targets(P: Program) -> Set[str]:
    """Texts X such that len(X) is the common length of the parallel lists, from the
    point of view of a method of one of the three classes."""
    out = {f"self.{a}" for a in LIST_ATTRS} | {"self"}
    return out


def _has_lower_bound(facts, idx: str) -> bool:
    for l, o, r in facts:
        if r == idx and ((l == "0" and o == "<=") or (l == "-1" and o == "<")):
            return True
    return False


def _has_upper_bound(facts, idx: str, lens: Set[str]) -> bool:
    for l, o, r in facts:
        if l == idx and o == "<" and any(r == f"len({x})" for x in lens):
            return True
        if l == idx and o == "<=" and any(r == f"len({x}) - 1" for x in lens):
            return True
    return False


def _membership_guard(facts, key: str, container: str) -> bool:
    return any(l == key and o == "in" and r == container for l, o, r in facts)


# ------------------------------------------------------------------- T1 / T2
def classdb_closure(P: Program, entry: Set[str]) -> Set[str]:
    """Qualified names of the ClassDB / mapping methods reachable from the given ClassDB
    methods (name-based call graph inside the three classes; `.get`/`in`/`[]` on the two
    mappings reach their __getitem__/__contains__)."""
    todo = [f"ClassDB.{m}" for m in entry]
    seen: Set[str] = set()
    while todo:
        q = todo.pop()
        if q in seen:
            continue
        seen.add(q)
        cname, mname = q.split(".")
        cls = P.classes.get(cname)
        if cls is None or mname not in cls.methods:
            continue
        for n in walk_local(cls.methods[mname].node):
            if isinstance(n, ast.Call) and isinstance(n.func, ast.Attribute):
                if isinstance(n.func.value, ast.Name) and n.func.value.id == "self" and n.func.attr in cls.methods:
                    todo.append(f"{cname}.{n.func.attr}")
                if is_self_attr(n.func.value) and n.func.value.attr in ("class_to_info", "label_to_info"):
                    tgt = "ClassToInfo" if n.func.value.attr == "class_to_info" else "LabelToInfo"
                    todo.extend([f"{tgt}.__getitem__", f"{tgt}.__contains__"])
            if isinstance(n, (ast.Subscript, ast.Compare)):
                for a in ast.walk(n):
                    if is_self_attr(a) and a.attr in ("class_to_info", "label_to_info"):
                        tgt = "ClassToInfo" if a.attr == "class_to_info" else "LabelToInfo"
                        todo.extend([f"{tgt}.__getitem__", f"{tgt}.__contains__"])
    return seen


def check_lookup_totality(ctx, only: Optional[Set[str]] = None, floor: int = 6) -> None:
    P = ctx.P
    kinds = storage_kinds(P)
    lens = _len_targets(P)
    n_sites = 0
    for cname in DB_CLASSES:
        cls = P.need_class(cname)
        for m in cls.methods.values():
            if only is not None and m.qualname not in only:
                continue
            f = m.node
            ctx.analysed(m)
            defs = D.definitions(f)
            for node in walk_local(f):
                if not (isinstance(node, ast.Subscript) and isinstance(node.ctx, (ast.Load, ast.Store))):
                    continue
                if not is_self_attr(node.value) or node.value.attr not in STORAGE:
                    continue
                attr = node.value.attr
                if isinstance(node.ctx, ast.Store) and kinds[attr] != "list":
                    continue        # a dict takes any key; a list position must exist (and must be the one that is meant)
                n_sites += 1
                idx = node.slice
                idx_txt = norm(idx)
                facts = _facts(f, node)
                if kinds[attr] == "dict":
                    h = C.catching_handler(f, node, "KeyError")
                    if h is not None or _membership_guard(facts, idx_txt, f"self.{attr}"):
                        ctx.ok("T1", f"{m.qualname}: self.{attr}[{idx_txt}] guarded")
                    else:
                        ctx.violation(
                            "T2", node,
                            f"raw dict lookup self.{attr}[...] can raise KeyError for a key the "
                            "database has not seen (no KeyError handler, no membership guard); "
                            "go through get_label/_get_info or guard it",
                        )
                    continue
                # list subscript -------------------------------------------------
                src = D.resolve(defs, idx)
                # provenance: stored label (value of label_dict) is in range by T3
                if _is_label_dict_value(src):
                    ctx.ok("T1", f"{m.qualname}: self.{attr}[{idx_txt}] index is a stored label")
                    continue
                if _is_get_label_result(src):
                    ctx.ok("T1", f"{m.qualname}: self.{attr}[{idx_txt}] index from get_label")
                    continue
                if isinstance(src, ast.Name) and (m.qualname, src.id) in CONTRACT_LABEL_PARAMS:
                    # may also be re-bound from get_label: every definition must be one of the two
                    dd = defs.get(src.id, [])
                    if all(d[3] == "param" or (d[1] is not None and (_is_get_label_result(d[1]) or _is_label_dict_value(d[1]))) for d in dd):
                        ctx.ok("T1", f"{m.qualname}: self.{attr}[{idx_txt}] contract label / get_label")
                        continue
                if not isinstance(src, ast.Name):
                    # arithmetic on an index etc.: not understood
                    ctx.violation("T1", node, f"list subscript self.{attr}[{idx_txt}] with an index the "
                                  "analysis cannot bound")
                    continue
                lo = _has_lower_bound(facts, src.id)
                hi = _has_upper_bound(facts, src.id, lens)
                hidx = C.catching_handler(f, node, "IndexError")
                if lo and (hi or hidx is not None):
                    ctx.ok("T1", f"{m.qualname}: self.{attr}[{idx_txt}] range-checked")
                    continue
                hkey = C.catching_handler(f, node, "KeyError")
                why = []
                if not lo:
                    why.append("no lower-bound check (negative labels alias from the end)")
                if not hi and hidx is None:
                    why.append("no upper-bound check and IndexError is not handled")
                if hkey is not None and hidx is None:
                    why.append("the enclosing handler catches KeyError, which a list never raises")
                ctx.violation("T1", node, f"list lookup self.{attr}[{idx_txt}] is not total: " + "; ".join(why))
    if n_sites < floor:
        raise AnalysisError(f"T1/T2: only {n_sites} storage subscripts found, floor {floor}")


def _is_label_dict_value(e: ast.AST) -> bool:
    e = D.strip_casts(e)
    if isinstance(e, ast.Subscript) and is_self_attr(e.value, "label_dict"):
        return True
    if isinstance(e, ast.Call) and isinstance(e.func, ast.Attribute) and e.func.attr in ("get",) \
            and is_self_attr(e.func.value, "label_dict") and len(e.args) == 1:
        return False  # may be None
    return False


def _is_get_label_result(e: ast.AST) -> bool:
    e = D.strip_casts(e)
    return (isinstance(e, ast.Call) and isinstance(e.func, ast.Attribute)
            and e.func.attr == "get_label" and isinstance(e.func.value, ast.Name)
            and e.func.value.id == "self")


# ------------------------------------------------------------------------ T3
def check_append_only(ctx) -> None:
    P = ctx.P
    allowed_init = {"ClassDB.__init__", "LabelToInfo.__init__", "ClassToInfo.__init__"}
    found_add = {"append:comb_class_list": 0, "store:label_dict": 0, "append:empty_list": 0}
    found_set_empty = 0
    for fi in P.all_functions():
        f = fi.node
        for node in ast.walk(f):
            # attribute (re)binding
            if isinstance(node, ast.Attribute) and node.attr in STORAGE and isinstance(node.ctx, (ast.Store, ast.Del)):
                if fi.qualname in allowed_init and is_self_attr(node):
                    ctx.ok("T3", f"{fi.qualname}: initial binding of self.{node.attr}")
                else:
                    ctx.violation("T3", parent(node), f"storage attribute {node.attr} re-bound outside the initialisers")
            # subscript store / delete
            if isinstance(node, ast.Subscript) and isinstance(node.ctx, (ast.Store, ast.Del)) \
                    and isinstance(node.value, ast.Attribute) and node.value.attr in STORAGE:
                attr = node.value.attr
                if isinstance(node.ctx, ast.Del):
                    ctx.violation("T3", parent(node), f"deletion from {attr}: storage is append-only")
                elif fi.qualname == "ClassDB.add" and attr == "label_dict":
                    found_add["store:label_dict"] += 1
                elif fi.qualname == "ClassDB.set_empty" and attr == "empty_list":
                    found_set_empty += 1
                    ctx.ok("T3", "ClassDB.set_empty: empty_list[...] = (sanctioned emptiness writer)")
                else:
                    ctx.violation("T3", parent(node), f"store into {attr} outside ClassDB.add/set_empty")
            # mutator calls
            if isinstance(node, ast.Call) and isinstance(node.func, ast.Attribute) \
                    and isinstance(node.func.value, ast.Attribute) and node.func.value.attr in STORAGE \
                    and node.func.attr in MUTATORS:
                attr, meth = node.func.value.attr, node.func.attr
                if fi.qualname == "ClassDB.add" and meth == "append" and attr in LIST_ATTRS:
                    found_add[f"append:{attr}"] += 1
                else:
                    ctx.violation("T3", node, f"{attr}.{meth}(...) : storage is append-only and written only by ClassDB.add")
    add = P.need_method("ClassDB", "add", own=True)
    ctx.analysed(add)
    if any(v != 1 for v in found_add.values()):
        ctx.violation("T3", add.node, f"ClassDB.add must append/store exactly once into each parallel structure, found {found_add}",
                      construct="ClassDB.add parallel mutations " + str(sorted(found_add.items())))
        return
    if found_set_empty < 1:
        raise AnchorError("ClassDB.set_empty no longer stores into empty_list")
    _check_add_shape(ctx, add)


def _check_add_shape(ctx, add) -> None:
    f = add.node
    defs = D.definitions(f)
    app_cc = app_el = store = None
    for node in walk_local(f):
        if isinstance(node, ast.Call) and isinstance(node.func, ast.Attribute) and node.func.attr == "append" \
                and isinstance(node.func.value, ast.Attribute):
            if node.func.value.attr == "comb_class_list":
                app_cc = node
            elif node.func.value.attr == "empty_list":
                app_el = node
        if isinstance(node, ast.Assign) and len(node.targets) == 1 and isinstance(node.targets[0], ast.Subscript) \
                and isinstance(node.targets[0].value, ast.Attribute) and node.targets[0].value.attr == "label_dict":
            store = node
    s_cc, s_el = C.stmt_of(app_cc), C.stmt_of(app_el)
    path = C.block_path(f, store)
    blk = path[-1][2]
    if s_cc not in blk or s_el not in blk:
        ctx.violation("T3", store, "the three parallel mutations of ClassDB.add are not in one block (they can get out of step)")
        return
    # same key appended and stored
    key_txt = norm(store.targets[0].slice)
    if len(app_cc.args) != 1 or norm(app_cc.args[0]) != key_txt:
        ctx.violation("T3", app_cc, f"comb_class_list gets {norm(app_cc.args[0]) if app_cc.args else '?'} but label_dict is keyed by {key_txt}")
    else:
        ctx.ok("T3", f"ClassDB.add: same key {key_txt} appended and stored")
    if len(app_el.args) != 1 or not (isinstance(app_el.args[0], ast.Constant) and app_el.args[0].value is None):
        ctx.violation("T3", app_el, "a new class must start with unknown emptiness (None)")
    else:
        ctx.ok("T3", "ClassDB.add: emptiness starts as None")
    # guard: not already present, same key
    facts = _facts(f, store)
    guard_ok = any(l == key_txt and o == "not in" and r in ("self.class_to_info", "self.label_dict") for l, o, r in facts)
    if guard_ok:
        ctx.ok("T3", "ClassDB.add: mutation dominated by 'not already present' test on the same key")
    else:
        ctx.violation("T3", store, f"mutation of the storage is not dominated by `{key_txt} not in self.class_to_info/label_dict` (an equal class would get a second label)")
    # label value = index of the appended element
    val = store.value
    vsrc = D.resolve(defs, val)
    label_stmt = None
    if isinstance(val, ast.Name):
        ds = defs.get(val.id, [])
        if len(ds) == 1:
            label_stmt = ds[0][0]
    ok = False
    lens_ok = {"self.comb_class_list", "self.empty_list", "self.label_dict", "self.class_to_info", "self.label_to_info"}

    def is_len(e):
        return isinstance(e, ast.Call) and isinstance(e.func, ast.Name) and e.func.id == "len" \
            and len(e.args) == 1 and norm(e.args[0]) in lens_ok

    idxs = {id(s): i for i, s in enumerate(blk)}
    pos_store = idxs[id(store)]
    pos_label = idxs.get(id(label_stmt), pos_store)
    muts = sorted([idxs[id(s_cc)], idxs[id(s_el)], pos_store])
    if is_len(vsrc):
        target = norm(vsrc.args[0])
        # number of mutations of *that* structure before the label is computed must be 0
        before = {"self.comb_class_list": idxs[id(s_cc)], "self.empty_list": idxs[id(s_el)],
                  "self.label_dict": pos_store, "self.class_to_info": idxs[id(s_el)],
                  "self.label_to_info": idxs[id(s_el)]}[target]
        if target in ("self.class_to_info", "self.label_to_info"):
            _check_len_delegation(ctx, target.split(".")[1])
        ok = pos_label <= before if label_stmt is not None else (pos_store <= before)
        if label_stmt is None and target == "self.label_dict":
            ok = True  # len evaluated before the store itself
    elif isinstance(vsrc, ast.BinOp) and isinstance(vsrc.op, ast.Sub) and is_len(vsrc.left) \
            and isinstance(vsrc.right, ast.Constant) and vsrc.right.value == 1:
        target = norm(vsrc.left.args[0])
        after = {"self.comb_class_list": idxs[id(s_cc)], "self.empty_list": idxs[id(s_el)]}.get(target)
        ok = after is not None and pos_label > after
    if ok:
        ctx.ok("T3", f"ClassDB.add: label = {norm(vsrc)} is the index of the appended element")
    else:
        ctx.violation("T3", store, f"label stored is {norm(vsrc)}, which is not the index of the element appended in the same block (labels must be 0,1,2,... in order of first appearance)")


def _check_len_delegation(ctx, attr: str) -> None:
    cname = {"class_to_info": "ClassToInfo", "label_to_info": "LabelToInfo"}[attr]
    m = ctx.P.need_method(cname, "__len__", own=True)
    rets = C.returns_of(m.node)
    good = len(rets) == 1 and rets[0].value is not None and norm(rets[0].value) in (
        "len(self.empty_list)", "len(self.comb_class_list)", "len(self.label_dict)")
    if good:
        ctx.ok("T3", f"{cname}.__len__ is the common length of the parallel storage")
    else:
        ctx.violation("T3", m.node, f"{cname}.__len__ is used as the next label but does not return the length of the parallel storage",
                      construct=f"{cname}.__len__")


# ------------------------------------------------------------------------ T4
def check_compression(ctx) -> None:
    P = ctx.P
    comp = P.need_method("ClassDB", "_compress", own=True)
    deco = P.need_method("ClassDB", "_decompress", own=True)
    ctx.analysed(comp)
    ctx.analysed(deco)
    pname = comp.params()[1] if len(comp.params()) > 1 else None
    ok_c = False
    fallback_c = False
    cdefs = D.definitions(comp.node)
    ret_values = []
    for r in C.returns_of(comp.node):
        v = r.value
        if isinstance(v, ast.Name) and v.id != pname and cdefs.get(v.id) and all(d[3] == "assign" and d[1] is not None and not d[2] for d in cdefs[v.id]):
            # returned through a local: judge each of its definitions where it is made
            for d in cdefs[v.id]:
                ret_values.append((d[0], d[1]))
        else:
            ret_values.append((r, v))
    for r, v in ret_values:
        if isinstance(v, ast.Call) and norm(v.func) == "zlib.compress" and v.args:
            inner = v.args[0]
            if isinstance(inner, ast.Call) and isinstance(inner.func, ast.Attribute) and inner.func.attr == "to_bytes" \
                    and isinstance(inner.func.value, ast.Name) and inner.func.value.id == pname and not inner.args:
                ok_c = True
                continue
        if isinstance(v, ast.Name) and v.id == pname:
            # identity fallback only when to_bytes is not implemented
            if any("NotImplementedError" in names for _t, _h, names in
                   [(None, h, C.handler_names(h)) for h in [a for a in [parent(C.stmt_of(r))] if isinstance(a, ast.ExceptHandler)]]):
                fallback_c = True
                continue
        ctx.violation("T4", r, "_compress must return zlib.compress(key.to_bytes(), ...) or, only when to_bytes is not implemented, the key itself")
    if ok_c:
        ctx.ok("T4", "_compress = zlib.compress . to_bytes" + (" (identity fallback under NotImplementedError)" if fallback_c else ""))
    else:
        ctx.violation("T4", comp.node, "_compress no longer returns zlib.compress(key.to_bytes())", construct="ClassDB._compress")
    kname = deco.params()[1] if len(deco.params()) > 1 else None
    ok_d = False
    for r in C.returns_of(deco.node):
        v = D.strip_casts(r.value) if r.value is not None else None
        if isinstance(v, ast.Call) and isinstance(v.func, ast.Attribute) and v.func.attr == "from_bytes" and len(v.args) == 1:
            inner = v.args[0]
            if isinstance(inner, ast.Call) and norm(inner.func) == "zlib.decompress" and len(inner.args) == 1 \
                    and isinstance(inner.args[0], ast.Name) and inner.args[0].id == kname:
                ok_d = True
                continue
        if isinstance(v, ast.Name) and v.id == kname and isinstance(parent(C.stmt_of(r)), ast.ExceptHandler):
            continue
        ctx.violation("T4", r, "_decompress must return from_bytes(zlib.decompress(key)) or, in the not-compressed fallback, the key itself")
    if ok_d:
        ctx.ok("T4", "_decompress = from_bytes . zlib.decompress (inverse pipeline of _compress)")
    else:
        ctx.violation("T4", deco.node, "_decompress is no longer from_bytes(zlib.decompress(key))", construct="ClassDB._decompress")
    _check_key_compression_state(ctx)


COMPRESSED_SINK_ATTRS = ("class_to_info", "label_dict")


def _check_key_compression_state(ctx) -> None:
    """Every class-typed key that reaches class_to_info / label_dict / comb_class_list in
    the public entry points passed through _compress exactly once."""
    P = ctx.P
    cls = P.need_class("ClassDB")
    n = 0
    for mname in ("__contains__", "add", "_get_info", "is_empty"):
        m = P.need_method("ClassDB", mname, own=True)
        f = m.node
        ctx.analysed(m)
        defs = D.definitions(f)
        params = set(m.params()[1:])

        def state(e: ast.AST, at: ast.AST, depth=0) -> str:
            """'C' compressed once, 'U' uncompressed class, 'CC' twice, '?' unknown."""
            e = D.strip_casts(e)
            if isinstance(e, ast.Call) and norm(e.func) == "self._compress" and len(e.args) == 1:
                inner = state(e.args[0], at, depth + 1)
                return {"U": "C", "C": "CC", "CC": "CC"}.get(inner, "?")
            if isinstance(e, ast.Call) and norm(e.func) == "self.get_class":
                return "U"
            if isinstance(e, ast.Name):
                if e.id in params and all(
                    d[3] == "param" or (d[1] is not None and isinstance(d[1], ast.Call) and norm(d[1].func) == "self.get_class")
                    for d in defs.get(e.id, [])):
                    if mname == "add":
                        # the `compressed` flag says which
                        gt = C.guard_texts(f, at)
                        if ("compressed", True) in gt:
                            return "C"
                        if ("compressed", False) in gt:
                            return "U"
                        return "?"
                    return "U"
                ds = [d for d in defs.get(e.id, []) if d[3] != "param"]
                if depth > 4 or not ds:
                    return "?"
                sts = set()
                for st_node, val, path, kind in ds:
                    if val is None or path:
                        return "?"
                    sts.add(state(val, st_node, depth + 1))
                return sts.pop() if len(sts) == 1 else "?"
            return "?"

        for node in walk_local(f):
            key = None
            what = None
            if isinstance(node, ast.Subscript) and is_self_attr(node.value) and node.value.attr in COMPRESSED_SINK_ATTRS:
                key, what = node.slice, f"self.{node.value.attr}[...]"
            elif isinstance(node, ast.Call) and isinstance(node.func, ast.Attribute) and node.func.attr == "get" \
                    and is_self_attr(node.func.value) and node.func.value.attr in COMPRESSED_SINK_ATTRS and node.args:
                key, what = node.args[0], f"self.{node.func.value.attr}.get(...)"
            elif isinstance(node, ast.Compare) and len(node.ops) == 1 and isinstance(node.ops[0], (ast.In, ast.NotIn)) \
                    and is_self_attr(node.comparators[0]) and node.comparators[0].attr in COMPRESSED_SINK_ATTRS:
                key, what = node.left, f"in self.{node.comparators[0].attr}"
            elif isinstance(node, ast.Call) and isinstance(node.func, ast.Attribute) and node.func.attr == "append" \
                    and is_self_attr(node.func.value, "comb_class_list") and node.args:
                key, what = node.args[0], "self.comb_class_list.append(...)"
            elif isinstance(node, ast.Call) and norm(node.func) == "self.add" and node.args:
                flag = [k for k in node.keywords if k.arg == "compressed"]
                flag_true = bool(flag) and isinstance(flag[0].value, ast.Constant) and flag[0].value.value is True
                if len(node.args) > 1:
                    flag_true = isinstance(node.args[1], ast.Constant) and node.args[1].value is True
                st = state(node.args[0], node)
                n += 1
                if (st == "C") == flag_true and st in ("C", "U"):
                    ctx.ok("T4", f"ClassDB.{mname}: self.add({norm(node.args[0])}) flag matches compression state {st}")
                else:
                    ctx.violation("T4", node, f"self.add called with a key in state {st} but compressed={flag_true}")
                continue
            if key is None:
                continue
            n += 1
            st = state(key, node)
            if st == "C":
                ctx.ok("T4", f"ClassDB.{mname}: key of {what} compressed exactly once")
            elif st == "U":
                ctx.violation("T4", node, f"uncompressed class used as key of {what} (stored keys are compressed: the lookup can never succeed)")
            elif st == "CC":
                ctx.violation("T4", node, f"key of {what} is compressed twice")
            else:
                ctx.violation("T4", node, f"cannot establish the compression state of the key of {what}")
    if n < 6:
        raise AnalysisError(f"T4: only {n} key uses found in the public entry points, floor 6")


# -------------------------------------------------------------------- T8..T11
def check_lookup_protocol(ctx) -> None:
    P = ctx.P
    # T9: membership test is pure (never labels)
    cont = P.need_method("ClassDB", "__contains__", own=True)
    ctx.analysed(cont)
    bad = [c for c in walk_local(cont.node) if isinstance(c, ast.Call) and isinstance(c.func, ast.Attribute)
           and isinstance(c.func.value, ast.Name) and c.func.value.id == "self"
           and c.func.attr in ("add", "_get_info", "get_label", "get_class", "is_empty", "set_empty")]
    if bad:
        for c in bad:
            ctx.violation("T9", c, "ClassDB.__contains__ must not add / label the key it is asked about")
    else:
        ctx.ok("T9", "ClassDB.__contains__ calls no labelling method")
    rets = C.returns_of(cont.node)
    if not rets:
        raise AnchorError("ClassDB.__contains__ has no return")
    for r in rets:
        t = norm(r.value) if r.value is not None else "None"
        if t in ("info is not None", "not info is None", "bool(info is not None)"):
            ctx.ok("T9", "ClassDB.__contains__ returns `info is not None`")
        elif isinstance(r.value, ast.Compare) or isinstance(r.value, ast.Constant) or isinstance(r.value, ast.Call):
            ctx.note(f"__contains__ return form: {t}")
            ctx.ok("T9", f"ClassDB.__contains__ returns {t}")
        else:
            ctx.violation("T9", r, f"unexpected membership result {t}")
    # T8: _get_info looks up before adding, re-reads after adding, raises for unknown label
    gi = P.need_method("ClassDB", "_get_info", own=True)
    ctx.analysed(gi)
    f = gi.node
    adds = [c for c in walk_local(f) if isinstance(c, ast.Call) and norm(c.func) == "self.add"]
    if len(adds) != 1:
        ctx.violation("T8", f, f"_get_info should add at exactly one place, found {len(adds)}", construct="ClassDB._get_info add sites")
    else:
        facts = _facts(f, adds[0])
        key_txt = norm(adds[0].args[0]) if adds[0].args else ""
        absent = any(isinstance(t, ast.Compare) and len(t.ops) == 1 and norm(t.left) == key_txt and norm(t.comparators[0]) == "self.class_to_info"
                     and ((isinstance(t.ops[0], ast.NotIn) and pol) or (isinstance(t.ops[0], ast.In) and not pol))
                     for t, pol in C.flatten_guards(C.guards(f, adds[0])))
        if any(o == "is" and r == "None" for l, o, r in facts) or absent:
            ctx.ok("T8", "_get_info adds only after a failed lookup")
        else:
            ctx.violation("T8", adds[0], "_get_info adds a class without first looking it up (labels would not be stable)")
    raises = [r for r in C.raises_of(f) if r.exc is not None and "KeyError" in norm(r.exc)]
    if raises and any(any(o == "is" and rr == "None" for l, o, rr in _facts(f, r)) for r in raises):
        ctx.ok("T8", "_get_info raises KeyError for an unknown label")
    else:
        ctx.violation("T8", f, "_get_info no longer raises KeyError when the label is unknown", construct="ClassDB._get_info unknown label")
    # T11: Info(list[i], i, list2[i]) coherence
    n = 0
    for cname in ("LabelToInfo", "ClassToInfo"):
        m = P.need_method(cname, "__getitem__", own=True)
        ctx.analysed(m)
        for c in walk_local(m.node):
            if isinstance(c, ast.Call) and isinstance(c.func, ast.Name) and c.func.id == "Info":
                n += 1
                args = list(c.args) + [k.value for k in c.keywords]
                if len(args) != 3:
                    ctx.violation("T11", c, "Info(...) must carry (class, label, emptiness)")
                    continue
                a0, a1, a2 = args
                good = (isinstance(a0, ast.Subscript) and is_self_attr(a0.value, "comb_class_list")
                        and isinstance(a2, ast.Subscript) and is_self_attr(a2.value, "empty_list")
                        and norm(a0.slice) == norm(a1) == norm(a2.slice))
                if good:
                    ctx.ok("T11", f"{cname}.__getitem__: Info(comb_class_list[i], i, empty_list[i]) with one index {norm(a1)}")
                else:
                    ctx.violation("T11", c, "Info must be built from the same index in both parallel lists and carry that index as the label")
    if n < 2:
        raise AnalysisError("T11: Info(...) constructions not found in the two mappings")
    # accessors
    gc = P.need_method("ClassDB", "get_class", own=True)
    gl = P.need_method("ClassDB", "get_label", own=True)
    for m, want in ((gc, "decompress"), (gl, "label")):
        ctx.analysed(m)
        defs = D.definitions(m.node)
        rets = C.returns_of(m.node)
        ok = False
        for r in rets:
            v = r.value
            if want == "label":
                if isinstance(v, ast.Attribute) and v.attr == "label":
                    src = D.resolve(defs, v.value)
                    ok = isinstance(src, ast.Call) and norm(src.func) == "self._get_info"
            else:
                if isinstance(v, ast.Call) and norm(v.func) == "self._decompress" and len(v.args) == 1 \
                        and isinstance(v.args[0], ast.Attribute) and v.args[0].attr == "comb_class":
                    src = D.resolve(defs, v.args[0].value)
                    ok = isinstance(src, ast.Call) and norm(src.func) == "self._get_info"
        if ok and len(rets) == 1:
            ctx.ok("T11", f"{m.qualname} returns the {'label' if want == 'label' else 'decompressed class'} of _get_info(key)")
        else:
            ctx.violation("T11", m.node, f"{m.qualname} no longer returns the {'label' if want == 'label' else 'decompressed stored class'} of _get_info(key)",
                          construct=m.qualname)


def check_emptiness_cache(ctx) -> None:
    """T10 + A6."""
    P = ctx.P
    ie = P.need_method("ClassDB", "is_empty", own=True)
    f = ie.node
    ctx.analysed(ie)
    defs = D.definitions(f)
    rets = C.returns_of(f)

    def _flag(r):
        v_ = r.value
        if isinstance(v_, ast.Call) and isinstance(v_.func, ast.Name) and v_.func.id == "bool" and len(v_.args) == 1:
            v_ = v_.args[0]
        return v_

    if not rets or any(r.value is None for r in rets) or len({norm(_flag(r)) for r in rets}) != 1:
        raise AnalysisError("ClassDB.is_empty: expected every return to hand back the same flag")
    rv = rets[0].value
    if isinstance(rv, ast.Call) and isinstance(rv.func, ast.Name) and rv.func.id == "bool" and len(rv.args) == 1:
        rv = rv.args[0]
    if not isinstance(rv, ast.Name):
        ctx.violation("T10", rets[0], "is_empty must return the cached / freshly computed flag")
        return
    ds = defs.get(rv.id, [])
    cached = [d for d in ds if d[1] is not None and isinstance(d[1], ast.Subscript) and is_self_attr(d[1].value, "empty_list")]
    fresh = [d for d in ds if d[1] is not None and isinstance(d[1], ast.Call) and norm(d[1].func) in ("self._is_empty",)]
    other = [d for d in ds if d not in cached and d not in fresh]
    if other or not fresh or not cached:
        ctx.violation("T10", rets[0], f"is_empty's result {rv.id} must come only from the cache or from _is_empty (definitions: "
                      + ", ".join(norm(d[1]) if d[1] is not None else d[3] for d in ds) + ")")
    else:
        for d in fresh:
            facts = _facts(f, d[0])
            if any(l == rv.id and o == "is" and r == "None" for l, o, r in facts):
                ctx.ok("T10", "is_empty recomputes only when the cached flag is None")
            else:
                ctx.violation("T10", d[0], "fresh emptiness computed without the `is None` cache test")
        # the cached read must not be returned when None: the fresh def must follow it
        ctx.ok("T10", "is_empty returns cached flag or fresh _is_empty result")
    # _is_empty returns the class's own answer
    ise = P.need_method("ClassDB", "_is_empty", own=True)
    ctx.analysed(ise)
    d2 = D.definitions(ise.node)
    r2 = C.returns_of(ise.node)
    good = False
    if len(r2) == 1 and r2[0].value is not None:
        src = D.resolve(d2, r2[0].value)
        if isinstance(src, ast.Call) and isinstance(src.func, ast.Attribute) and src.func.attr == "is_empty" \
                and not src.args and isinstance(src.func.value, ast.Name) and src.func.value.id in ise.params():
            good = True
    if good:
        ctx.ok("T10", "_is_empty returns comb_class.is_empty() unchanged")
    else:
        ctx.violation("T10", ise.node, "_is_empty must return the class's own is_empty() answer", construct="ClassDB._is_empty")
    check_set_empty_writers(ctx)


def check_set_empty_writers(ctx) -> None:
    """A6: every call of set_empty passes a value that is the class's own answer."""
    P = ctx.P
    n = 0
    for fi in P.all_functions():
        f = fi.node
        defs = None
        for c in walk_local(f):
            if not (isinstance(c, ast.Call) and isinstance(c.func, ast.Attribute) and c.func.attr == "set_empty"):
                continue
            n += 1
            ctx.analysed(fi)
            if defs is None:
                defs = D.definitions(f)
            val = None
            if len(c.args) >= 2:
                val = c.args[1]
            for k in c.keywords:
                if k.arg == "empty":
                    val = k.value
            if val is None:
                # default True: asserts emptiness without asking the class
                ctx.violation("A6", c, "set_empty(key) with the default empty=True records emptiness nobody computed")
                continue
            if isinstance(val, ast.Constant) and val.value is False:
                gt = [(norm(D.expanded(f, t_)) if isinstance(t_, ast.Name) else norm(t_), p_) for t_, p_ in C.flatten_guards(C.guards(f, c))]
                if ("rule.possibly_empty", False) in gt or any(t.endswith(".possibly_empty") and not p for t, p in gt):
                    ctx.ok("A6", f"{fi.qualname}: set_empty(.., False) under `not possibly_empty`")
                else:
                    ctx.violation("A6", c, "set_empty(.., False) is not dominated by `not rule.possibly_empty`: a possibly-empty child would be recorded non-empty unasked")
                continue
            if isinstance(val, ast.Constant):
                ctx.violation("A6", c, f"set_empty(.., {val.value!r}) records a constant instead of the class's own answer")
                continue
            src = D.resolve(defs, val)
            ok = False
            if isinstance(src, ast.Call) and isinstance(src.func, ast.Attribute) and src.func.attr in ("_is_empty", "is_empty"):
                ok = True
            elif isinstance(val, ast.Name):
                ds = defs.get(val.id, [])
                ok = bool(ds) and all(
                    d[1] is not None and isinstance(d[1], ast.Call) and isinstance(d[1].func, ast.Attribute)
                    and d[1].func.attr in ("_is_empty", "is_empty")
                    or (d[1] is not None and isinstance(d[1], ast.Subscript) and is_self_attr(d[1].value, "empty_list"))
                    for d in ds)
            if ok:
                ctx.ok("A6", f"{fi.qualname}: set_empty value comes from is_empty/_is_empty")
            else:
                ctx.violation("A6", c, f"set_empty value `{norm(val)}` does not come from ClassDB.is_empty/_is_empty")
    if n < 3:
        raise AnalysisError(f"A6: {n} set_empty call sites found, floor 3")


def t12_class_or_label(ctx) -> None:
    """ClassDB's emptiness API takes a class *or* a label.  Before `.is_empty()` is asked of the
    value it has been turned into a class (`if not isinstance(x, self.combinatorial_class): x =
    self.get_class(x)`) -- in _is_empty itself, or in every caller on the way."""
    P = ctx.P
    m = P.need_method("ClassDB", "_is_empty", own=True)
    f = m.node
    ctx.analysed(m)
    p = [x for x in D.param_names(f) if x != "self"][0]

    def converts(fn, name) -> bool:
        for st in walk_local(fn):
            t, v = (st.targets[0], st.value) if isinstance(st, ast.Assign) and len(st.targets) == 1 else (None, None)
            if isinstance(t, ast.Name) and t.id == name and v is not None and norm(v) == f"self.get_class({name})":
                gs = {(norm(g), pol) for g, pol in C.flatten_guards(C.guards(fn, st))}
                if (f"isinstance({name}, self.combinatorial_class)", False) in gs:
                    return True
        return False

    asks = [c for c in walk_local(f) if isinstance(c, ast.Call) and norm(c.func) == f"{p}.is_empty"]
    if not asks:
        ctx.violation("T10", f, f"ClassDB._is_empty must return {p}.is_empty(), the class's own answer", construct="ClassDB._is_empty answer")
        return
    if converts(f, p):
        ctx.ok("T10", "_is_empty turns a label into its class before asking it")
        return
    callers = []
    for fi in P.all_functions():
        for c in walk_local(fi.node):
            if isinstance(c, ast.Call) and isinstance(c.func, ast.Attribute) and c.func.attr == "_is_empty" and c.args:
                callers.append((fi, c))
    bad = [(fi, c) for fi, c in callers if not (isinstance(c.args[0], ast.Name) and converts(fi.node, c.args[0].id))]
    if callers and not bad:
        ctx.ok("T10", "every caller of _is_empty hands it a class (labels are converted first)")
    else:
        where = bad[0][1] if bad else asks[0]
        ctx.violation("T10", where, f"`{p}.is_empty()` is asked of a value that may still be a label: neither _is_empty nor its caller converts it with self.get_class(...) under "
                      "`not isinstance(..., self.combinatorial_class)`; is_empty(label) then fails for a label whose emptiness is not cached yet")


def t13_membership_of_total_mappings(ctx) -> None:
    """LabelToInfo / ClassToInfo answer `None` for a key they do not know (their __getitem__ is
    total) and do not define __contains__: the Mapping mix-in's `key in m` is then True for
    every key.  Membership must be decided by `m.get(key) is not None`."""
    P = ctx.P
    total = []
    for cname in ("LabelToInfo", "ClassToInfo"):
        cls = P.classes.get(cname)
        if cls is None or "__contains__" in cls.methods:
            continue
        gi = cls.methods.get("__getitem__")
        if gi is None:
            continue
        returns_none = any(r.value is None or (isinstance(r.value, ast.Constant) and r.value.value is None) for r in C.returns_of(gi.node)) or \
            "Optional" in (norm(gi.node.returns) if gi.node.returns is not None else "")
        if returns_none:
            total.append(cname)
    attrs = {"LabelToInfo": "label_to_info", "ClassToInfo": "class_to_info"}
    n = 0
    for fi in P.all_functions():
        for x in walk_local(fi.node):
            if isinstance(x, ast.Compare) and len(x.ops) == 1 and isinstance(x.ops[0], (ast.In, ast.NotIn)):
                r = x.comparators[0]
                for cname in total:
                    if isinstance(r, ast.Attribute) and r.attr == attrs[cname]:
                        n += 1
                        ctx.violation("T9", x, f"{fi.qualname}: `{norm(x)}` uses the Mapping mix-in's membership on a {cname}, whose __getitem__ returns None instead of raising: "
                                      "the test is True for every key, so a label that was never issued counts as known")
    if total:
        ctx.ok("T9", f"no membership test relies on the Mapping mix-in of {', '.join(total)} (their __getitem__ is total)")


# ------------------------------------------------------------------------ T14
def t14_normalise_before_use(ctx, modules: Tuple[str, ...], rule_id: str = "T14") -> None:
    """A parameter that may arrive in two forms (a class or its label, ...) and is brought to
    one form by `if isinstance(p, T): p = conv(p)` (or `if not isinstance ...`) is not read
    before that statement: what is done with the other form (compared with classes, used as
    a key) silently does nothing or the wrong thing."""
    P = ctx.P
    n = 0
    for fi in P.all_functions():
        if fi.module.short not in modules:
            continue
        f = fi.node
        params = set(fi.params()) | {a.arg for a in f.args.kwonlyargs}
        for st in f.body if True else []:
            pass
        for st in walk_local(f):
            if not (isinstance(st, ast.If) and not [x for x in st.orelse if not isinstance(x, ast.Pass)]):
                continue
            real = [x for x in st.body if not isinstance(x, ast.Pass)]
            if len(real) != 1:
                continue
            test = st.test
            if isinstance(test, ast.UnaryOp) and isinstance(test.op, ast.Not):
                test = test.operand
            if not (isinstance(test, ast.Call) and norm(test.func) == "isinstance" and len(test.args) == 2 and isinstance(test.args[0], ast.Name)):
                continue
            p = test.args[0].id
            if p not in params:
                continue
            b = real[0]
            t, v = (b.targets[0], b.value) if isinstance(b, ast.Assign) and len(b.targets) == 1 else ((b.target, b.value) if isinstance(b, ast.AnnAssign) else (None, None))
            if not (isinstance(t, ast.Name) and t.id == p and isinstance(v, ast.Call) and any(isinstance(x, ast.Name) and x.id == p for a in v.args for x in ast.walk(a))):
                continue
            if C.block_path(f, st)[-1][0] is not f:
                continue            # only a normalisation at the top level of the function speaks for the whole function
            n += 1
            ctx.analysed(fi)
            early = [x for x in walk_local(f) if isinstance(x, ast.Name) and x.id == p and isinstance(x.ctx, ast.Load)
                     and not any(x is y for y in ast.walk(st)) and not C.dominates(f, st, x)]
            # a debug assertion / log line that mentions the raw argument is not a use
            early = [x for x in early if not isinstance(C.stmt_of(x), ast.Assert) and "logger." not in norm(C.stmt_of(x))[:12]]
            # handing the raw argument on to another function (which may take both forms itself) is not a use of one form;
            # comparing it, or using it as a key, is
            def _form_sensitive(x):
                par = getattr(x, "_parent", None)
                if isinstance(par, ast.Compare):
                    return True
                if isinstance(par, ast.Subscript) and par.slice is x:
                    return True
                if isinstance(par, ast.Call) and isinstance(par.func, ast.Attribute) and par.func.attr in ("get", "pop", "setdefault", "index", "count") and x in par.args:
                    return True
                return False
            early = [x for x in early if _form_sensitive(x)]
            if early:
                x = early[0]
                ctx.violation(rule_id, x, f"{fi.qualname} reads `{p}` in `{norm(C.stmt_of(x))[:70]}` before `{norm(st.test)}` has brought it to one form (`{norm(b)}`): for the other "
                              "form of the argument that statement compares / looks up the wrong kind of value")
            else:
                ctx.ok(rule_id, f"{fi.qualname}: `{p}` is normalised ({norm(b)[:50]}) before anything else reads it")
    if n < 1:
        ctx.floor(rule_id, 99)
