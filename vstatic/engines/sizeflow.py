"""
Engine S -- size-flow bounds (DESIGN.md section 3 engine S, appendix A).

An abstract interpreter for the size/provider slice of the constructors: it evaluates, on
an abstract rule of *concrete arity* (children are opaque class objects whose
minimum_size_of_object() is the atom m_i), the strategy's `shifts`, the constructor's
`__init__` and `get_terms`, and records every call of a sub-term provider together with
an affine upper bound of the size asked for.  Sizes are affine forms over n and the m_i.
Nothing of /repo is imported or executed: the interpreter walks the ast.
"""
from __future__ import annotations

import ast
import itertools
from typing import Any, Dict, List, Optional, Sequence, Tuple

from ..core.program import AnalysisError, AnchorError, ClassInfo, FuncInfo, Program, norm

MAX_DEPTH = 14


# ---------------------------------------------------------------- affine forms
class Aff:
    __slots__ = ("c", "k")

    def __init__(self, c: Optional[Dict[str, int]] = None, k: int = 0):
        self.c = {a: v for a, v in (c or {}).items() if v != 0}
        self.k = k

    @staticmethod
    def atom(name: str) -> "Aff":
        return Aff({name: 1}, 0)

    @staticmethod
    def const(k: int) -> "Aff":
        return Aff({}, k)

    def is_const(self) -> bool:
        return not self.c

    def __add__(self, o: "Aff") -> "Aff":
        c = dict(self.c)
        for a, v in o.c.items():
            c[a] = c.get(a, 0) + v
        return Aff(c, self.k + o.k)

    def __neg__(self) -> "Aff":
        return Aff({a: -v for a, v in self.c.items()}, -self.k)

    def __sub__(self, o: "Aff") -> "Aff":
        return self + (-o)

    def scale(self, m: int) -> "Aff":
        return Aff({a: v * m for a, v in self.c.items()}, self.k * m)

    def __eq__(self, o) -> bool:
        return isinstance(o, Aff) and self.c == o.c and self.k == o.k

    def __hash__(self):
        return hash((tuple(sorted(self.c.items())), self.k))

    def subst(self, m: Dict[str, "Aff"]) -> "Aff":
        res = Aff.const(self.k)
        for a, v in self.c.items():
            res = res + (m[a].scale(v) if a in m else Aff({a: v}))
        return res

    def __repr__(self) -> str:
        parts = []
        for a in sorted(self.c):
            v = self.c[a]
            if v == 1:
                parts.append(f"+{a}")
            elif v == -1:
                parts.append(f"-{a}")
            else:
                parts.append(f"{v:+d}*{a}")
        if self.k or not parts:
            parts.append(f"{self.k:+d}")
        s = "".join(parts)
        return s[1:] if s.startswith("+") else s


def nonneg_certificate(d: Aff, facts: Sequence[Aff], free: Sequence[str] = ("n",)) -> Optional[str]:
    """Syntactic certificate that d >= 0 given facts f >= 0 and atoms m_* >= 0:
    d - sum(lam_i * f_i) has only non-negative coefficients on m-atoms, no free atom and a
    non-negative constant, lam_i in {0,1,2}, at most two facts used."""
    def ok(x: Aff) -> bool:
        return x.k >= 0 and all(v >= 0 and not _is_free(a, free) for a, v in x.c.items())

    if ok(d):
        return "0 facts"
    idx = range(len(facts))
    for i in idx:
        for li in (1, 2):
            if ok(d - facts[i].scale(li)):
                return f"minus {li}*({facts[i]!r} >= 0)"
    for i, j in itertools.combinations(idx, 2):
        for li in (1, 2):
            for lj in (1, 2):
                if ok(d - facts[i].scale(li) - facts[j].scale(lj)):
                    return f"minus {li}*({facts[i]!r} >= 0) and {lj}*({facts[j]!r} >= 0)"
    return None


def _is_free(atom: str, free: Sequence[str]) -> bool:
    return atom in free or not atom.startswith("m")


# --------------------------------------------------------------------- values
class Unk:
    def __repr__(self):
        return "?"


UNK = Unk()


class NoneV:
    def __repr__(self):
        return "None"


NONE = NoneV()


class Bnd:
    """An integer of which only bounds are known: <= every element of ups, >= lo."""

    def __init__(self, ups: Sequence[Aff], lo: Optional[Aff] = None):
        self.ups = list(ups)
        self.lo = lo

    def __repr__(self):
        return f"Bnd(<= {self.ups}, >= {self.lo})"


class Tup:
    def __init__(self, items: Sequence[Any]):
        self.items = list(items)
        self.open = False  # a list that was appended to an unknown number of times

    def __repr__(self):
        return "(" + ", ".join(map(repr, self.items)) + ")"


class Summ:
    """Iterable abstracted by one representative element (unknown length)."""

    def __init__(self, elem: Any):
        self.elem = elem

    def __repr__(self):
        return f"Summ[{self.elem!r}]"


class DictV:
    def __init__(self, items: Dict[Any, Any], open_: bool = False):
        self.items = dict(items)
        self.open = open_

    def __repr__(self):
        return f"Dict{self.items}{'+' if self.open else ''}"


class Join:
    def __init__(self, vals: Sequence[Any]):
        flat = []
        for v in vals:
            if isinstance(v, Join):
                flat.extend(v.vals)
            else:
                flat.append(v)
        self.vals = flat

    def __repr__(self):
        return "Join" + repr(self.vals)


class Prov:
    def __init__(self, pid: str):
        self.pid = pid

    def __repr__(self):
        return f"Prov({self.pid})"


class ClassObj:
    """Opaque combinatorial class.  `block` identifies the object (aliased children
    share a block); `name` is for messages."""

    def __init__(self, name: str, block: str):
        self.name = name
        self.block = block

    def __repr__(self):
        return f"<{self.name}>"


class Inst:
    def __init__(self, cls: ClassInfo):
        self.cls = cls
        self.attrs: Dict[str, Any] = {}

    def __repr__(self):
        return f"<inst {self.cls.name}>"


class Bound:
    """Bound method / function reference."""

    def __init__(self, fi: FuncInfo, self_val: Any = None):
        self.fi = fi
        self.self_val = self_val

    def __repr__(self):
        return f"<bound {self.fi.qualname}>"


class ClassRef:
    def __init__(self, cls: ClassInfo):
        self.cls = cls


class ModRef:
    def __init__(self, name: str):
        self.name = name


class StrV:
    def __init__(self, s: str):
        self.s = s

    def __eq__(self, o):
        return isinstance(o, StrV) and o.s == self.s

    def __hash__(self):
        return hash(("StrV", self.s))

    def __repr__(self):
        return repr(self.s)


class BoolV:
    def __init__(self, b: bool):
        self.b = b

    def __repr__(self):
        return str(self.b)


class Poly:
    """Laurent polynomial with integer coefficients over opaque function symbols: the
    abstract domain for the algebraic form of equations (sums, differences, products and
    quotients by a single term)."""

    def __init__(self, terms: Optional[Dict[Tuple[Tuple[str, int], ...], int]] = None):
        self.terms = {m: c for m, c in (terms or {}).items() if c != 0}

    @staticmethod
    def sym(name: str) -> "Poly":
        return Poly({((name, 1),): 1})

    @staticmethod
    def const(k: int) -> "Poly":
        return Poly({(): k})

    @staticmethod
    def _mul_mono(a, b):
        d = dict(a)
        for s_, e in b:
            d[s_] = d.get(s_, 0) + e
        return tuple(sorted((s_, e) for s_, e in d.items() if e != 0))

    def __add__(self, o: "Poly") -> "Poly":
        t = dict(self.terms)
        for m, c in o.terms.items():
            t[m] = t.get(m, 0) + c
        return Poly(t)

    def __neg__(self) -> "Poly":
        return Poly({m: -c for m, c in self.terms.items()})

    def __sub__(self, o: "Poly") -> "Poly":
        return self + (-o)

    def __mul__(self, o: "Poly") -> "Poly":
        t: Dict = {}
        for m1, c1 in self.terms.items():
            for m2, c2 in o.terms.items():
                m = Poly._mul_mono(m1, m2)
                t[m] = t.get(m, 0) + c1 * c2
        return Poly(t)

    def div(self, o: "Poly") -> Optional["Poly"]:
        if len(o.terms) != 1:
            return None
        (m2, c2), = o.terms.items()
        if c2 not in (1, -1):
            return None
        inv = tuple((s_, -e) for s_, e in m2)
        return self * Poly({inv: c2})

    def __eq__(self, o) -> bool:
        return isinstance(o, Poly) and self.terms == o.terms

    def __hash__(self):
        return hash(tuple(sorted(self.terms.items())))

    def __repr__(self) -> str:
        if not self.terms:
            return "0"
        parts = []
        for m, c in sorted(self.terms.items()):
            mono = "*".join(f"{s_}" if e == 1 else f"{s_}^{e}" for s_, e in m) or "1"
            parts.append(("+" if c > 0 else "-") + (mono if abs(c) == 1 else f"{abs(c)}*{mono}"))
        r = "".join(parts)
        return r[1:] if r.startswith("+") else r


class Record:
    def __init__(self, pid: str, arg: Any, node: ast.AST, facts: List[Aff], func: str):
        self.pid = pid
        self.arg = arg
        self.node = node
        self.facts = list(facts)
        self.func = func


class _Return(Exception):
    def __init__(self, value):
        self.value = value


class _Raise(Exception):
    pass


class _Break(Exception):
    pass


class _Continue(Exception):
    pass


# ---------------------------------------------------------------- interpreter
class Frame:
    def __init__(self, fi: Optional[FuncInfo], self_val: Any, locals_: Dict[str, Any], facts: List[Aff], outer: Optional["Frame"] = None):
        self.fi = fi
        self.self_val = self_val
        self.locals = locals_
        self.facts = facts
        self.outer = outer
        self.yields: Optional[List[Any]] = None
        self.early: List[Any] = []      # values returned on a branch whose condition was not decided

    def lookup(self, name: str):
        fr: Optional[Frame] = self
        while fr is not None:
            if name in fr.locals:
                return fr.locals[name]
            fr = fr.outer
        raise KeyError(name)


class Interp:
    def __init__(self, P: Program):
        self.P = P
        self.records: List[Record] = []
        self.depth = 0
        self.notes: List[str] = []
        self.comp_summaries = 0
        self.summ_depth = 0
        self.defects: List[Tuple[ast.AST, str]] = []

    # ------------------------------------------------------------ utilities
    def err(self, node: ast.AST, msg: str) -> AnalysisError:
        return AnalysisError(f"sizeflow: {msg} at {self.P.loc(node)}: `{norm(node)[:80]}`")

    def const_int(self, v: Any) -> Optional[int]:
        if isinstance(v, Aff) and v.is_const():
            return v.k
        return None

    # ------------------------------------------------------------ functions
    def call_function(self, fi: FuncInfo, self_val: Any, args: List[Any], kwargs: Dict[str, Any], facts: List[Aff],
                      outer: Optional[Frame] = None, collect_yields: bool = False):
        self.depth += 1
        if self.depth > MAX_DEPTH:
            self.depth -= 1
            raise AnalysisError(f"sizeflow: call depth exceeded at {fi.qualname} (recursion?)")
        try:
            node = fi.node
            a = node.args
            names = [x.arg for x in a.posonlyargs + a.args]
            defaults = [None] * (len(names) - len(a.defaults)) + list(a.defaults)
            loc: Dict[str, Any] = {}
            pos = list(args)
            is_method = fi.cls is not None and not fi.is_static()
            if is_method:
                pos = [self_val if not fi.is_classmethod() else ClassRef(fi.cls)] + pos
            frame = Frame(fi, self_val, loc, list(facts), outer)
            for i, nm in enumerate(names):
                if i < len(pos):
                    loc[nm] = pos[i]
                elif nm in kwargs:
                    loc[nm] = kwargs[nm]
                elif defaults[i] is not None:
                    loc[nm] = self.ev(defaults[i], frame)
                else:
                    loc[nm] = UNK
            if a.vararg:
                loc[a.vararg.arg] = Tup(pos[len(names):])
            for kwarg, d in zip(a.kwonlyargs, a.kw_defaults):
                loc[kwarg.arg] = kwargs.get(kwarg.arg, self.ev(d, frame) if d is not None else UNK)
            if a.kwarg:
                loc[a.kwarg.arg] = UNK
            is_gen = any(isinstance(n, (ast.Yield, ast.YieldFrom)) for n in _walk_local(node))
            if is_gen:
                frame.yields = []
            try:
                self.exec_block(node.body, frame)
                ret = NONE
            except _Return as r:
                ret = r.value
            except _Raise:
                ret = UNK
                if is_gen:
                    pass
            if frame.early and not is_gen:
                alts = [v for v in frame.early if not _same(v, ret)]
                if alts:
                    ret = Join(alts + [ret])
            if is_gen:
                ys = frame.yields
                if not ys:
                    return Summ(UNK) if not collect_yields else []
                if collect_yields:
                    return ys
                return Summ(ys[0] if len(ys) == 1 else Join(ys))
            return ret
        finally:
            self.depth -= 1

    # ----------------------------------------------------------- statements
    def exec_block(self, stmts: Sequence[ast.stmt], fr: Frame) -> None:
        for st in stmts:
            self.exec_stmt(st, fr)

    def exec_stmt(self, st: ast.stmt, fr: Frame) -> None:
        if isinstance(st, ast.Expr):
            self.ev(st.value, fr)
        elif isinstance(st, ast.Assign):
            v = self.ev(st.value, fr)
            for t in st.targets:
                self.assign(t, v, fr)
        elif isinstance(st, ast.AnnAssign):
            if st.value is not None:
                self.assign(st.target, self.ev(st.value, fr), fr)
        elif isinstance(st, ast.AugAssign):
            cur = self.ev_target_load(st.target, fr)
            rhs = self.ev(st.value, fr)
            self.assign(st.target, self.binop(st.op, cur, rhs, st), fr)
        elif isinstance(st, ast.Return):
            raise _Return(self.ev(st.value, fr) if st.value is not None else NONE)
        elif isinstance(st, ast.Raise):
            raise _Raise()
        elif isinstance(st, ast.Assert):
            # assertions in the slice are size sanity checks; their test may call providers
            self.ev(st.test, fr)
        elif isinstance(st, ast.Pass):
            pass
        elif isinstance(st, ast.If):
            self.exec_if(st, fr)
        elif isinstance(st, ast.For):
            self.exec_for(st, fr)
        elif isinstance(st, ast.While):
            raise self.err(st, "while loop in the size slice")
        elif isinstance(st, (ast.FunctionDef,)):
            fr.locals[st.name] = Bound(FuncInfo(st, getattr(st, "_module", None), None), None)
            fr.locals[st.name].closure = fr  # type: ignore[attr-defined]
        elif isinstance(st, ast.Break):
            raise _Break()
        elif isinstance(st, ast.Continue):
            raise _Continue()
        elif isinstance(st, ast.Try):
            # the slice has no try; evaluate the body only (handlers skip work)
            self.exec_block(st.body, fr)
            self.exec_block(st.orelse, fr)
            self.exec_block(st.finalbody, fr)
        elif isinstance(st, (ast.Import, ast.ImportFrom, ast.Global, ast.Nonlocal, ast.Delete)):
            pass
        elif isinstance(st, ast.With):
            self.exec_block(st.body, fr)
        else:
            raise self.err(st, f"unsupported statement {type(st).__name__}")

    def exec_if(self, st: ast.If, fr: Frame) -> None:
        t = self.truth(st.test, fr)
        if t is True:
            self.exec_block(st.body, fr)
            return
        if t is False:
            self.exec_block(st.orelse, fr)
            return
        # unknown: explore both arms; refinements from affine comparisons
        pos_f, neg_f = self.refinements(st.test, fr)
        outcomes = []
        for arm, extra in ((st.body, pos_f), (st.orelse, neg_f)):
            sub = Frame(fr.fi, fr.self_val, dict(fr.locals), fr.facts + extra, fr.outer)
            sub.yields = fr.yields
            sub.early = fr.early
            try:
                self.exec_block(arm, sub)
                outcomes.append(("next", sub, None))
            except _Return as r:
                outcomes.append(("return", sub, r.value))
            except _Raise:
                outcomes.append(("raise", sub, None))
            except _Break:
                outcomes.append(("break", sub, None))
            except _Continue:
                outcomes.append(("continue", sub, None))
        nexts = [o for o in outcomes if o[0] == "next"]
        others = [o for o in outcomes if o[0] != "next"]
        if nexts:
            # merge fall-through states; facts: keep those of the single survivor, else common ones
            if len(nexts) == 1:
                fr.locals.clear()
                fr.locals.update(nexts[0][1].locals)
                fr.facts[:] = nexts[0][1].facts
            else:
                a, b = nexts[0][1], nexts[1][1]
                keys = set(a.locals) | set(b.locals)
                merged = {}
                for k in keys:
                    va, vb = a.locals.get(k, UNK), b.locals.get(k, UNK)
                    merged[k] = va if _same(va, vb) else Join([va, vb])
                fr.locals.clear()
                fr.locals.update(merged)
                fr.facts[:] = [f for f in a.facts if f in b.facts]
            # an arm that returned: its value is one of the values the function can return
            for o in others:
                if o[0] == "return":
                    fr.early.append(o[2])
            return
        # no arm falls through
        kinds = {o[0] for o in others}
        if kinds == {"return"}:
            raise _Return(Join([o[2] for o in others]))
        if "return" in kinds:
            raise _Return(Join([o[2] for o in others if o[0] == "return"]))
        if kinds == {"raise"}:
            raise _Raise()
        if "break" in kinds:
            raise _Break()
        raise _Continue()

    def exec_for(self, st: ast.For, fr: Frame) -> None:
        it = self.ev(st.iter, fr)
        elems, _summ = self.iterate(it, st.iter)
        if _summ:
            self.summ_depth += 1
        try:
            self._exec_for_body(st, fr, elems)
        finally:
            if _summ:
                self.summ_depth -= 1

    def _exec_for_body(self, st: ast.For, fr: Frame, elems) -> None:
        try:
            for e in elems:
                self.assign(st.target, e, fr)
                try:
                    self.exec_block(st.body, fr)
                except _Continue:
                    continue
        except _Break:
            return
        self.exec_block(st.orelse, fr)

    def iterate(self, it: Any, node: ast.AST) -> Tuple[List[Any], bool]:
        if isinstance(it, Tup):
            if it.open:
                return [Join(it.items) if it.items else UNK], True
            return list(it.items), False
        if isinstance(it, Summ):
            return [it.elem], True
        if isinstance(it, DictV):
            return list(it.items.keys()) + ([UNK] if it.open else []), it.open
        if isinstance(it, Join):
            # iterate the variant with most structure
            tups = [v for v in it.vals if isinstance(v, (Tup, Summ))]
            if tups:
                return self.iterate(tups[0], node)
        return [UNK], True

    def assign(self, target: ast.AST, v: Any, fr: Frame) -> None:
        if isinstance(target, ast.Name):
            fr.locals[target.id] = v
        elif isinstance(target, (ast.Tuple, ast.List)):
            if isinstance(v, Tup) and len(v.items) == len(target.elts) and not any(isinstance(e, ast.Starred) for e in target.elts):
                for t, x in zip(target.elts, v.items):
                    self.assign(t, x, fr)
            elif isinstance(v, Tup) and sum(isinstance(e, ast.Starred) for e in target.elts) == 1 and len(v.items) >= len(target.elts) - 1:
                # a, *rest, z = <tuple of known length>
                si = [j for j, e in enumerate(target.elts) if isinstance(e, ast.Starred)][0]
                after = len(target.elts) - si - 1
                for t, x in zip(target.elts[:si], v.items[:si]):
                    self.assign(t, x, fr)
                self.assign(target.elts[si].value, Tup(list(v.items[si:len(v.items) - after])), fr)
                for t, x in zip(target.elts[si + 1:], v.items[len(v.items) - after:]):
                    self.assign(t, x, fr)
            else:
                for t in target.elts:
                    self.assign(t.value if isinstance(t, ast.Starred) else t, UNK, fr)
        elif isinstance(target, ast.Attribute):
            obj = self.ev(target.value, fr)
            if isinstance(obj, Inst):
                obj.attrs[target.attr] = v
        elif isinstance(target, ast.Subscript):
            obj = self.ev(target.value, fr)
            key = self.ev(target.slice, fr)
            if isinstance(obj, DictV):
                if isinstance(key, StrV):
                    if key.s == "n" and "n" in {k.s for k in obj.items if isinstance(k, StrV)}:
                        raise self.err(target, "the reserved size entry d['n'] is overwritten")
                    obj.items[key] = v
                elif isinstance(key, ClassObj):
                    obj.items[("cls", key.block)] = v
                else:
                    obj.open = True
            elif isinstance(obj, Tup):
                i = self.const_int(key)
                if i is not None and -len(obj.items) <= i < len(obj.items):
                    obj.items[i] = v
        elif isinstance(target, ast.Starred):
            self.assign(target.value, UNK, fr)

    def ev_target_load(self, target: ast.AST, fr: Frame) -> Any:
        try:
            load = ast.parse(norm(target), mode="eval").body
        except SyntaxError:
            return UNK
        ast.copy_location(load, target)
        for n in ast.walk(load):
            n._module = getattr(target, "_module", None)  # type: ignore[attr-defined]
            ast.copy_location(n, target)
        return self.ev(load, fr)

    # ---------------------------------------------------------- expressions
    def truth(self, test: ast.AST, fr: Frame) -> Optional[bool]:
        v = self.ev(test, fr)
        if isinstance(v, BoolV):
            return v.b
        if v is NONE:
            return False
        if isinstance(v, Tup):
            return bool(v.items)
        if isinstance(v, Aff) and v.is_const():
            return v.k != 0
        if isinstance(v, (Inst, ClassObj, Prov, Bound)):
            return True
        if isinstance(v, DictV) and not v.open:
            return bool(v.items)
        return None

    def refinements(self, test: ast.AST, fr: Frame) -> Tuple[List[Aff], List[Aff]]:
        """Facts (>= 0) implied by the test being true / false, for affine comparisons."""
        if isinstance(test, ast.UnaryOp) and isinstance(test.op, ast.Not):
            a, b = self.refinements(test.operand, fr)
            return b, a
        if isinstance(test, ast.Compare) and len(test.ops) == 1:
            l = self.ev_quiet(test.left, fr)
            r = self.ev_quiet(test.comparators[0], fr)
            if isinstance(l, Aff) and isinstance(r, Aff):
                op = test.ops[0]
                one = Aff.const(1)
                if isinstance(op, ast.Lt):
                    return [r - l - one], [l - r]
                if isinstance(op, ast.LtE):
                    return [r - l], [l - r - one]
                if isinstance(op, ast.Gt):
                    return [l - r - one], [r - l]
                if isinstance(op, ast.GtE):
                    return [l - r], [r - l - one]
        return [], []

    def ev_quiet(self, node: ast.AST, fr: Frame) -> Any:
        """Evaluate without recording provider calls (used for re-evaluating a test)."""
        n = len(self.records)
        try:
            return self.ev(node, fr)
        finally:
            del self.records[n:]

    def ev(self, node: ast.AST, fr: Frame) -> Any:
        m = getattr(self, "ev_" + type(node).__name__, None)
        if m is None:
            return UNK
        return m(node, fr)

    def ev_Constant(self, node, fr):
        v = node.value
        if v is None:
            return NONE
        if isinstance(v, bool):
            return BoolV(v)
        if isinstance(v, int):
            return Aff.const(v)
        if isinstance(v, str):
            return StrV(v)
        return UNK

    def ev_Name(self, node, fr):
        try:
            return fr.lookup(node.id)
        except KeyError:
            pass
        # module-level names: classes, imported modules, functions
        mod = getattr(node, "_module", None) or (fr.fi.module if fr.fi else None)
        if node.id in self.P.classes:
            return ClassRef(self.P.classes[node.id])
        if mod is not None:
            if node.id in mod.functions:
                return Bound(mod.functions[node.id], None)
            if node.id in mod.imports:
                src, attr = mod.imports[node.id]
                if attr is None:
                    return ModRef(src)
                full = f"{src}.{attr}"
                if full in self.P.modules:
                    return ModRef(full)
                if src in self.P.modules and attr in self.P.modules[src].functions:
                    return Bound(self.P.modules[src].functions[attr], None)
                return ModRef(full)
        return ("builtin", node.id)

    def ev_Attribute(self, node, fr):
        obj = self.ev(node.value, fr)
        return self.getattr(obj, node.attr, node, fr)

    def getattr(self, obj: Any, attr: str, node: ast.AST, fr: Frame) -> Any:
        if isinstance(obj, Inst):
            if attr in obj.attrs:
                return obj.attrs[attr]
            m = self.P.find_method(obj.cls, attr)
            if m is not None:
                if m.is_property():
                    return self.call_function(m, obj, [], {}, fr.facts)
                return Bound(m, obj)
            return UNK
        if isinstance(obj, ClassRef):
            m = self.P.find_method(obj.cls, attr)
            if m is not None:
                return Bound(m, None)
            return UNK
        if isinstance(obj, ModRef):
            name = obj.name
            if name in self.P.modules and attr in self.P.modules[name].functions:
                return Bound(self.P.modules[name].functions[attr], None)
            return ModRef(f"{name}.{attr}")
        if isinstance(obj, ClassObj):
            if attr == "extra_parameters":
                return Summ(UNK)
            return ("classmethod", obj, attr)
        if isinstance(obj, (Tup, DictV, Summ)):
            return ("method", obj, attr)
        if isinstance(obj, Join):
            return ("method", obj, attr)
        if isinstance(obj, tuple) and obj and obj[0] == "super":
            _, inst, cls = obj
            m = self.P.super_method(cls, attr)
            if m is not None:
                if m.is_property():
                    return self.call_function(m, inst, [], {}, fr.facts)
                return Bound(m, inst)
            return UNK
        return ("method", obj, attr)

    def ev_Tuple(self, node, fr):
        items = []
        for e in node.elts:
            if isinstance(e, ast.Starred):
                v = self.ev(e.value, fr)
                if isinstance(v, Tup):
                    items.extend(v.items)
                else:
                    return Summ(UNK)
            else:
                items.append(self.ev(e, fr))
        return Tup(items)

    ev_List = ev_Tuple

    def ev_Dict(self, node, fr):
        items = {}
        open_ = False
        for k, v in zip(node.keys, node.values):
            if k is None:
                vv = self.ev(v, fr)
                if isinstance(vv, DictV):
                    items.update(vv.items)
                    open_ = open_ or vv.open
                else:
                    open_ = True
                continue
            kk = self.ev(k, fr)
            vv = self.ev(v, fr)
            if isinstance(kk, StrV):
                items[kk] = vv
            elif isinstance(kk, ClassObj):
                items[("cls", kk.block)] = vv
            else:
                open_ = True
        return DictV(items, open_)

    def ev_IfExp(self, node, fr):
        t = self.truth(node.test, fr)
        if t is True:
            return self.ev(node.body, fr)
        if t is False:
            return self.ev(node.orelse, fr)
        return Join([self.ev(node.body, fr), self.ev(node.orelse, fr)])

    def ev_UnaryOp(self, node, fr):
        v = self.ev(node.operand, fr)
        if isinstance(node.op, ast.USub) and isinstance(v, Aff):
            return -v
        if isinstance(node.op, ast.Not):
            if isinstance(v, BoolV):
                return BoolV(not v.b)
            t = self.truth(node.operand, fr) if not isinstance(node.operand, ast.Call) else None
            if t is not None:
                return BoolV(not t)
        return UNK

    def ev_BoolOp(self, node, fr):
        vals = [self.truth(v, fr) for v in node.values]
        if isinstance(node.op, ast.And):
            if any(v is False for v in vals):
                return BoolV(False)
            if all(v is True for v in vals):
                return BoolV(True)
        else:
            if any(v is True for v in vals):
                return BoolV(True)
            if all(v is False for v in vals):
                return BoolV(False)
        return UNK

    def ev_Compare(self, node, fr):
        if len(node.ops) != 1:
            for c in node.comparators:
                self.ev(c, fr)
            return UNK
        l = self.ev(node.left, fr)
        r = self.ev(node.comparators[0], fr)
        op = node.ops[0]
        if isinstance(op, (ast.Is, ast.IsNot)):
            if r is NONE or l is NONE:
                other = l if r is NONE else r
                if other is NONE:
                    return BoolV(isinstance(op, ast.Is))
                if isinstance(other, (Aff, Tup, Inst, ClassObj, Prov, DictV, StrV, BoolV, Bnd)):
                    return BoolV(isinstance(op, ast.IsNot))
            return UNK
        if isinstance(l, Aff) and isinstance(r, Aff):
            d = l - r
            if d.is_const():
                k = d.k
                res = {ast.Lt: k < 0, ast.LtE: k <= 0, ast.Gt: k > 0, ast.GtE: k >= 0, ast.Eq: k == 0, ast.NotEq: k != 0}.get(type(op))
                if res is not None:
                    return BoolV(res)
            # decide with the facts of the path when possible
            one = Aff.const(1)
            want = {ast.Lt: (r - l - one, l - r), ast.LtE: (r - l, l - r - one), ast.Gt: (l - r - one, r - l), ast.GtE: (l - r, r - l - one)}.get(type(op))
            if want is not None:
                if nonneg_certificate(want[0], fr.facts):
                    return BoolV(True)
                if nonneg_certificate(want[1], fr.facts):
                    return BoolV(False)
            return UNK
        if isinstance(op, (ast.Eq, ast.NotEq)) and isinstance(l, StrV) and isinstance(r, StrV):
            return BoolV((l == r) == isinstance(op, ast.Eq))
        if isinstance(op, (ast.In, ast.NotIn)) and isinstance(r, DictV) and isinstance(l, StrV) and not r.open:
            return BoolV((l in r.items) == isinstance(op, ast.In))
        return UNK

    def ev_BinOp(self, node, fr):
        return self.binop(node.op, self.ev(node.left, fr), self.ev(node.right, fr), node)

    def binop(self, op, l, r, node):
        if isinstance(l, Poly) or isinstance(r, Poly):
            lp = l if isinstance(l, Poly) else (Poly.const(l.k) if isinstance(l, Aff) and l.is_const() else None)
            rp = r if isinstance(r, Poly) else (Poly.const(r.k) if isinstance(r, Aff) and r.is_const() else None)
            if lp is None or rp is None:
                return UNK
            if isinstance(op, ast.Add):
                return lp + rp
            if isinstance(op, ast.Sub):
                return lp - rp
            if isinstance(op, ast.Mult):
                return lp * rp
            if isinstance(op, ast.Div):
                q = lp.div(rp)
                return q if q is not None else UNK
            return UNK
        if isinstance(l, Join) and all(isinstance(v, Aff) for v in l.vals) and isinstance(r, (Aff, Join)):
            return Join([self.binop(op, v, r, node) for v in l.vals])
        if isinstance(r, Join) and all(isinstance(v, Aff) for v in r.vals) and isinstance(l, Aff):
            return Join([self.binop(op, l, v, node) for v in r.vals])
        if isinstance(l, Aff) and isinstance(r, Aff):
            if isinstance(op, ast.Add):
                return l + r
            if isinstance(op, ast.Sub):
                return l - r
            if isinstance(op, ast.Mult):
                if l.is_const():
                    return r.scale(l.k)
                if r.is_const():
                    return l.scale(r.k)
            return UNK
        if isinstance(op, ast.Add) and isinstance(l, Tup) and isinstance(r, Tup):
            return Tup(l.items + r.items)
        if isinstance(op, ast.Add) and isinstance(l, (Tup, Summ)) and isinstance(r, (Tup, Summ)):
            return Summ(Join([x.elem if isinstance(x, Summ) else Join(x.items) if x.items else UNK for x in (l, r)]))
        # bounded integers: keep what is known
        if isinstance(op, (ast.Add, ast.Sub)) and isinstance(l, (Aff, Bnd)) and isinstance(r, (Aff, Bnd)):
            lu = [l] if isinstance(l, Aff) else l.ups
            ll = l if isinstance(l, Aff) else l.lo
            ru = [r] if isinstance(r, Aff) else r.ups
            rl = r if isinstance(r, Aff) else r.lo
            if isinstance(op, ast.Add):
                return Bnd([a + b for a in lu for b in ru], (ll + rl) if ll is not None and rl is not None else None)
            return Bnd([a - rl for a in lu] if rl is not None else [], (ll - ru[0]) if ll is not None and ru else None)
        return UNK

    def ev_Subscript(self, node, fr):
        obj = self.ev(node.value, fr)
        if isinstance(node.slice, ast.Slice):
            lo = self.ev(node.slice.lower, fr) if node.slice.lower is not None else None
            hi = self.ev(node.slice.upper, fr) if node.slice.upper is not None else None
            if node.slice.step is not None:
                return UNK
            if isinstance(obj, Tup):
                li = self.const_int(lo) if lo is not None else None
                hi_i = self.const_int(hi) if hi is not None else None
                if (lo is not None and li is None) or (hi is not None and hi_i is None):
                    raise self.err(node, "slice of a provider/size tuple with a non-constant bound")
                return Tup(obj.items[li:hi_i])
            return UNK
        key = self.ev(node.slice, fr)
        if isinstance(obj, Tup) and obj.open:
            return Join(obj.items) if obj.items else UNK
        if isinstance(obj, Tup):
            i = self.const_int(key)
            if i is not None:
                if -len(obj.items) <= i < len(obj.items):
                    return obj.items[i]
                self.defects.append((node, f"index {i} is out of range for a tuple of length {len(obj.items)}: IndexError at run time for this arity"))
                return UNK
            if any(isinstance(x, Prov) for x in obj.items):
                raise self.err(node, "provider tuple indexed by a non-constant")
            return Join(obj.items) if obj.items else UNK
        if isinstance(obj, DictV):
            if isinstance(key, StrV) and key in obj.items:
                return obj.items[key]
            if isinstance(key, ClassObj) and ("cls", key.block) in obj.items:
                return obj.items[("cls", key.block)]
            return UNK
        if isinstance(obj, Join):
            return UNK
        return UNK

    def _comp(self, node, fr, kind: str):
        """Evaluate a comprehension / generator expression eagerly."""
        results: List[Any] = []
        summarised = [False]

        def rec(gi: int, sub: Frame):
            if gi == len(node.generators):
                if kind == "dict":
                    results.append((self.ev(node.key, sub), self.ev(node.value, sub)))
                else:
                    results.append(self.ev(node.elt, sub))
                return
            g = node.generators[gi]
            it = self.ev(g.iter, sub)
            elems, summ = self.iterate(it, g.iter)
            if summ:
                summarised[0] = True
            for e in elems:
                self.assign(g.target, e, sub)
                keep = True
                for cond in g.ifs:
                    t = self.truth(cond, sub)
                    if t is False:
                        keep = False
                        break
                    if t is None:
                        if _mentions_provider_or_size(results, e):
                            raise self.err(cond, "comprehension filter over sizes/providers that cannot be evaluated")
                        summarised[0] = True
                if keep:
                    rec(gi + 1, sub)

        sub = Frame(fr.fi, fr.self_val, {}, fr.facts, fr)
        sub.yields = fr.yields
        rec(0, sub)
        if kind == "dict":
            d = DictV({}, summarised[0])
            for k, v in results:
                if isinstance(k, StrV):
                    d.items[k] = v
                elif isinstance(k, ClassObj):
                    d.items[("cls", k.block)] = v
                else:
                    d.open = True
            return d
        if summarised[0]:
            return Summ(results[0] if len(results) == 1 else (Join(results) if results else UNK))
        return Tup(results)

    def ev_GeneratorExp(self, node, fr):
        return self._comp(node, fr, "gen")

    def ev_ListComp(self, node, fr):
        return self._comp(node, fr, "list")

    def ev_SetComp(self, node, fr):
        v = self._comp(node, fr, "set")
        return v

    def ev_DictComp(self, node, fr):
        return self._comp(node, fr, "dict")

    def ev_Starred(self, node, fr):
        return self.ev(node.value, fr)

    def ev_Lambda(self, node, fr):
        return UNK

    def ev_JoinedStr(self, node, fr):
        return UNK

    def ev_Yield(self, node, fr):
        v = self.ev(node.value, fr) if node.value is not None else NONE
        f: Optional[Frame] = fr
        while f is not None and f.yields is None:
            f = f.outer
        if f is not None:
            f.yields.append(v)
        return NONE

    def ev_YieldFrom(self, node, fr):
        v = self.ev(node.value, fr)
        elems, _ = self.iterate(v, node.value)
        f: Optional[Frame] = fr
        while f is not None and f.yields is None:
            f = f.outer
        if f is not None:
            f.yields.extend(elems)
        return NONE

    # ------------------------------------------------------------------ calls
    def ev_Call(self, node, fr):
        # super()
        if isinstance(node.func, ast.Name) and node.func.id == "super" and not node.args:
            if fr.fi is not None and fr.fi.cls is not None:
                return ("super", fr.self_val, fr.fi.cls)
            return UNK
        fn = self.ev(node.func, fr)
        args: List[Any] = []
        for a in node.args:
            if isinstance(a, ast.Starred):
                v = self.ev(a.value, fr)
                if isinstance(v, Tup):
                    args.extend(v.items)
                else:
                    args.append(("star", v))
            else:
                args.append(self.ev(a, fr))
        kwargs = {k.arg: self.ev(k.value, fr) for k in node.keywords if k.arg is not None}
        for k in node.keywords:
            if k.arg is None:
                self.ev(k.value, fr)
        return self.apply(fn, args, kwargs, node, fr)

    def apply(self, fn: Any, args: List[Any], kwargs: Dict[str, Any], node: ast.AST, fr: Frame) -> Any:
        if isinstance(fn, Prov):
            if len(args) != 1 or kwargs:
                raise self.err(node, "provider called with an unexpected signature")
            self.records.append(Record(fn.pid, args[0], node, fr.facts, fr.fi.qualname if fr.fi else "?"))
            return UNK
        if isinstance(fn, Join):
            provs = [v for v in fn.vals if isinstance(v, Prov)]
            if provs:
                for p in provs:
                    self.apply(p, args, kwargs, node, fr)
                return UNK
        if isinstance(fn, Bound):
            fi = fn.fi
            if fi.cls is None and fi.module is not None and fi.module.short == "utils" and fi.name == "compositions":
                return self.compositions_summary(args, kwargs, node, fr)
            closure = getattr(fn, "closure", None)
            if any(isinstance(a, tuple) and a and a[0] == "star" for a in args):
                return UNK
            return self.call_function(fi, fn.self_val, args, kwargs, fr.facts, outer=closure)
        if isinstance(fn, ClassRef):
            cls = fn.cls
            if any(c.name in ("Constructor",) for c in self.P.mro(cls)) or self.P.find_method(cls, "__init__") is not None:
                inst = Inst(cls)
                init = self.P.find_method(cls, "__init__")
                if init is not None:
                    self.call_function(init, inst, args, kwargs, fr.facts)
                return inst
            return UNK
        if isinstance(fn, tuple) and fn:
            if fn[0] == "builtin":
                return self.builtin(fn[1], args, kwargs, node, fr)
            if fn[0] == "classmethod":
                _, cobj, attr = fn
                if attr == "minimum_size_of_object":
                    return Aff.atom(f"m_{cobj.block}")
                if attr == "is_atom":
                    return UNK
                if attr == "is_empty":
                    e = getattr(cobj, "empty", None)
                    return UNK if e is None else BoolV(e)
                return UNK
            if fn[0] == "method":
                _, obj, attr = fn
                return self.method(obj, attr, args, kwargs, node, fr)
        if isinstance(fn, ModRef):
            tail = fn.name.split(".")[-1]
            if tail in ("product",):
                return Summ(UNK)
            if tail in ("cast",) and len(args) == 2:
                return args[1]
            if tail == "Eq" and len(args) == 2:
                return Tup([StrV("Eq"), args[0], args[1]])
            if tail == "Counter":
                return UNK
            return UNK
        return UNK

    def method(self, obj: Any, attr: str, args, kwargs, node, fr) -> Any:
        if isinstance(obj, Poly):
            if attr == "subs" and args and isinstance(args[0], DictV) and not args[0].items and not args[0].open:
                return obj
            return UNK
        if isinstance(obj, DictV):
            if attr == "get" and args:
                k = args[0]
                if isinstance(k, StrV):
                    if k in obj.items:
                        return obj.items[k]
                    if not obj.open:
                        return args[1] if len(args) > 1 else NONE
                    return Join([args[1] if len(args) > 1 else NONE, UNK])
                return UNK
            if attr == "values":
                vals = list(obj.items.values())
                return Summ(Join(vals + [UNK])) if obj.open else Tup(vals)
            if attr == "keys":
                if not obj.open:
                    return Tup([k if isinstance(k, StrV) else UNK for k in obj.items])
                return Summ(UNK)
            if attr == "items":
                if not obj.open:
                    return Tup([Tup([k if isinstance(k, StrV) else UNK, v]) for k, v in obj.items.items()])
                return Summ(Tup([UNK, UNK]))
            return UNK
        if isinstance(obj, Tup):
            if attr in ("append", "extend", "insert"):
                if self.summ_depth > 0:
                    obj.open = True
                if attr == "append" and args:
                    obj.items.append(args[0])
                elif attr == "extend" and args:
                    if isinstance(args[0], Tup) and not args[0].open:
                        obj.items.extend(args[0].items)
                    else:
                        obj.open = True
                        obj.items.append(args[0].elem if isinstance(args[0], Summ) else UNK)
                else:
                    obj.open = True
                return NONE
            if attr in ("pop", "remove", "clear", "sort", "reverse"):
                obj.open = True
                return UNK
            if attr == "index" and args and not obj.open:
                for i, x in enumerate(obj.items):
                    if x is args[0]:
                        return Aff.const(i)
                return UNK
            if attr == "__add__" and args and isinstance(args[0], Tup):
                return Tup(obj.items + args[0].items)
            return UNK
        if isinstance(obj, Join) and attr == "get":
            return UNK
        return UNK

    def builtin(self, name: str, args, kwargs, node, fr) -> Any:
        a0 = args[0] if args else None
        if name == "len":
            if isinstance(a0, Tup) and not a0.open:
                return Aff.const(len(a0.items))
            return UNK
        if name in ("tuple", "list"):
            if a0 is None:
                return Tup([])
            if isinstance(a0, Tup) and a0.open:
                return Summ(Join(a0.items) if a0.items else UNK)
            if isinstance(a0, (Tup, Summ)):
                return a0 if isinstance(a0, Summ) else Tup(a0.items)
            return Summ(UNK)
        if name == "sum":
            if isinstance(a0, Tup):
                if all(isinstance(x, Aff) for x in a0.items):
                    tot = Aff.const(0)
                    for x in a0.items:
                        tot = tot + x
                    return tot
                return UNK
            return UNK
        if name == "zip":
            if all(isinstance(a, Tup) and not a.open for a in args) and args:
                ls = {len(a.items) for a in args}
                if len(ls) != 1:
                    if any(any(isinstance(x, Prov) for x in a.items) for a in args):
                        self.defects.append((node, f"zip of sequences of different lengths {sorted(ls)}: providers and sizes/maps are "
                                             "misaligned (a provider is dropped or the arity assertion fails)"))
                n = min(ls)
                return Tup([Tup([a.items[i] for a in args]) for i in range(n)])
            elems = []
            for a in args:
                if isinstance(a, Tup):
                    elems.append(Join(a.items) if a.items else UNK)
                elif isinstance(a, Summ):
                    elems.append(a.elem)
                else:
                    elems.append(UNK)
            if any(isinstance(a, Tup) and any(isinstance(x, Prov) for x in a.items) for a in args):
                # providers zipped with something of unknown length: keep positions unknown but record all
                return Summ(Tup(elems))
            return Summ(Tup(elems))
        if name == "enumerate":
            if isinstance(a0, Tup):
                return Tup([Tup([Aff.const(i), x]) for i, x in enumerate(a0.items)])
            if isinstance(a0, Summ):
                return Summ(Tup([UNK, a0.elem]))
            return Summ(Tup([UNK, UNK]))
        if name == "range":
            vals = [self.const_int(a) for a in args]
            if all(v is not None for v in vals) and vals:
                return Tup([Aff.const(i) for i in range(*vals)])
            # symbolic range: one representative element with bounds
            if len(args) == 1 and isinstance(args[0], (Aff,)):
                return Summ(Bnd([args[0] - Aff.const(1)], Aff.const(0)))
            if len(args) == 2 and all(isinstance(a, Aff) for a in args):
                return Summ(Bnd([args[1] - Aff.const(1)], args[0]))
            return Summ(UNK)
        if name in ("min", "max"):
            # the result is one of the operands: every consumer must cope with each alternative
            vals = list(args)
            if len(vals) == 1 and isinstance(vals[0], Tup):
                vals = list(vals[0].items)
            if vals and all(isinstance(v, Aff) for v in vals):
                if all(v.is_const() for v in vals):
                    return Aff.const((min if name == "min" else max)(v.k for v in vals))
                return Join(vals)
            return UNK
        if name == "all" or name == "any":
            if isinstance(a0, Tup) and not a0.open and all(isinstance(x, DictV) and not x.open for x in a0.items):
                vals = [bool(x.items) for x in a0.items]
                return BoolV(all(vals) if name == "all" else any(vals))
            return UNK
        if name == "isinstance":
            if len(args) == 2 and isinstance(args[0], Inst):
                cands = args[1].items if isinstance(args[1], Tup) else [args[1]]
                if all(isinstance(c, ClassRef) for c in cands):
                    mro = self.P.mro(args[0].cls)
                    return BoolV(any(c.cls in mro for c in cands))
            return UNK
        if name == "reversed":
            if isinstance(a0, Tup):
                return Tup(list(reversed(a0.items)))
            return a0 if isinstance(a0, Summ) else UNK
        if name == "sorted":
            if isinstance(a0, Tup) and not any(isinstance(x, Prov) for x in a0.items):
                return Summ(Join(a0.items)) if a0.items else Tup([])
            if isinstance(a0, Tup):
                raise self.err(node, "providers are sorted: positions no longer correspond to children")
            return a0 if isinstance(a0, Summ) else UNK
        if name == "map":
            if len(args) == 2 and isinstance(args[1], Tup):
                return Tup([self.apply(args[0], [x], {}, node, fr) for x in args[1].items])
            if len(args) == 2 and isinstance(args[1], Summ):
                return Summ(self.apply(args[0], [args[1].elem], {}, node, fr))
            return Summ(UNK)
        if name in ("Counter", "dict", "set", "frozenset", "defaultdict", "partial", "str", "int", "bool", "print"):
            return UNK
        if name == "cast" and len(args) == 2:
            return args[1]
        if name == "product":
            return Summ(UNK)
        return UNK

    # --------------------------------------------------- compositions summary
    def compositions_summary(self, args, kwargs, node, fr) -> Any:
        names = ["n", "k", "min_sizes", "max_sizes"]
        vals = dict(zip(names, args))
        vals.update(kwargs)
        N, c, mins, maxs = (vals.get(x) for x in names)
        ci = self.const_int(c)
        if not isinstance(N, Aff) or ci is None or not isinstance(mins, Tup) or not isinstance(maxs, Tup):
            raise self.err(node, "utils.compositions called with arguments the summary cannot read")
        if len(mins.items) != ci or len(maxs.items) != ci:
            raise self.err(node, f"utils.compositions(k={ci}) with {len(mins.items)} minimum and {len(maxs.items)} maximum sizes")
        if not all(isinstance(x, Aff) for x in mins.items):
            raise self.err(node, "minimum sizes are not affine")
        self.comp_summaries += 1
        total_min = Aff.const(0)
        for x in mins.items:
            total_min = total_min + x
        elems = []
        for i in range(ci):
            ups = [N - (total_min - mins.items[i])]
            mx = maxs.items[i]
            if isinstance(mx, Aff):
                ups.append(mx)
            elems.append(Bnd(ups, mins.items[i]))
        return Summ(Tup(elems))


def _walk_local(func: ast.AST):
    stack = list(ast.iter_child_nodes(func))
    while stack:
        n = stack.pop()
        yield n
        if isinstance(n, (ast.FunctionDef, ast.AsyncFunctionDef, ast.ClassDef, ast.Lambda)):
            continue
        stack.extend(ast.iter_child_nodes(n))


def _same(a, b) -> bool:
    if a is b:
        return True
    if isinstance(a, Aff) and isinstance(b, Aff):
        return a == b
    if isinstance(a, StrV) and isinstance(b, StrV):
        return a == b
    return False


def _mentions_provider_or_size(results, e) -> bool:
    def has(v):
        if isinstance(v, (Prov,)):
            return True
        if isinstance(v, Tup):
            return any(has(x) for x in v.items)
        return False
    return has(e)
