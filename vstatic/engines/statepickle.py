"""
Engine R -- state closure and interruption points (rules R1-R5) for C17.
"""
from __future__ import annotations

import ast
from typing import Dict, List, Optional, Set, Tuple

from ..core import control as C
from ..core import dataflow as D
from ..core.program import (
    AnalysisError,
    AnchorError,
    ClassInfo,
    FuncInfo,
    Program,
    enclosing_function,
    is_self_attr,
    norm,
    parent,
    walk_local,
)
from .labelkind import Kinds

SEARCHER = "CombinatorialSpecificationSearcher"
STOP_FAMILIES = {"AbstractRule", "AbstractStrategy", "StrategyFactory", "Constructor", "CombinatorialClass", "CombinatorialObject"}
# functions that *drive* a (possibly nested, independent) search; control below a work packet
# of this searcher does not include them
DRIVERS = {"auto_search", "_auto_search_rules", "_expand_classes_for", "_log_status", "_log_spec_found", "status", "do_level",
           "get_specification", "expand_verified", "expand_comb_class", "run_information"}
ITER_MAKERS = {"iter", "map", "filter", "zip", "enumerate", "reversed", "open", "chain", "product"}
SYNC_MAKERS = {"Lock", "RLock", "Thread", "Condition", "Semaphore", "Event", "Pool", "ThreadPoolExecutor", "ProcessPoolExecutor"}


# ---------------------------------------------------------------- the closure
def state_closure(P: Program) -> List[ClassInfo]:
    """Classes whose instances are (transitively) held in attributes of the searcher."""
    K = Kinds(P)
    root = P.need_class(SEARCHER)
    seen: Dict[str, ClassInfo] = {}
    todo = [root]
    while todo:
        cls = todo.pop()
        if cls.name in seen:
            continue
        # strategies, rules and constructors are user-extensible value objects: their
        # picklability / equality is an assumption of the check, not part of the closure
        if any(c.name in STOP_FAMILIES for c in P.mro(cls)):
            continue
        seen[cls.name] = cls
        for attr, stmts in P.attr_assignments(cls).items():
            for st in stmts:
                for c in _classes_of_assignment(P, K, st):
                    for sub in _concrete(P, c):
                        if sub.name not in seen:
                            todo.append(sub)
    return sorted(seen.values(), key=lambda c: c.name)


def _concrete(P: Program, c: ClassInfo) -> List[ClassInfo]:
    subs = P.subclasses(c)
    return subs if subs else [c]


def _classes_of_assignment(P: Program, K: Kinds, st: ast.AST) -> List[ClassInfo]:
    out: List[ClassInfo] = []
    if isinstance(st, ast.AnnAssign):
        out.extend(_classes_in_annotation(P, st.annotation))
    val = getattr(st, "value", None)
    if val is None:
        return out
    fn = enclosing_function(st)
    for n in ast.walk(val):
        if isinstance(n, ast.Call):
            f = n.func
            if isinstance(f, ast.Subscript):
                f = f.value
            name = norm(f).split(".")[-1]
            if name in P.classes:
                out.append(P.classes[name])
        elif isinstance(n, ast.Name) and fn is not None:
            # a parameter with an annotation naming a package class (ruledb: Optional[RuleDBAbstract])
            a = fn.args
            for arg in a.posonlyargs + a.args + a.kwonlyargs:
                if arg.arg == n.id and arg.annotation is not None:
                    out.extend(_classes_in_annotation(P, arg.annotation))
    return out


def _classes_in_annotation(P: Program, ann: ast.AST) -> List[ClassInfo]:
    out = []
    if isinstance(ann, ast.Constant) and isinstance(ann.value, str):
        try:
            ann = ast.parse(ann.value, mode="eval").body
        except SyntaxError:
            return out
    for n in ast.walk(ann):
        nm = None
        if isinstance(n, ast.Name):
            nm = n.id
        elif isinstance(n, ast.Attribute):
            nm = n.attr
        elif isinstance(n, ast.Constant) and isinstance(n.value, str):
            nm = n.value.split("[")[0].split(".")[-1]
        if nm in P.classes and nm not in ("CombinatorialClass", "CombinatorialObject"):
            out.append(P.classes[nm])
    return out


# ------------------------------------------------------------------------ R1
def _unpicklable_reason(val: ast.AST, fn: Optional[ast.AST]) -> Optional[str]:
    local_funcs = set()
    if fn is not None:
        local_funcs = {n.name for n in walk_local(fn) if isinstance(n, (ast.FunctionDef, ast.ClassDef))}
    for n in [val, *_shallow(val)]:
        if isinstance(n, ast.Lambda):
            return "a lambda"
        if isinstance(n, ast.GeneratorExp) and _is_value_position(n, val):
            return "a generator object"
        if isinstance(n, ast.Name) and n.id in local_funcs and _is_value_position(n, val):
            return f"the locally defined function/class `{n.id}`"
        if isinstance(n, ast.Call):
            cname = norm(n.func).split(".")[-1]
            if n is val or _is_value_position(n, val):
                if cname in ITER_MAKERS:
                    return f"an iterator ({cname}(...))"
                if cname in SYNC_MAKERS:
                    return f"a synchronisation/thread object ({cname}(...))"
            if cname in ("defaultdict", "DefaultList", "partial") and n.args:
                a0 = n.args[0]
                if isinstance(a0, ast.Lambda):
                    return f"a {cname} whose factory is a lambda"
                if isinstance(a0, ast.Name) and a0.id in local_funcs:
                    return f"a {cname} whose factory is the local function `{a0.id}`"
    return None


def _shallow(val: ast.AST):
    """Sub-expressions that end up *inside* the stored value (containers, call arguments of
    container constructors, conditional arms) -- not operands merely consumed."""
    out = []
    stack = [val]
    while stack:
        n = stack.pop()
        kids: List[ast.AST] = []
        if isinstance(n, (ast.Tuple, ast.List, ast.Set)):
            kids = list(n.elts)
        elif isinstance(n, ast.Dict):
            kids = [v for v in n.values]
        elif isinstance(n, ast.IfExp):
            kids = [n.body, n.orelse]
        elif isinstance(n, ast.BoolOp):
            kids = list(n.values)
        elif isinstance(n, ast.Call):
            cname = norm(n.func).split(".")[-1]
            if cname in ("defaultdict", "DefaultList", "partial", "dict", "deque", "Counter") or cname[:1].isupper():
                kids = list(n.args) + [k.value for k in n.keywords]
        out.extend(kids)
        stack.extend(kids)
    return out


def _is_value_position(n: ast.AST, val: ast.AST) -> bool:
    """n is the stored value itself or an element of a stored container (not consumed by a
    tuple()/list()/sum() call, which materialises it)."""
    cur = n
    while cur is not val:
        p = parent(cur)
        if p is None:
            return False
        if isinstance(p, ast.Call) and cur in p.args:
            cname = norm(p.func).split(".")[-1]
            if cname in ("tuple", "list", "set", "frozenset", "sorted", "sum", "dict", "any", "all", "max", "min", "len", "deque", "Counter"):
                return False
            if not (cname in ("defaultdict", "DefaultList", "partial") or cname[:1].isupper()):
                return False
        cur = p
    return True


def r1_picklable_closure(ctx, closure: List[ClassInfo]) -> None:
    P = ctx.P
    n_assign = 0
    for cls in closure:
        for special in ("__getstate__", "__reduce__", "__reduce_ex__", "__setstate__"):
            if special in cls.methods:
                # a hook that hands over / restores the whole instance dictionary changes nothing (engine Y, rule Y10, judges the others as well)
                hb = [s_ for s_ in cls.methods[special].node.body if not (isinstance(s_, ast.Expr) and isinstance(s_.value, ast.Constant))]
                if special == "__getstate__" and len(hb) == 1 and isinstance(hb[0], ast.Return) and hb[0].value is not None \
                        and norm(hb[0].value) in ("self.__dict__", "self.__dict__.copy()", "dict(self.__dict__)", "vars(self)", "vars(self).copy()", "dict(vars(self))"):
                    ctx.ok("R1", f"{cls.name}.{special} hands over the whole instance dictionary")
                    continue
                ctx.violation("R1", cls.methods[special].node, f"{cls.name} defines {special}: pickling no longer saves the whole instance state "
                              "(a dropped attribute is lost on resumption)", construct=f"{cls.name}.{special}")
        if "__slots__" in cls.class_attrs:
            ctx.violation("R1", cls.node, f"{cls.name} defines __slots__: state outside the slots is not pickled", construct=f"{cls.name}.__slots__")
        bad = False
        own: Dict[str, List[ast.AST]] = {}
        for m in cls.methods.values():
            for node in walk_local(m.node):
                if isinstance(node, ast.Assign):
                    for t in node.targets:
                        if is_self_attr(t):
                            own.setdefault(t.attr, []).append(node)
                elif isinstance(node, ast.AnnAssign) and is_self_attr(node.target) and node.value is not None:
                    own.setdefault(node.target.attr, []).append(node)
        for attr, stmts in own.items():
            for st in stmts:
                n_assign += 1
                why = _unpicklable_reason(st.value, enclosing_function(st))
                if why:
                    bad = True
                    ctx.violation("R1", st, f"{cls.name}.{attr} is assigned {why}: pickle.dumps of a searcher fails as soon as this attribute is populated")
        if not bad:
            ctx.ok("R1", f"{cls.name}: {sum(len(v) for v in own.values())} attribute assignments, none unpicklable")
    ctx.extra["state_closure"] = [c.name for c in closure]
    ctx.extra["closure_attribute_assignments"] = n_assign
    if len(closure) < 13:
        ctx.floor("R1", 99)


# ------------------------------------------------------------------------ R2
def r2_value_equality(ctx, closure: List[ClassInfo]) -> None:
    P = ctx.P
    for cls in closure:
        if cls.name in ("Info",):
            continue
        if any(b in ("NamedTuple", "Enum") for b in cls.base_names):
            continue
        if any(any("abstractmethod" in d for d in m.decorators) for m in cls.methods.values()):
            continue  # abstract base: only its concrete subclasses are instantiated
        if any(b in ("MutableMapping", "Mapping") for c in P.mro(cls) for b in c.base_names) and P.find_method(cls, "__eq__") is None:
            ctx.ok("R2", f"{cls.name}: value equality through the Mapping mix-in (compares items)")
            continue
        eqm = P.find_method(cls, "__eq__")
        if eqm is None:
            ctx.violation("R2", cls.node, f"{cls.name} is part of the searcher's state but has no value __eq__ (object identity is used): a restored "
                          "searcher never equals the original once this object exists", construct=f"{cls.name}.__eq__")
            continue
        # a database that keeps a back-reference to the searcher must not compare it
        attrs = P.attr_assignments(cls)
        t = norm(eqm.node)
        if "_searcher" in attrs and "self.__dict__ == other.__dict__" in t:
            ctx.violation("R2", eqm.node, f"{eqm.qualname} compares the whole __dict__ including the `_searcher` back-reference: comparing two searchers "
                          "recurses without end", construct=f"{eqm.qualname} back-reference")
            continue
        bad = False
        if eqm.cls is not None:
            # the type test of __eq__ must let an object of the same class through
            own = {c.name for c in P.mro(eqm.cls)} | {eqm.cls.name}
            op = [p_ for p_ in D.param_names(eqm.node) if p_ != "self"]
            other = op[0] if op else "other"
            for x in walk_local(eqm.node):
                if isinstance(x, ast.Call) and norm(x.func) == "isinstance" and len(x.args) == 2 and norm(x.args[0]) == other:
                    names = [norm(e) for e in (x.args[1].elts if isinstance(x.args[1], ast.Tuple) else [x.args[1]])]
                    if not any(nm.split(".")[-1] in own or nm in ("type(self)", "self.__class__") for nm in names):
                        bad = True
                        ctx.violation("R2", x, f"{eqm.qualname} tests `{norm(x)}`: an object of class {eqm.cls.name} is not one of {names}, so two equal {eqm.cls.name} "
                                      "objects never compare equal (NotImplemented falls back to identity) and a restored searcher differs from the original")
            # unordered state compared through its iteration order
            unordered = set()
            for a, sts in P.attr_assignments(eqm.cls).items():
                for st in sts:
                    v = getattr(st, "value", None)
                    ann = getattr(st, "annotation", None)
                    if (v is not None and (isinstance(v, (ast.Set, ast.SetComp)) or (isinstance(v, ast.Call) and norm(v.func) in ("set", "frozenset")))) or \
                            (ann is not None and norm(ann).startswith(("Set[", "set[", "FrozenSet["))):
                        unordered.add(a)
            iters_unordered = False
            it = P.find_method(eqm.cls, "__iter__")
            if it is not None and any(is_self_attr(x) and x.attr in unordered for x in ast.walk(it.node)):
                iters_unordered = True
            for x in walk_local(eqm.node):
                if isinstance(x, ast.Compare) and len(x.ops) == 1 and isinstance(x.ops[0], (ast.Eq, ast.NotEq)):
                    for side in (x.left, x.comparators[0]):
                        if isinstance(side, ast.Call) and norm(side.func) in ("list", "tuple") and len(side.args) == 1:
                            a0 = side.args[0]
                            if (is_self_attr(a0) and a0.attr in unordered) or (isinstance(a0, ast.Name) and a0.id == "self" and iters_unordered):
                                bad = True
                                ctx.violation("R2", x, f"{eqm.qualname} compares `{norm(side)}`, the iteration order of a set: two objects holding the same elements compare "
                                              "unequal whenever their sets were built in another order (a restored searcher vs the original)")
                                break
        if not bad:
            ctx.ok("R2", f"{cls.name}: value equality through {eqm.qualname}")
    se = P.need_method(SEARCHER, "__eq__", own=True)
    if "self.__dict__ == other.__dict__" in norm(se.node):
        ctx.ok("R2", "the searcher compares its whole state (__dict__)")
    else:
        ctx.violation("R2", se.node, "CombinatorialSpecificationSearcher.__eq__ no longer compares the whole state", construct=f"{SEARCHER}.__eq__")


# ------------------------------------------------------------------------ R3
def _callees(P: Program, fi: FuncInfo) -> Set[str]:
    """Over-approximating name-based callees: qualified names of package functions that a
    call in fi may resolve to."""
    out: Set[str] = set()
    for c in walk_local(fi.node):
        if not isinstance(c, ast.Call):
            continue
        f = c.func
        if isinstance(f, ast.Attribute):
            name = f.attr
            recv_self = isinstance(f.value, ast.Name) and f.value.id == "self"
            for cls in P.classes.values():
                if name in cls.methods:
                    if recv_self and fi.cls is not None:
                        fam = {x.name for x in P.mro(fi.cls)} | {x.name for x in P.subclasses(fi.cls)}
                        if cls.name not in fam:
                            continue
                    out.add(cls.methods[name].qualname)
        elif isinstance(f, ast.Name):
            for mi in P.modules.values():
                if f.id in mi.functions:
                    out.add(mi.functions[f.id].qualname)
            if f.id in P.classes and "__init__" in P.classes[f.id].methods:
                out.add(P.classes[f.id].methods["__init__"].qualname)
    return out


def reachable(P: Program, roots: List[FuncInfo]) -> Dict[str, FuncInfo]:
    index = {fi.qualname: fi for fi in P.all_functions()}
    seen: Dict[str, FuncInfo] = {}
    todo = list(roots)
    while todo:
        fi = todo.pop()
        if fi.qualname in seen:
            continue
        seen[fi.qualname] = fi
        for q in _callees(P, fi):
            if q in index and q not in seen and q.split(".")[-1] not in DRIVERS:
                todo.append(index[q])
    return seen


def _time_tainted(f: ast.AST) -> Set[str]:
    tainted: Set[str] = set()
    changed = True
    while changed:
        changed = False
        for n in walk_local(f):
            if isinstance(n, (ast.Assign, ast.AnnAssign, ast.AugAssign)):
                val = n.value
                if val is None:
                    continue
                if _mentions_time(val, tainted):
                    tg = n.targets if isinstance(n, ast.Assign) else [n.target]
                    for t in tg:
                        for x in _plain_name_targets(t):
                            if x not in tainted:
                                tainted.add(x)
                                changed = True
    return tainted


def _plain_name_targets(t: ast.AST):
    if isinstance(t, ast.Name):
        yield t.id
    elif isinstance(t, (ast.Tuple, ast.List)):
        for e in t.elts:
            yield from _plain_name_targets(e)
    elif isinstance(t, ast.Starred):
        yield from _plain_name_targets(t.value)


def _mentions_time(e: ast.AST, tainted: Set[str]) -> bool:
    for x in ast.walk(e):
        if isinstance(x, ast.Call) and norm(x.func) in ("time.time", "time.monotonic", "time.perf_counter", "datetime.now", "datetime.datetime.now", "time.process_time"):
            return True
        if isinstance(x, ast.Name) and x.id in tainted:
            return True
    return False


def r3_interruption_points(ctx) -> None:
    P = ctx.P
    # (a) where the time limit can interrupt
    n_raise = 0
    for fi in P.all_functions():
        for r in C.raises_of(fi.node):
            if r.exc is not None and "ExceededMaxtimeError" in norm(r.exc):
                n_raise += 1
                ctx.analysed(fi)
                loops = C.enclosing_loops(fi.node, r)
                in_queue_loop = any(isinstance(l, ast.For) and "classqueue" in norm(l.iter) for l in loops)
                if fi.qualname == f"{SEARCHER}._auto_search_rules" and not in_queue_loop:
                    ctx.ok("R3", "ExceededMaxtimeError is raised only in _auto_search_rules, between expansion rounds")
                else:
                    ctx.violation("R3", r, "the time limit can abort the search here, inside the work on a packet: the packet's remaining work is lost on resumption")
    if n_raise < 1:
        ctx.violation("R3", P.need_method(SEARCHER, "_auto_search_rules", own=True).node, "the documented ExceededMaxtimeError is never raised",
                      construct=f"{SEARCHER}._auto_search_rules raise")
    # (b) no time-dependent control below a work packet
    roots = [P.need_method(SEARCHER, "_expand", own=True), P.need_method(SEARCHER, "add_rule", own=True),
             P.need_method(SEARCHER, "try_verify", own=True), P.need_method(SEARCHER, "_symmetry_expand", own=True)]
    for cname in ("RuleDBBase", "RuleDBForest"):
        roots.append(P.need_method(cname, "add", own=True))
    for cname in ("ClassDB", "DefaultQueue", "EquivalenceDB", "TableMethod"):
        roots.extend(P.need_class(cname).methods.values())
    reach = reachable(P, roots)
    # the minimisation loop of the proof-tree search is time-bounded by design and is not under a packet
    skip = {"tree_searcher.smallish_random_proof_tree"}
    ctx.extra["functions_below_a_work_packet"] = len(reach)
    n_bad = 0
    for q, fi in sorted(reach.items()):
        if q in skip or fi.module.short in ("specification_drawer", "proof_tree"):
            continue
        tainted = _time_tainted(fi.node)
        for n in walk_local(fi.node):
            test = None
            if isinstance(n, (ast.If, ast.While, ast.IfExp)):
                test = n.test
            elif isinstance(n, ast.Assert):
                test = n.test
            if test is not None and _mentions_time(test, tainted):
                n_bad += 1
                ctx.violation("R3", n if not isinstance(n, (ast.If, ast.While)) else test, f"{q} (reachable while a work packet is being processed) branches on the clock: what is "
                              "recorded for a packet depends on timing, so a resumed search does not rebuild the same universe")
    if n_bad == 0:
        ctx.ok("R3", f"no time-dependent branch in the {len(reach)} functions reachable while a work packet is processed")
    if len(reach) < 60:
        ctx.floor("R3", 99)
    # (c) the expansion loop checks the clock only after the packet has been expanded
    m = P.need_method(SEARCHER, "_expand_classes_for", own=True)
    f = m.node
    ctx.analysed(m)
    loops = [l for l in walk_local(f) if isinstance(l, ast.For) and norm(l.iter) == "self.classqueue"]
    if len(loops) != 1:
        raise AnalysisError("R3: cannot find `for ... in self.classqueue` in _expand_classes_for")
    loop = loops[0]
    tainted = _time_tainted(f)
    exp_stmts = [s for s in loop.body if any(isinstance(c, ast.Call) and norm(c.func) == "self._expand" for c in ast.walk(s))]
    if len(exp_stmts) != 1:
        ctx.violation("R3", loop, "the queue loop must expand each packet at exactly one place", construct=f"{m.qualname} _expand site")
        return
    i_exp = loop.body.index(exp_stmts[0])
    # anything that can leave the loop body before the packet is expanded loses the packet
    for s in loop.body[:i_exp]:
        if C._may_leave(s):
            ctx.violation("R3", s, "the loop over the class queue can be left after a packet was taken out of the queue and before it is expanded: "
                          "the queue already counts that packet as handed out, so its work is lost on resumption")
    leaves = [n for n in walk_local(loop) if isinstance(n, (ast.Break, ast.Return, ast.Raise))]
    n_time_break = 0
    for b in leaves:
        top = b
        while parent(top) is not loop:
            top = parent(top)
        if top in loop.body and loop.body.index(top) > i_exp:
            gts = C.guards(f, b)
            if any(_mentions_time(e, tainted) for e, _ in gts):
                n_time_break += 1
                ctx.ok("R3", "the time-based break of the queue loop comes after the packet's _expand")
        elif top in loop.body and loop.body.index(top) == i_exp and top is not exp_stmts[0]:
            pass
    if n_time_break < 1:
        ctx.violation("R3", loop, "_expand_classes_for no longer stops on its time budget after completing a packet", construct=f"{m.qualname} time break")
    # the verified-skip must not drop work for unverified classes
    exp = exp_stmts[0]
    if isinstance(exp, ast.If):
        t = norm(exp.test)
        lab = norm(loop.target.elts[0]) if isinstance(loop.target, ast.Tuple) and loop.target.elts else "label"
        if t in (f"self.expand_verified or not self.ruledb.is_verified({lab})", f"not self.ruledb.is_verified({lab}) or self.expand_verified"):
            ctx.ok("R3", "a packet is skipped only for a verified class (and only when expand_verified is off)")
        else:
            ctx.violation("R3", exp.test, f"packets are expanded under `{t}`; only verified classes may be skipped")


MUTABLE_CTORS = {"deque", "list", "set", "dict", "defaultdict", "Counter", "OrderedDict", "DefaultList"}


def r5b_no_class_level_state(ctx, closure: List[ClassInfo]) -> None:
    """State that changes while the searcher runs lives on the instance: a mutable container
    bound in a class body is shared by all instances and is not part of what pickle saves for
    (or `__dict__` compares of) one of them."""
    P = ctx.P
    n = 0
    for cls in closure:
        for name, v in cls.class_attrs.items():
            mutable = isinstance(v, (ast.List, ast.Dict, ast.Set, ast.ListComp, ast.DictComp, ast.SetComp)) or \
                (isinstance(v, ast.Call) and norm(v.func).split(".")[-1] in MUTABLE_CTORS)
            if not mutable:
                continue
            n += 1
            written = False
            for c2 in P.subclasses(cls):
                for m in c2.methods.values():
                    for x in walk_local(m.node):
                        if isinstance(x, ast.Attribute) and x.attr == name and isinstance(x.value, ast.Name) and x.value.id in ("self", "cls", cls.name):
                            p_ = parent(x)
                            if (isinstance(p_, ast.Attribute) and p_.attr in ("append", "appendleft", "extend", "add", "update", "pop", "popleft", "clear", "remove", "discard", "setdefault", "insert"))\
                                    or (isinstance(p_, ast.Subscript) and isinstance(p_.ctx, (ast.Store, ast.Del))):
                                written = True
            if written:
                ctx.violation("R5", v, f"{cls.name}.{name} is a mutable container bound in the class body and changed at run time: it is shared between all {cls.name} "
                              "objects, is not pickled with one of them and is not in the __dict__ their equality compares", construct=f"{cls.name}.{name}")
    ctx.ok("R5", f"no class of the state closure keeps run-time state in a class-level container ({n} class-level containers looked at)")


def r5_no_global_state(ctx) -> None:
    P = ctx.P
    n = 0
    for fi in P.all_functions():
        for g in walk_local(fi.node):
            if isinstance(g, (ast.Global, ast.Nonlocal)) and isinstance(g, ast.Global):
                n += 1
                ctx.violation("R5", g, f"{fi.qualname} keeps state in module globals ({', '.join(g.names)}): it is not part of the pickled searcher")
    if n == 0:
        ctx.ok("R5", "no function of the package keeps state in module-level globals")
    # the three 'already done' sets and the components are instance attributes set in __init__
    init = P.need_method(SEARCHER, "__init__", own=True)
    attrs = {t.attr for st in walk_local(init.node) if isinstance(st, (ast.Assign, ast.AnnAssign))
             for t in (st.targets if isinstance(st, ast.Assign) else [st.target]) if is_self_attr(t)}
    need = {"classdb", "classqueue", "ruledb", "tried_to_verify", "symmetry_expanded", "inferral_expanded", "start_label", "strategy_pack"}
    missing = sorted(need - attrs)
    if missing:
        ctx.violation("R5", init.node, f"searcher state {missing} is no longer an instance attribute set in __init__", construct=f"{SEARCHER}.__init__ state")
    else:
        ctx.ok("R5", "class db, queue, rule db and the three 'already done' sets are instance attributes of the searcher")
    # progress sets are only grown, in the searcher itself
    for attr in ("tried_to_verify", "symmetry_expanded", "inferral_expanded"):
        for fi in P.all_functions():
            for n2 in walk_local(fi.node):
                if isinstance(n2, ast.Attribute) and n2.attr == attr:
                    p = parent(n2)
                    if isinstance(n2.ctx, ast.Store) and fi.qualname != f"{SEARCHER}.__init__":
                        ctx.violation("R5", p, f"`{attr}` is re-bound outside __init__: work already done is forgotten")
                    elif isinstance(p, ast.Attribute) and p.attr in ("discard", "remove", "pop", "clear", "difference_update"):
                        ctx.violation("R5", parent(p), f"`{attr}` shrinks: work already done is forgotten and repeated after resumption")
    ctx.ok("R5", "the 'already done' sets only grow")


# ------------------------------------------------------------------------ R6 / R7
def _unordered_value(v: Optional[ast.AST], ann: Optional[ast.AST]) -> bool:
    if ann is not None and any(isinstance(x, ast.Name) and x.id in ("Set", "FrozenSet", "AbstractSet", "MutableSet", "set", "frozenset") for x in ast.walk(ann)):
        return True
    if v is None:
        return False
    if isinstance(v, (ast.Set, ast.SetComp)):
        return True
    return isinstance(v, ast.Call) and isinstance(v.func, ast.Name) and v.func.id in ("set", "frozenset")


def r6_queue_order_survives(ctx) -> None:
    """Pickle rebuilds a set from its elements; the order in which a set hands out its
    elements (pop, iteration) depends on its history and does not survive.  The containers the
    queue takes the next label from must therefore be ordered ones (deque, list, Counter/dict)."""
    P = ctx.P
    base = P.need_class("CSSQueue")
    n = 0
    for cls in P.subclasses(base, strict=False):
        attrs: Dict[str, List[Tuple[ast.AST, Optional[ast.AST], Optional[ast.AST]]]] = {}
        for k in P.mro(cls):
            for m in k.methods.values():
                for a in walk_local(m.node):
                    tv = None
                    if isinstance(a, ast.Assign) and len(a.targets) == 1:
                        tv = (a.targets[0], a.value, None)
                    elif isinstance(a, ast.AnnAssign):
                        tv = (a.target, a.value, a.annotation)
                    if tv and is_self_attr(tv[0]):
                        attrs.setdefault(tv[0].attr, []).append((a, tv[1], tv[2]))
        unordered = {a for a, defs in attrs.items() if any(_unordered_value(v, ann) for _, v, ann in defs)}
        for a in sorted(attrs):
            n += 1
        for m in cls.methods.values():
            if m.name in ("status", "__repr__", "__str__"):
                continue                # reporting only: the order shown is not the order worked
            for c in walk_local(m.node):
                hit = None
                if isinstance(c, ast.Call) and isinstance(c.func, ast.Attribute) and c.func.attr == "pop" and not c.args and is_self_attr(c.func.value) \
                        and c.func.value.attr in unordered:
                    hit = (c, c.func.value.attr, "pop()")
                elif isinstance(c, ast.For) and is_self_attr(c.iter) and c.iter.attr in unordered:
                    hit = (c.iter, c.iter.attr, "iteration")
                elif isinstance(c, ast.comprehension) and is_self_attr(c.iter) and c.iter.attr in unordered:
                    hit = (c.iter, c.iter.attr, "iteration")
                elif isinstance(c, ast.Call) and isinstance(c.func, ast.Name) and c.func.id in ("iter", "list", "tuple", "deque", "next") and c.args \
                        and is_self_attr(c.args[0]) and c.args[0].attr in unordered:
                    hit = (c, c.args[0].attr, f"{c.func.id}()")
                elif isinstance(c, ast.Call) and isinstance(c.func, ast.Attribute) and c.func.attr in ("extend", "extendleft", "update") and c.args \
                        and is_self_attr(c.args[0]) and c.args[0].attr in unordered and not (is_self_attr(c.func.value) and c.func.value.attr in unordered):
                    hit = (c, c.args[0].attr, f".{c.func.attr}()")
                if hit:
                    ctx.violation("R6", hit[0], f"{m.qualname} takes labels out of the set `self.{hit[1]}` by {hit[2]}: the order a set hands out its elements depends on its "
                                  "insert/remove history, which pickle does not keep, so a restored queue equal to the original yields the work in another order")
    if n < 5:
        ctx.floor("R6", 99)
    else:
        ctx.ok("R6", f"{n} queue attributes: no label is taken out of an unordered container by position")


def r7_optional_numbers_tested_for_none(ctx, functions: Tuple[Tuple[str, str, Tuple[str, ...]], ...]) -> None:
    """A limit of 0 is a limit.  Parameters declared Optional[int/float] are tested with
    `is None` / `is not None`, never by truth value."""
    P = ctx.P
    for cname, mname, only in functions:
        m = P.need_method(cname, mname, own=True)
        f = m.node
        ctx.analysed(m)
        a = f.args
        opt = set()
        for p in a.posonlyargs + a.args + a.kwonlyargs:
            if p.annotation is None:
                continue
            s = norm(p.annotation)
            if s.startswith("Optional[") and s[9:-1] in ("int", "float", "Union[int, float]", "Union[float, int]"):
                opt.add(p.arg)
        opt &= set(only)
        if not opt:
            raise AnalysisError(f"R7: {m.qualname} has no Optional[int/float] parameter any more")

        def truth_uses(e, out):
            if isinstance(e, ast.Name) and e.id in opt:
                out.append(e)
            elif isinstance(e, ast.BoolOp):
                for v in e.values:
                    truth_uses(v, out)
            elif isinstance(e, ast.UnaryOp) and isinstance(e.op, ast.Not):
                truth_uses(e.operand, out)

        bad = []
        for n in walk_local(f):
            tests = []
            if isinstance(n, (ast.If, ast.While, ast.IfExp, ast.Assert)):
                tests.append(n.test)
            elif isinstance(n, ast.BoolOp):
                tests.extend(n.values[:-1])
            elif isinstance(n, ast.comprehension):
                tests.extend(n.ifs)
            for t in tests:
                truth_uses(t, bad)
        seen = set()
        for e in bad:
            if id(e) in seen:
                continue
            seen.add(id(e))
            ctx.violation("R7", e, f"{m.qualname} tests the optional limit `{e.id}` by truth value: 0 is a legal limit (stop at the first opportunity) and is treated as "
                          "'no limit', so the search is never interrupted there")
        if not bad:
            ctx.ok("R7", f"{m.qualname}: optional limits {sorted(opt)} are compared with None, never tested by truth value")


# ------------------------------------------------------------------------ R8 one-shot iterables are not kept
ONE_SHOT_CALLS = {"map", "filter", "zip", "iter", "reversed", "enumerate", "chain", "islice", "product"}


def _is_one_shot(f: ast.AST, e: ast.AST) -> bool:
    v = D.expanded(f, e)
    if isinstance(v, ast.GeneratorExp):
        return True
    if isinstance(v, ast.Call):
        name = norm(v.func).split(".")[-1]
        return name in ONE_SHOT_CALLS or name == "from_iterable"
    return False


def r8_one_shot_iterables_not_kept(ctx) -> None:
    """An object kept in an attribute is read again later (the pack is replayed for every
    recomputed rule, the rule cache at every extraction) and is part of what pickle saves.  A
    generator can be walked once and cannot be pickled: (a) a parameter declared Iterable /
    Iterator is materialised (tuple / list / set / dict / sorted) before it is kept; (b) no call
    site hands a one-shot iterator to a parameter that the callee keeps as it is."""
    P = ctx.P
    keeps: Dict[str, List[Tuple[FuncInfo, int, str, str]]] = {}      # method name -> [(function, positional index, attr)]
    n = 0
    for fi in P.all_functions():
        if fi.cls is None:
            continue
        a = fi.node.args
        pos_params = [x.arg for x in a.posonlyargs + a.args]
        params = pos_params + [x.arg for x in a.kwonlyargs]
        anns = {x.arg: x.annotation for x in a.posonlyargs + a.args + a.kwonlyargs}
        for st in walk_local(fi.node):
            tv = None
            if isinstance(st, ast.Assign) and len(st.targets) == 1:
                tv = (st.targets[0], st.value)
            elif isinstance(st, ast.AnnAssign) and st.value is not None:
                tv = (st.target, st.value)
            if tv is None or not is_self_attr(tv[0]) or not isinstance(tv[1], ast.Name) or tv[1].id not in params or tv[1].id == "self":
                continue
            p = tv[1].id
            # the parameter must reach the store unchanged
            stores = [x for x in walk_local(fi.node) if isinstance(x, ast.Name) and x.id == p and isinstance(x.ctx, ast.Store)]
            if stores:
                continue
            n += 1
            keeps.setdefault(fi.name, []).append((fi, (pos_params.index(p) - (0 if fi.is_static() else 1)) if p in pos_params else -1, tv[0].attr, p))
            ann = anns.get(p)
            head = norm(ann).split("[")[0].split(".")[-1] if ann is not None else ""
            if head in ("Iterable", "Iterator", "Generator"):
                ctx.violation("R8", st, f"{fi.qualname} keeps its parameter `{p}` (declared {norm(ann)[:40]}) as it is in self.{tv[0].attr}: a caller may pass a generator, which can "
                              "be walked only once and cannot be pickled; it must be materialised (tuple(...)) when it is stored")
    n_sites = 0
    for fi in P.all_functions():
        for c in walk_local(fi.node):
            if not isinstance(c, ast.Call):
                continue
            name = None
            if isinstance(c.func, ast.Attribute):
                name = c.func.attr
            elif isinstance(c.func, ast.Name) and c.func.id in P.classes:
                name = "__init__"
                if "__init__" not in P.classes[c.func.id].methods:
                    continue
            if name not in keeps:
                continue
            for callee, pos, attr, pname in keeps[name]:
                if name == "__init__" and isinstance(c.func, ast.Name) and callee.cls is not None and callee.cls.name != c.func.id:
                    continue
                cand = None
                if 0 <= pos < len(c.args) and not any(isinstance(x, ast.Starred) for x in c.args[:pos + 1]):
                    cand = c.args[pos]
                for k in c.keywords:
                    if k.arg == pname:
                        cand = k.value
                if cand is None:
                    continue
                n_sites += 1
                if _is_one_shot(fi.node, cand):
                    ctx.violation("R8", cand, f"{fi.qualname} hands the one-shot iterator `{norm(D.expanded(fi.node, cand))[:70]}` to {callee.qualname}, which keeps it in self.{attr} "
                                  "and reads it again later: after the first walk it is empty (and it cannot be pickled)")
    if n < 20 or n_sites < 20:
        ctx.floor("R8", 99)
    else:
        ctx.ok("R8", f"{n} parameters kept as they are, {n_sites} call sites: none is declared or passed as a one-shot iterable")


def r9_back_references_left_out_by_name(ctx) -> None:
    """A rule database keeps a link back to its searcher (set by link_searcher).  An __eq__
    that compares instance dictionaries leaves the link out *by name*, in a string: the name in
    the string and the name of the attribute are two spellings of one fact.  After a rename of
    the attribute the string filters nothing, and comparing two databases compares their
    searchers, which compare their databases, without end."""
    P = ctx.P
    n = 0
    for cls in P.classes.values():
        lk = P.find_method(cls, "link_searcher")
        if lk is None or lk.cls is None:
            continue
        # attributes that take a parameter of link_searcher as it is
        lps = set(lk.params()[1:])
        backrefs = {t.attr for st in walk_local(lk.node) if isinstance(st, (ast.Assign, ast.AnnAssign)) and getattr(st, "value", None) is not None
                    and isinstance(st.value, ast.Name) and st.value.id in lps
                    for t in (st.targets if isinstance(st, ast.Assign) else [st.target]) if is_self_attr(t)}
        holds_searcher = {a for a in backrefs if any("searcher" in p_ or "css" in p_ for p_ in lps)}
        eqm = P.find_method(cls, "__eq__")
        if eqm is None or not holds_searcher:
            continue
        t = norm(eqm.node)
        if "__dict__" not in t and "vars(" not in t:
            continue
        n += 1
        strings = {x.value for x in ast.walk(eqm.node) if isinstance(x, ast.Constant) and isinstance(x.value, str) and x.value.isidentifier()}
        known = set()
        for k in P.mro(cls) + P.subclasses(cls, strict=True):
            known |= set(P.attr_assignments(k))
        for a in sorted(holds_searcher):
            if a in strings:
                ctx.ok("R9", f"{eqm.qualname} leaves the back-reference `{a}` of {cls.name} out of the comparison")
            else:
                ctx.violation("R9", eqm.node, f"{eqm.qualname} compares instance dictionaries and does not leave out `{a}`, the link to the searcher that {lk.qualname} sets "
                              f"(it names {sorted(strings) or 'nothing'}): comparing two {cls.name} objects compares their searchers, which compare their databases -- no end",
                              construct=f"{eqm.qualname} compares back-reference {a}")
        for s_ in sorted(strings - known):
            if s_.startswith("_"):
                ctx.violation("R9", eqm.node, f"{eqm.qualname} filters the name '{s_}', which is not an attribute any {cls.name} has: the attribute it was meant for is compared",
                              construct=f"{eqm.qualname} stale name {s_}")
    if n < 1:
        ctx.floor("R9", 99)


def r10_one_searcher_per_database(ctx) -> None:
    """A rule database belongs to one searcher: `link_searcher` refuses whenever a link exists
    already -- under no further condition (an *equal* pack is not the *same* universe: labels
    are handed out by the other searcher's class database)."""
    P = ctx.P
    n = 0
    for cls in P.classes.values():
        m = cls.methods.get("link_searcher")
        if m is None:
            continue
        f = m.node
        stores = [t.attr for st in walk_local(f) if isinstance(st, ast.Assign) for t in st.targets if is_self_attr(t) and isinstance(st.value, ast.Name) and st.value.id in m.params()[1:]]
        raises = [r for r in walk_local(f) if isinstance(r, ast.Raise)]
        if not stores or not raises:
            continue
        n += 1
        for r in raises:
            gs = [(norm(t), p_) for t, p_ in C.flatten_guards(C.guards(f, r))]
            linkish = [t for t, p_ in gs if (p_ and any(t == f"self.{a} is not None" for a in stores)) or ((not p_) and any(t == f"self.{a} is None" for a in stores))]
            # a refusal stated as a disjunction over the links is a refusal whenever one of them exists
            disj = [t for t, p_ in gs if p_ and " or " in t and all(any(f"self.{a} is not None" in part for a in stores) for part in t.split(" or "))]
            extra = [t for t, p_ in gs if t not in linkish and t not in disj]
            if (linkish or disj) and not extra:
                ctx.ok("R10", f"{m.qualname} refuses a second link unconditionally")
            else:
                ctx.violation("R10", r, f"{m.qualname} refuses a second searcher only under {[t for t, _ in gs][:3]}: a database can be handed to another searcher (with an equal pack) "
                              "and from then on holds rules whose labels mean different classes in the two class databases")
    if n < 1:
        ctx.floor("R10", 99)
