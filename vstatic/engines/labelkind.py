"""
Engine K -- label-kind inference (DESIGN.md section 3, appendix B).

Integer labels come in two kinds the type `int` hides: RAW labels handed out by ClassDB and
REP labels (equivalence representatives, `equivdb[x]`); the start label is distinguished.
Kinds: RAW_START <= RAW, REP_START <= REP, UNKNOWN.  The evaluator is a small forward
data-flow: locals through their definitions (join), `self.<attr>` through the class's
assignments or property bodies, parameters through the package's call sites of the method.
"""
from __future__ import annotations

import ast
from typing import Dict, List, Optional, Set, Tuple

from ..core import control as C
from ..core import dataflow as D
from ..core.program import (
    AnalysisError,
    AnchorError,
    ClassInfo,
    FuncInfo,
    Program,
    enclosing_class,
    enclosing_function,
    is_self_attr,
    norm,
    parent,
    qualname_of,
    walk_local,
)

RAW_START, RAW, REP_START, REP, UNKNOWN, BOTTOM = "RAW_START", "RAW", "REP_START", "REP", "UNKNOWN", "BOTTOM"


def join(a: str, b: str) -> str:
    if a == BOTTOM:
        return b
    if b == BOTTOM:
        return a
    if a == b:
        return a
    fam = {RAW_START: RAW, RAW: RAW, REP_START: REP, REP: REP}
    if a in fam and b in fam and fam[a] == fam[b]:
        return fam[a]
    return UNKNOWN


def is_rep(k: str) -> bool:
    return k in (REP, REP_START)


def is_raw(k: str) -> bool:
    return k in (RAW, RAW_START)


class Kinds:
    def __init__(self, P: Program):
        self.P = P
        self._attr_memo: Dict[Tuple[str, str], str] = {}
        self._param_memo: Dict[Tuple[str, str], str] = {}
        self._busy: Set[Tuple] = set()

    # ------------------------------------------------------------ class resolution
    def class_of(self, e: ast.AST, f: ast.AST) -> Optional[ClassInfo]:
        P = self.P
        if isinstance(e, ast.Name):
            if e.id == "self":
                c = enclosing_class(f)
                return P.classes.get(c.name) if c is not None else None
            # annotated parameter
            args = getattr(f, "args", None)
            if args is not None:
                for a in args.posonlyargs + args.args + args.kwonlyargs:
                    if a.arg == e.id and a.annotation is not None:
                        return self._class_from_annotation(a.annotation)
            defs = D.definitions(f)
            v = D.single_value(defs, e.id)
            if v is not None:
                return self._class_from_value(v, f)
            return None
        if isinstance(e, ast.Attribute):
            owner = self.class_of(e.value, f)
            if owner is None:
                return None
            m = P.find_method(owner, e.attr)
            if m is not None and m.is_property():
                if m.node.returns is not None:
                    c = self._class_from_annotation(m.node.returns)
                    if c is not None:
                        return c
                return None
            for st in P.attr_assignments(owner).get(e.attr, []):
                if isinstance(st, ast.AnnAssign):
                    c = self._class_from_annotation(st.annotation)
                    if c is not None:
                        return c
                val = getattr(st, "value", None)
                if val is not None:
                    fn = enclosing_function(st)
                    c = self._class_from_value(val, fn)
                    if c is not None:
                        return c
            return None
        return None

    def _class_from_annotation(self, ann: ast.AST) -> Optional[ClassInfo]:
        if isinstance(ann, ast.Constant) and isinstance(ann.value, str):
            try:
                ann = ast.parse(ann.value, mode="eval").body
            except SyntaxError:
                return None
        if isinstance(ann, ast.Subscript):
            head = norm(ann.value).split(".")[-1]
            if head == "Optional":
                return self._class_from_annotation(ann.slice)
            ann = ann.value
        name = norm(ann).split(".")[-1]
        return self.P.classes.get(name)

    def _class_from_value(self, v: ast.AST, f: Optional[ast.AST]) -> Optional[ClassInfo]:
        v = D.strip_casts(v)
        if isinstance(v, ast.IfExp):
            return self._class_from_value(v.body, f) or self._class_from_value(v.orelse, f)
        if isinstance(v, ast.Call):
            fn = v.func
            if isinstance(fn, ast.Subscript):
                fn = fn.value
            name = norm(fn).split(".")[-1]
            if name in self.P.classes:
                return self.P.classes[name]
        if f is not None and isinstance(v, (ast.Name, ast.Attribute)):
            return self.class_of(v, f)
        return None

    # --------------------------------------------------------------- expression kind
    def kind(self, e: ast.AST, f: ast.AST, depth: int = 0) -> str:
        if depth > 12:
            return UNKNOWN
        e = D.strip_casts(e)
        # X.equivdb[e] / equivdb-like subscripts
        if isinstance(e, ast.Subscript) and self._is_equivdb(e.value, f):
            k = self.kind(e.slice, f, depth + 1)
            return REP_START if k in (RAW_START, REP_START) else REP
        if isinstance(e, ast.Call):
            fn = e.func
            if isinstance(fn, ast.Name) and len(e.args) == 1 and self.rep_function(fn.id, f):
                k = self.kind(e.args[0], f, depth + 1)
                return REP_START if k in (RAW_START, REP_START) else REP
            if isinstance(fn, ast.Attribute):
                if fn.attr == "__getitem__" and self._is_equivdb(fn.value, f) and len(e.args) == 1:
                    k = self.kind(e.args[0], f, depth + 1)
                    return REP_START if k in (RAW_START, REP_START) else REP
                if fn.attr == "get_label":
                    return RAW
                # method of a package class with a single return expression
                owner = self.class_of(fn.value, f)
                if owner is not None:
                    m = self.P.find_method(owner, fn.attr)
                    if m is not None:
                        rets = [r for r in C.returns_of(m.node) if r.value is not None]
                        if len(rets) == 1 and ("ret", m.qualname) not in self._busy:
                            self._busy.add(("ret", m.qualname))
                            try:
                                return self.kind(rets[0].value, m.node, depth + 1)
                            finally:
                                self._busy.discard(("ret", m.qualname))
            return UNKNOWN
        if isinstance(e, ast.Attribute):
            if e.attr == "start_label":
                return RAW_START
            owner = self.class_of(e.value, f)
            if owner is not None:
                return self.attr_kind(owner, e.attr, depth + 1)
            if e.attr == "root_label":
                return RAW_START
            return UNKNOWN
        if isinstance(e, ast.Name):
            rv = D.reaching_value(f, e, e.id) if parent(e) is not None else None
            if rv is not None:
                return self.kind(rv[1], f, depth + 1)
            return self.name_kind(e.id, f, depth + 1)
        if isinstance(e, ast.IfExp):
            return join(self.kind(e.body, f, depth + 1), self.kind(e.orelse, f, depth + 1))
        return UNKNOWN

    def rep_function(self, name: str, f: ast.AST) -> bool:
        """`name` is a function defined inside f that maps a label to its representative: every
        return is `<...>equivdb[param]`, or an entry of a local table that is only ever filled
        with `<...>equivdb[<its key>]` (a call-local memo of find)."""
        for n in ast.walk(f):
            if isinstance(n, ast.FunctionDef) and n.name == name and n is not f:
                ps = [a.arg for a in n.args.args]
                if len(ps) != 1:
                    return False
                rets = [r for r in ast.walk(n) if isinstance(r, ast.Return) and r.value is not None]
                if not rets:
                    return False
                for r in rets:
                    v = r.value
                    if isinstance(v, ast.Subscript) and self._is_equivdb(v.value, f) and norm(v.slice) == ps[0]:
                        continue
                    if isinstance(v, ast.Subscript) and isinstance(v.value, ast.Name) and norm(v.slice) == ps[0]:
                        tab = v.value.id
                        stores = [x for x in ast.walk(f) if isinstance(x, ast.Assign) and len(x.targets) == 1 and isinstance(x.targets[0], ast.Subscript)
                                  and isinstance(x.targets[0].value, ast.Name) and x.targets[0].value.id == tab]
                        if stores and all(isinstance(x.value, ast.Subscript) and self._is_equivdb(x.value.value, f) and norm(x.value.slice) == norm(x.targets[0].slice) for x in stores):
                            continue
                    return False
                return True
        return False

    def _is_equivdb(self, e: ast.AST, f: ast.AST) -> bool:
        if isinstance(e, ast.Attribute) and e.attr == "equivdb":
            return True
        c = self.class_of(e, f)
        return c is not None and c.name == "EquivalenceDB"

    def attr_kind(self, owner: ClassInfo, attr: str, depth: int = 0) -> str:
        key = (owner.name, attr)
        if key in self._attr_memo:
            return self._attr_memo[key]
        if ("attr",) + key in self._busy:
            return UNKNOWN
        self._busy.add(("attr",) + key)
        try:
            res = BOTTOM
            m = self.P.find_method(owner, attr)
            if m is not None and m.is_property():
                for r in C.returns_of(m.node):
                    if r.value is not None:
                        res = join(res, self.kind(r.value, m.node, depth + 1))
            else:
                for st in self.P.attr_assignments(owner).get(attr, []):
                    val = getattr(st, "value", None)
                    if val is None or isinstance(st, ast.AugAssign):
                        res = join(res, UNKNOWN)
                        continue
                    fn = enclosing_function(st)
                    res = join(res, self.kind(val, fn, depth + 1))
            if res == BOTTOM:
                res = UNKNOWN
        finally:
            self._busy.discard(("attr",) + key)
        self._attr_memo[key] = res
        return res

    def name_kind(self, name: str, f: ast.AST, depth: int) -> str:
        defs = D.definitions(f)
        ds = defs.get(name, [])
        if not ds:
            # free variable of a nested function: look in the enclosing function
            outer = enclosing_function(f)
            if outer is not None:
                return self.name_kind(name, outer, depth + 1)
            return UNKNOWN
        res = BOTTOM
        for st, val, path, kind in ds:
            if kind == "param":
                res = join(res, self.param_kind(f, name, depth + 1))
            elif kind == "assign" and val is not None and not path:
                res = join(res, self.kind(val, f, depth + 1))
            else:
                res = join(res, UNKNOWN)
        return UNKNOWN if res == BOTTOM else res

    def param_kind(self, f: ast.AST, pname: str, depth: int) -> str:
        """Join of the kinds of the arguments bound to `pname` at every call site of f in
        the package (call sites are matched by function name; methods by `.name(`)."""
        if isinstance(f, ast.Lambda):
            return UNKNOWN
        qn = qualname_of(f)
        key = (qn, pname)
        if key in self._param_memo:
            return self._param_memo[key]
        if ("param",) + key in self._busy:
            return BOTTOM
        self._busy.add(("param",) + key)
        try:
            a = f.args
            plist = [x.arg for x in a.posonlyargs + a.args]
            is_method = enclosing_class(f) is not None and not any(
                norm(d) == "staticmethod" for d in f.decorator_list)
            nested = isinstance(parent(f), (ast.FunctionDef, ast.AsyncFunctionDef))
            res = BOTTOM
            n_sites = 0
            for fi in self.P.all_functions():
                for c in ast.walk(fi.node):
                    if not isinstance(c, ast.Call):
                        continue
                    fn = c.func
                    callee = fn.attr if isinstance(fn, ast.Attribute) else (fn.id if isinstance(fn, ast.Name) else None)
                    ctor = False
                    if f.name == "__init__" and enclosing_class(f) is not None:
                        # constructor parameters: only `ClassName(...)` call sites (super().__init__ of other
                        # classes share the method name but not the signature)
                        if callee != enclosing_class(f).name:
                            continue
                        ctor = True
                    elif callee != f.name:
                        continue
                    if nested and enclosing_function(c) is not f and enclosing_function(c) is not parent(f) \
                            and parent(f) not in list(_anc(c)):
                        continue
                    arg = None
                    for k in c.keywords:
                        if k.arg == pname:
                            arg = k.value
                    if arg is None and pname in plist:
                        i = plist.index(pname)
                        if ctor or (is_method and isinstance(fn, ast.Attribute)):
                            i -= 1
                        if 0 <= i < len(c.args) and not any(isinstance(x, ast.Starred) for x in c.args[: i + 1]):
                            arg = c.args[i]
                    if arg is None:
                        continue
                    n_sites += 1
                    cf = enclosing_function(c)
                    res = join(res, self.kind(arg, cf, depth + 1) if cf is not None else UNKNOWN)
            if n_sites == 0:
                res = UNKNOWN
        finally:
            self._busy.discard(("param",) + key)
        self._param_memo[key] = res
        return res


def _anc(n):
    from ..core.program import ancestors
    return ancestors(n)


# =============================================================================
# rules
# =============================================================================
TREE_FUNCS_WITH_ROOT = (
    "iterative_prune", "iterative_proof_tree_finder", "smallish_random_proof_tree", "random_proof_tree",
    "proof_tree_generator_dfs", "proof_tree_generator_bfs", "iterative_proof_tree_bfs", "proof_tree_dfs",
)
REP_KEYED_DICTS = ("self.pruned_dict", "self._pruned_dict", "self.rules_up_to_equivalence()")


def _bound_arg(call: ast.Call, fi: FuncInfo, pname: str, method: bool = False) -> Optional[ast.AST]:
    for k in call.keywords:
        if k.arg == pname:
            return k.value
    ps = fi.params()
    if method and ps and ps[0] in ("self", "cls"):
        ps = ps[1:]
    if pname in ps:
        i = ps.index(pname)
        if i < len(call.args):
            return call.args[i]
    return None


def _is_pruned_dict(f, e: ast.AST) -> bool:
    if norm(e) in ("self.pruned_dict", "self._pruned_dict"):
        return True
    if isinstance(e, ast.Name) and parent(e) is not None:
        r = D.reaching_value(f, e, e.id)
        return r is not None and norm(r[1]) == "self.pruned_dict"
    return False


def k1_tree_roots(ctx, K: Kinds, modules=("rule_db.base", "rule_db.forget", "rule_db.forest", "bijection", "comb_spec_searcher", "specification")) -> None:
    """Every call into tree_searcher that carries a `root` together with a representative-
    keyed dictionary passes a representative."""
    P = ctx.P
    ts = P.module("tree_searcher")
    for name in TREE_FUNCS_WITH_ROOT:
        if name not in ts.functions:
            raise AnchorError(f"tree_searcher.{name} not found")
    for fi in P.all_functions():
        if fi.module.short == "tree_searcher":
            continue
        for c in walk_local(fi.node):
            if not (isinstance(c, ast.Call) and isinstance(c.func, ast.Name) and c.func.id in TREE_FUNCS_WITH_ROOT):
                continue
            callee = ts.functions[c.func.id]
            root = _bound_arg(c, callee, "root")
            ctx.analysed(fi)
            if root is None or (isinstance(root, ast.Constant) and root.value is None):
                if c.func.id == "iterative_prune":
                    ctx.violation("K1", c, "iterative_prune called without the root: recursion to the start class's own equivalence class is not allowed for")
                continue
            k = K.kind(root, fi.node)
            rd = _bound_arg(c, callee, "rules_dict")
            desc = f"{fi.qualname}: {c.func.id}({norm(rd) if rd is not None else '?'}, root={norm(root)}) root kind {k}"
            if is_rep(k):
                ctx.ok("K1", desc)
            elif is_raw(k):
                ctx.violation("K1", c, f"root `{norm(root)}` is a raw class label ({k}) but the rules dictionary is keyed by equivalence "
                              "representatives: whenever the start class is not its own representative another class is treated as the root")
            else:
                raise AnalysisError(f"K1: cannot infer the label kind of `{norm(root)}` in {fi.qualname} (call {norm(c)[:80]})")
    # membership tests on the pruned dictionary
    for fi in P.all_functions():
        for n in walk_local(fi.node):
            if isinstance(n, ast.Compare) and len(n.ops) == 1 and isinstance(n.ops[0], (ast.In, ast.NotIn)) \
                    and _is_pruned_dict(fi.node, n.comparators[0]):
                ctx.analysed(fi)
                k = K.kind(n.left, fi.node)
                if is_rep(k):
                    ctx.ok("K1", f"{fi.qualname}: `{norm(n)}` key kind {k}")
                elif is_raw(k):
                    ctx.violation("K1", n, f"`{norm(n.left)}` is a raw label ({k}) tested against the representative-keyed pruned dictionary")
                else:
                    raise AnalysisError(f"K1: cannot infer the label kind of `{norm(n.left)}` in {fi.qualname}")


def _rep_sequences(f: ast.AST, K: Kinds) -> List[ast.AST]:
    """Expressions that build a sequence of representatives from a sequence of labels."""
    out = []
    for n in walk_local(f):
        if isinstance(n, (ast.GeneratorExp, ast.ListComp)):
            elt = n.elt
            if isinstance(elt, ast.Subscript) and K._is_equivdb(elt.value, f):
                out.append(n)
        elif isinstance(n, ast.Call) and isinstance(n.func, ast.Name) and n.func.id == "map" and len(n.args) == 2:
            a0 = n.args[0]
            if isinstance(a0, ast.Attribute) and a0.attr == "__getitem__" and K._is_equivdb(a0.value, f):
                out.append(n)
            elif isinstance(a0, ast.Name) and K.rep_function(a0.id, f):
                out.append(n)
    for n in walk_local(f):
        if isinstance(n, (ast.GeneratorExp, ast.ListComp)) and isinstance(n.elt, ast.Call) and isinstance(n.elt.func, ast.Name) and len(n.elt.args) == 1 \
                and K.rep_function(n.elt.func.id, f):
            out.append(n)
    return out


def _inside_sorted(n: ast.AST) -> bool:
    p = parent(n)
    # direct argument of sorted(...), possibly through enumerate(...) with key=itemgetter(1)
    if isinstance(p, ast.Call) and isinstance(p.func, ast.Name) and p.func.id == "sorted" and p.args and p.args[0] is n:
        return True
    if isinstance(p, ast.Call) and isinstance(p.func, ast.Name) and p.func.id == "enumerate":
        pp = parent(p)
        if isinstance(pp, ast.Call) and isinstance(pp.func, ast.Name) and pp.func.id == "sorted" and pp.args and pp.args[0] is p:
            keys = [k for k in pp.keywords if k.arg == "key"]
            return bool(keys) and norm(keys[0].value) in ("itemgetter(1)", "operator.itemgetter(1)", "lambda x: x[1]")
    return False


K4_PRODUCERS = (
    ("RuleDBBase", "rules_up_to_equivalence"),
    ("RuleDBBase", "rule_from_equivalence_rule"),
    ("RuleDBBase", "rule_from_equivalence_rule_dict"),
    ("PartialSpecificationRuleExtractor", "_ordered_eqvrule_to_rule"),
)


def k4_key_normal_form(ctx, K: Kinds) -> None:
    P = ctx.P
    for cname, mname in K4_PRODUCERS:
        m = P.need_method(cname, mname, own=True)
        ctx.analysed(m)
        seqs = _rep_sequences(m.node, K)
        if not seqs:
            ctx.violation("K4", m.node, f"{m.qualname} no longer maps child labels to representatives when building a key up to equivalence",
                          construct=f"{m.qualname} representative children")
        for s in seqs:
            if _inside_sorted(s):
                ctx.ok("K4", f"{m.qualname}: children component `{norm(s)[:60]}` is sorted")
            else:
                ctx.violation("K4", s, "children of a key up to equivalence are not sorted: keys are compared by equality, "
                              "so the key stops matching whenever child labels are not in ascending order")
    # Node.rule_keys
    rk = P.need_method("Node", "rule_keys", own=True)
    ctx.analysed(rk)
    gens = [n for n in walk_local(rk.node) if isinstance(n, (ast.GeneratorExp, ast.ListComp))
            and isinstance(n.elt, ast.Attribute) and n.elt.attr == "label"]
    if not gens:
        ctx.violation("K4", rk.node, "Node.rule_keys no longer builds its keys from the children's labels", construct="Node.rule_keys children")
    for g in gens:
        if _inside_sorted(g):
            ctx.ok("K4", "Node.rule_keys: children labels sorted")
        else:
            ctx.violation("K4", g, "Node.rule_keys builds an unsorted children component")
    # start component of rules_up_to_equivalence is a representative
    m = P.need_method("RuleDBBase", "rules_up_to_equivalence", own=True)
    # every evaluation of `<the dictionary returned>[key]` inside the loop: on a defaultdict it creates the entry
    retnames = {r.value.id for r in C.returns_of(m.node) if isinstance(r.value, ast.Name)}
    stores = [n for n in walk_local(m.node) if isinstance(n, ast.Subscript) and isinstance(n.value, ast.Name) and n.value.id in retnames
              and isinstance(n.ctx, ast.Load) and C.enclosing_loops(m.node, n)]
    if not stores:
        raise AnalysisError("K4: cannot find `rules_dict[<start>]...` in rules_up_to_equivalence")
    if not [c for c in walk_local(m.node) if isinstance(c, ast.Call) and isinstance(c.func, ast.Attribute) and c.func.attr == "add"]:
        raise AnalysisError("K4: rules_up_to_equivalence adds nothing to its dictionary")
    for s in stores:
        k = K.kind(s.slice, m.node)
        if isinstance(s.slice, ast.Subscript) and K._is_equivdb(s.slice.value, m.node):
            ctx.ok("K4", "rules_up_to_equivalence keys its dictionary by representatives")
        else:
            ctx.violation("K4", s, f"rules_up_to_equivalence keys its dictionary by `{norm(s.slice)}`, which is not `equivdb[start]`")
    # equivalences inside one class are skipped ...
    for s in stores:
        loop = next((l for l in C.enclosing_loops(m.node, s) if isinstance(l, ast.For)), None)
        if loop is None or not isinstance(loop.target, ast.Tuple) or len(loop.target.elts) != 2 or not all(isinstance(e, ast.Name) for e in loop.target.elts):
            raise AnalysisError("K4: rules_up_to_equivalence no longer iterates over (start, ends) pairs")
        sv, ev = (e.id for e in loop.target.elts)
        # under "one child, equivalent to the parent" the store must not run
        eq_atoms = {}
        for t, _pol in C.guards(m.node, s, within=loop):
            for x in ast.walk(t):
                if _is_equivalence_test(x, sv, ev, K, m.node):
                    eq_atoms[norm(x)] = True
        facts = dict(eq_atoms)
        facts[f"len({ev}) == 1"] = True
        dropped = bool(eq_atoms) and C.runs_under(m.node, s, facts, within=loop) is False
        if dropped:
            ctx.ok("K4", "a rule whose only child is equivalent to its parent is left out of the collapsed dictionary")
        else:
            ctx.violation("K4", s, "the dictionary entry of the representative is touched also for a rule inside one equivalence class (no equivalence test on (start, ends[0]) "
                          "keeps it out): either the rule is recorded -- a one-way rule whose ends were merged by connect_cycles collapses to `r -> (r,)`, which the tree searcher "
                          "accepts as a rule for r -- or a class with only such rules gets an entry without any rule")
    are = P.need_method("RuleDBBase", "are_equivalent", own=True)
    rets = [r for r in C.returns_of(are.node) if r.value is not None]
    ps = [a.arg for a in are.node.args.args[1:]]
    if len(rets) == 1 and len(ps) == 2 and isinstance(rets[0].value, ast.Call) and norm(rets[0].value.func) == "self.equivdb.equivalent" \
            and sorted(norm(a) for a in rets[0].value.args) == sorted(ps):
        ctx.ok("K4", "are_equivalent is equivdb.equivalent of its two labels")
    else:
        ctx.violation("K4", are.node, "RuleDBBase.are_equivalent must be equivdb.equivalent(label, other)", construct="RuleDBBase.are_equivalent")
    # ... and cycles connected first
    k4c_connect_before_collapse(ctx)
    k4d_actual_rule_scan(ctx)


def k4d_actual_rule_scan(ctx) -> None:
    """rule_from_equivalence_rule_dict finds, for keys up to equivalence, actual rules with that
    key: it has to compute the key of *every* stored rule.  The stored labels are raw, the keys
    asked for are representatives; any shortcut that compares a stored (raw) label with what
    was asked for (representatives) skips every rule of a class that is not its own
    representative."""
    P = ctx.P
    m = P.need_method("RuleDBBase", "rule_from_equivalence_rule_dict", own=True)
    f = m.node
    ctx.analysed(m)
    param = [p for p in D.param_names(f) if p != "self"][0]
    loops = [l for l in walk_local(f) if isinstance(l, ast.For) and norm(l.iter) in ("self.rule_to_strategy", "self.rule_to_strategy.keys()", "self")]
    if len(loops) != 1:
        raise AnalysisError("K4: rule_from_equivalence_rule_dict no longer scans self.rule_to_strategy")
    lp = loops[0]
    raw = {n.id for n in ast.walk(lp.target) if isinstance(n, ast.Name)}
    stores = [n for n in walk_local(lp) if isinstance(n, ast.Assign) and isinstance(n.targets[0], ast.Subscript)]
    if not stores:
        raise AnalysisError("K4: rule_from_equivalence_rule_dict no longer records key -> actual rule")
    asked = {param} | {nm for nm, ds in D.definitions(f).items() if any(d[1] is not None and param in {x.id for x in ast.walk(d[1]) if isinstance(x, ast.Name)} for d in ds)}
    for st in stores:
        key = norm(st.targets[0].slice)
        bad = False
        for t, pol in C.flatten_guards(C.guards(f, st, within=lp)):
            names = {x.id for x in ast.walk(t) if isinstance(x, ast.Name)}
            if norm(t) in (f"{key} in {a}" for a in asked):
                continue
            if names & raw and names & asked:
                bad = True
                ctx.violation("K4", t, f"a stored rule is looked at only under `{norm(t)}`, which compares the stored (raw) label(s) {sorted(names & raw)} with the keys asked for "
                              f"({sorted(names & asked)}, representatives): rules of a class that is not its own representative are never found")
            elif names & raw:
                raise AnalysisError(f"K4: rule_from_equivalence_rule_dict filters stored rules by `{norm(t)}`; not understood")
        if not bad:
            ctx.ok("K4", "every stored rule's key up to equivalence is computed and compared with the keys asked for")


def k4c_connect_before_collapse(ctx) -> None:
    """rules_up_to_equivalence connects the one-way cycles on *every* call, before it looks at
    any rule: a cycle can be closed by a two-way edge or by a merge, not only by a new
    one-way edge, so no flag kept by the caller can tell that the search is unnecessary."""
    P = ctx.P
    m = P.need_method("RuleDBBase", "rules_up_to_equivalence", own=True)
    ctx.analysed(m)
    calls = [c for c in walk_local(m.node) if isinstance(c, ast.Call) and norm(c.func).endswith("equivdb.connect_cycles")]
    loops = [n for n in walk_local(m.node) if isinstance(n, ast.For)]
    if calls and loops and all(C.dominates(m.node, C.stmt_of(calls[0]), l) for l in loops) and not C.guards(m.node, calls[0]):
        ctx.ok("K4", "rules_up_to_equivalence connects one-way cycles, unconditionally, before collapsing rules")
    elif calls and C.guards(m.node, calls[0]):
        ctx.violation("K4", calls[0], f"connect_cycles() runs only under `{norm(C.guards(m.node, calls[0])[0][0])}`: cycles closed by a two-way edge or a merge since the last search "
                      "are never connected, and rules between classes of one component are kept as if they were productive")
    else:
        ctx.violation("K4", m.node, "rules_up_to_equivalence must call equivdb.connect_cycles() before it collapses rules to representatives",
                      construct="RuleDBBase.rules_up_to_equivalence connect_cycles")


def _is_equivalence_test(x: ast.AST, sv: str, ev: str, K, func) -> bool:
    """x tests that label `sv` and an element of `ev` are in one equivalence class."""
    def is_start(e):
        return isinstance(e, ast.Name) and e.id == sv

    def is_end(e):
        return isinstance(e, ast.Subscript) and isinstance(e.value, ast.Name) and e.value.id == ev

    if isinstance(x, ast.Call) and isinstance(x.func, ast.Attribute) and x.func.attr in ("are_equivalent", "equivalent") and len(x.args) == 2:
        a, b = x.args
        return (is_start(a) and is_end(b)) or (is_start(b) and is_end(a))
    if isinstance(x, ast.Compare) and len(x.ops) == 1 and isinstance(x.ops[0], ast.Eq):
        a, b = x.left, x.comparators[0]
        if all(isinstance(e, ast.Subscript) and K._is_equivdb(e.value, func) for e in (a, b)):
            a, b = a.slice, b.slice
            return (is_start(a) and is_end(b)) or (is_start(b) and is_end(a))
    return False


# ------------------------------------------------------------- cache invalidation
STORE_ATTRS = ("rule_to_strategy", "eqv_rule_to_strategy", "_rule_to_strategy", "_eqv_rule_to_strategy")
EDGE_CALLS = ("add_two_way_edge", "add_one_way_edge")
DICT_MUTATORS = {"pop", "popitem", "clear", "update", "setdefault", "__setitem__", "__delitem__"}


def _store_mutations(f: ast.AST) -> List[ast.AST]:
    out = []
    for n in walk_local(f):
        if isinstance(n, ast.Subscript) and isinstance(n.ctx, (ast.Store, ast.Del)) and isinstance(n.value, ast.Attribute) \
                and n.value.attr in STORE_ATTRS:
            out.append(n)
        elif isinstance(n, ast.Call) and isinstance(n.func, ast.Attribute):
            if n.func.attr in DICT_MUTATORS and isinstance(n.func.value, ast.Attribute) and n.func.value.attr in STORE_ATTRS:
                out.append(n)
            elif n.func.attr in EDGE_CALLS and isinstance(n.func.value, ast.Attribute) and n.func.value.attr == "equivdb":
                out.append(n)
    return out


def k5_cache_invalidation(ctx) -> None:
    P = ctx.P
    base = P.need_class("RuleDBBase")
    family = {c.name for c in P.subclasses(base)}
    internals = {"RecomputingDict"}
    n_mut = 0
    for fi in P.all_functions():
        muts = _store_mutations(fi.node)
        if not muts:
            continue
        owner = fi.cls.name if fi.cls is not None else None
        if owner in internals:
            continue
        if owner not in family:
            for mu in muts:
                ctx.violation("K5", mu, "rule stores / equivalence edges mutated outside the rule-database classes: "
                              "the cached pruned dictionary cannot be invalidated from here")
            continue
        if fi.name == "__init__":
            continue
        ctx.analysed(fi)
        resets = [n for n in walk_local(fi.node) if isinstance(n, ast.Assign) and any(is_self_attr(t, "_pruned_dict") for t in n.targets)
                  and isinstance(n.value, ast.Constant) and n.value.value is None]
        for mu in muts:
            n_mut += 1
            good = any(C.dominates(fi.node, r, mu) or C.followed_by(fi.node, mu, r) for r in resets)
            if good:
                ctx.ok("K5", f"{fi.qualname}: `{norm(C.stmt_of(mu))[:60]}` happens with the pruned-dictionary cache reset")
            else:
                ctx.violation("K5", C.stmt_of(mu), "the database is modified on a path that does not reset self._pruned_dict: "
                              "has_specification keeps answering from the stale pruned dictionary")
    if n_mut < 4:
        ctx.floor("K5", 4)
    # the cache is read only through the property
    for fi in P.all_functions():
        if fi.cls is None or fi.cls.name not in family:
            continue
        for n in walk_local(fi.node):
            if is_self_attr(n, "_pruned_dict") and isinstance(n.ctx, ast.Load) and fi.name != "pruned_dict":
                ctx.violation("K5", C.stmt_of(n), "raw read of self._pruned_dict outside the pruned_dict property (may be None or stale)")
    # the pruned dictionary is a defaultdict: looking a class up by subscript *creates* its entry, and membership in it is what
    # has_specification answers from
    for fi in P.all_functions():
        if fi.cls is None or fi.cls.name not in family or fi.name == "pruned_dict":
            continue
        for n in walk_local(fi.node):
            if isinstance(n, ast.Subscript) and isinstance(n.ctx, ast.Load) and _is_pruned_dict(fi.node, n.value):
                key = norm(n.slice)
                gs = {(norm(e), p_) for e, p_ in C.flatten_guards(C.guards(fi.node, n))}
                if not any(p_ and t.startswith(f"{key} in ") for t, p_ in gs):
                    ctx.violation("K5", n, f"{fi.qualname} reads `{norm(n)[:60]}` by subscript: the pruned dictionary is a defaultdict, so asking about a class that is not in it "
                                  "puts it there, and has_specification answers True from then on")
    # shape of the property
    pd = P.need_method("RuleDBBase", "pruned_dict", own=True)
    ctx.analysed(pd)
    f = pd.node
    stores = [n for n in walk_local(f) if isinstance(n, ast.Assign) and any(is_self_attr(t, "_pruned_dict") for t in n.targets)]
    if not stores:
        ctx.violation("K5", f, "pruned_dict never stores what it computed", construct="RuleDBBase.pruned_dict store")
        return
    defs = D.definitions(f)
    for st in stores:
        gt = C.guard_texts(f, st)
        if ("self._pruned_dict is None", True) not in gt:
            ctx.violation("K5", st, "pruned dictionary recomputed/stored without the `is None` cache test")
            continue
        v = st.value
        # the classes marked verified are the keys of the dictionary that was stored as pruned
        marks = [l for l in walk_local(f) if isinstance(l, ast.For) and any(isinstance(c, ast.Call) and norm(c.func) == "self.equivdb.set_verified" for c in walk_local(l))]
        for l in marks:
            it = l.iter.func.value if isinstance(l.iter, ast.Call) and isinstance(l.iter.func, ast.Attribute) and l.iter.func.attr == "keys" else l.iter
            src = norm(it)
            if src == "self._pruned_dict" or (isinstance(v, ast.Name) and src == v.id):
                ctx.ok("K5", "classes are marked verified from the keys of the dictionary stored as pruned")
            else:
                ctx.violation("K5", l, f"classes are marked verified from the keys of `{src}`, which is not the dictionary stored as pruned (`{norm(v)[:60]}`): where pruning "
                              "returns a new dictionary (iterative mode) the unpruned classes are marked verified and are never expanded again")
        if not isinstance(v, ast.Name):
            if ctx.violations:
                continue
            raise AnalysisError("K5: pruned_dict stores a non-name expression")
        vals = [d[1] for d in defs.get(v.id, []) if d[1] is not None]
        fresh = any(isinstance(x, ast.Call) and norm(x.func) == "self.rules_up_to_equivalence" for x in vals)
        itp = [x for x in vals if isinstance(x, ast.Call) and norm(x.func) == "iterative_prune"]
        pr = [c for c in walk_local(f) if isinstance(c, ast.Call) and norm(c.func) == "prune" and c.args and norm(c.args[0]) == v.id]
        if not fresh:
            ctx.violation("K5", st, "the pruned dictionary is not computed from a fresh rules_up_to_equivalence()")
            continue
        ok_it = any(("self.iterative", True) in C.guard_texts(f, C.stmt_of(x)) for x in itp)
        ok_pr = any(("self.iterative", False) in C.guard_texts(f, c) for c in pr)
        if ok_it and ok_pr and all(C.dominates(f, _top_stmt_under(f, C.stmt_of(x), st), st) for x in itp + pr):
            ctx.ok("K5", "pruned_dict = prune / iterative_prune of a fresh rules_up_to_equivalence(), stored under the cache test")
        else:
            ctx.violation("K5", st, "the dictionary stored as pruned is not pruned on every path (iterative_prune when iterative, prune otherwise)")
    hs = P.need_method("RuleDBBase", "has_specification", own=True)
    ctx.analysed(hs)
    rets = [r for r in C.returns_of(hs.node) if r.value is not None]
    okh = len(rets) == 1 and isinstance(rets[0].value, ast.Compare) and len(rets[0].value.ops) == 1 \
        and isinstance(rets[0].value.ops[0], ast.In) and _is_pruned_dict(hs.node, rets[0].value.comparators[0]) \
        and norm(rets[0].value.comparators[0]) != "self._pruned_dict"
    if okh:
        ctx.ok("K5", "has_specification = membership of the root in the pruned dictionary")
    else:
        ctx.violation("K5", hs.node, "has_specification is no longer `root in self.pruned_dict`", construct="RuleDBBase.has_specification")


def _top_stmt_under(f, s, other):
    """The ancestor statement of s that is a sibling-or-ancestor-level statement usable for
    dominance over `other` (the outermost compound statement containing s but not other)."""
    from ..core.program import ancestors
    cur = s
    anc_other = set(id(a) for a in ancestors(other))
    while parent(cur) is not None and id(parent(cur)) not in anc_other:
        cur = parent(cur)
    return cur


# -------------------------------------------------------------------- K2 (C13 / C05)
def k2_root_identity(ctx, K: Kinds, modules=None, floor: int = 2) -> None:
    """SpecificationRuleExtractor(root_label, root_node, ...) whose .rules() feed a
    CombinatorialSpecification(R, ...): root_label is the raw start label, R its class and
    root_node is rooted at the representative."""
    P = ctx.P
    n = 0
    for fi in P.all_functions():
        if modules is not None and fi.module.short not in modules:
            continue
        f = fi.node
        for c in walk_local(f):
            if not (isinstance(c, ast.Call) and isinstance(c.func, ast.Name) and c.func.id == "SpecificationRuleExtractor"):
                continue
            n += 1
            ctx.analysed(fi)
            if len(c.args) < 2:
                raise AnalysisError("K2: SpecificationRuleExtractor called with keywords; not understood")
            k0 = K.kind(c.args[0], f)
            if k0 == RAW_START:
                ctx.ok("K2", f"{fi.qualname}: extractor root_label `{norm(c.args[0])}` is the raw start label")
            elif k0 == UNKNOWN:
                raise AnalysisError(f"K2: cannot infer the kind of `{norm(c.args[0])}` in {fi.qualname}")
            else:
                ctx.violation("K2", c, f"the specification extractor is told `{norm(c.args[0])}` ({k0}) as its root label; it needs the raw "
                              "label of the start class, otherwise the start class gets no rule whenever it is not its own representative")
            # root node
            kn = _node_root_kind(K, c.args[1], f)
            if is_rep(kn):
                ctx.ok("K2", f"{fi.qualname}: proof tree handed to the extractor is rooted at a representative ({kn})")
            elif is_raw(kn):
                ctx.violation("K2", c, f"the proof tree handed to the extractor is rooted at a raw label ({kn}); its rule keys are looked up among keys up to equivalence")
            else:
                raise AnalysisError(f"K2: cannot infer the root kind of the node `{norm(c.args[1])}` in {fi.qualname}")
    if n < floor:
        ctx.floor("K2", 2 * floor)


def _node_root_kind(K: Kinds, e: ast.AST, f: ast.AST) -> str:
    P = K.P
    defs = D.definitions(f)
    e = D.resolve(defs, e)
    if isinstance(e, ast.Call):
        name = norm(e.func).split(".")[-1]
        if name == "Node" and e.args:
            return K.kind(e.args[0], f)
        if name == "_create_tree" and len(e.args) >= 2:
            ct = P.need_method("ParallelSpecFinder", "_create_tree", own=True)
            # root node is Node(<second parameter>)
            d2 = D.definitions(ct.node)
            for r in C.returns_of(ct.node):
                src = D.resolve(d2, r.value)
                if isinstance(src, ast.Call) and norm(src.func) == "Node" and src.args and isinstance(src.args[0], ast.Name) \
                        and src.args[0].id in ct.params():
                    idx = ct.params().index(src.args[0].id)
                    if idx < len(e.args):
                        return K.kind(e.args[idx], f)
            return UNKNOWN
        if name == "_get_specification_node":
            # returns one of the _get_*_node results, all built by tree_searcher from a REP root (K1)
            return REP
    return UNKNOWN


def k2_spec_roots(ctx, K: Kinds, modules=("bijection", "comb_spec_searcher")) -> None:
    """CombinatorialSpecification(R, rules) built from searcher state: R is the class of
    the raw start label."""
    P = ctx.P
    n = 0
    for fi in P.all_functions():
        if fi.module.short not in modules:
            continue
        f = fi.node
        for c in walk_local(f):
            if not (isinstance(c, ast.Call) and isinstance(c.func, ast.Name) and c.func.id == "CombinatorialSpecification" and c.args):
                continue
            n += 1
            ctx.analysed(fi)
            r = c.args[0]
            ok = _is_start_class(K, r, f)
            if ok is True:
                ctx.ok("K2", f"{fi.qualname}: specification rooted at the class of the start label (`{norm(r)}`)")
            elif ok is False:
                ctx.violation("K2", c, f"specification rooted at `{norm(r)}`, which is not the class of the searcher's start label")
            else:
                raise AnalysisError(f"K2: cannot tell which class `{norm(r)}` is in {fi.qualname}")
    if n < 1:
        raise AnalysisError("K2: no CombinatorialSpecification(...) construction found in " + ", ".join(modules))


def _is_start_class(K: Kinds, e: ast.AST, f: ast.AST, depth: int = 0) -> Optional[bool]:
    if depth > 6:
        return None
    e = D.strip_casts(e)
    if isinstance(e, ast.Call) and isinstance(e.func, ast.Attribute) and e.func.attr == "get_class" and len(e.args) == 1:
        k = K.kind(e.args[0], f)
        if k == RAW_START:
            return True
        if k == UNKNOWN:
            return None
        return False
    if isinstance(e, ast.Attribute):
        owner = K.class_of(e.value, f)
        if owner is None:
            return None
        m = K.P.find_method(owner, e.attr)
        if m is not None and m.is_property():
            rets = [r for r in C.returns_of(m.node) if r.value is not None]
            if len(rets) == 1:
                return _is_start_class(K, rets[0].value, m.node, depth + 1)
            return None
        res = None
        for st in K.P.attr_assignments(owner).get(e.attr, []):
            val = getattr(st, "value", None)
            if val is None:
                return None
            r = _is_start_class(K, val, enclosing_function(st), depth + 1)
            if r is not True:
                return r
            res = True
        return res
    if isinstance(e, ast.Name):
        defs = D.definitions(f)
        v = D.single_value(defs, e.id)
        if v is not None:
            return _is_start_class(K, v, f, depth + 1)
    return None


# -------------------------------------------------------------------- C13 sinks
def k1_finder_labels(ctx, K: Kinds) -> None:
    """Labels the parallel finders hand to representative-keyed structures (the recursive
    matchers, _create_tree) are representatives; EquivalenceRuleExtractor gets
    (representative of the root, raw start label) in that order."""
    P = ctx.P
    mod = P.module("bijection")
    want = {"_find": (0, 1), "_rec": (0, 1)}
    n = 0
    for cname in ("ParallelSpecFinder", "EqPathParallelSpecFinder"):
        cls = P.need_class(cname)
        for m in cls.methods.values():
            f = m.node
            for c in ast.walk(f):
                if not isinstance(c, ast.Call):
                    continue
                callee = c.func.attr if isinstance(c.func, ast.Attribute) else (c.func.id if isinstance(c.func, ast.Name) else None)
                cf = enclosing_function(c)
                if callee in want and len(c.args) >= 2:
                    # only the entry calls (not the recursive ones on children): arguments mention root_eq_label
                    if not any("root_eq_label" in norm(a) for a in c.args[:2]):
                        continue
                    for i in want[callee]:
                        n += 1
                        k = K.kind(c.args[i], cf)
                        if is_rep(k):
                            ctx.ok("K1", f"{m.qualname}: {callee}(arg{i}=`{norm(c.args[i])}`) kind {k}")
                        elif is_raw(k):
                            ctx.violation("K1", c, f"`{norm(c.args[i])}` ({k}) handed to the matcher, whose tables are keyed by representatives")
                        else:
                            raise AnalysisError(f"K1: cannot infer kind of `{norm(c.args[i])}` in {m.qualname}")
                elif callee == "_create_tree" and len(c.args) >= 2:
                    n += 1
                    ctx.analysed(m)
                    k = K.kind(c.args[1], cf)
                    if is_rep(k):
                        ctx.ok("K1", f"{m.qualname}: _create_tree root `{norm(c.args[1])}` kind {k}")
                    elif is_raw(k):
                        ctx.violation("K1", c, f"_create_tree rooted at the raw label `{norm(c.args[1])}` ({k}); the spec map is keyed by representatives")
                    else:
                        raise AnalysisError(f"K1: cannot infer kind of `{norm(c.args[1])}` in {m.qualname}")
                elif callee == "EquivalenceRuleExtractor" and len(c.args) >= 2:
                    n += 1
                    ctx.analysed(m)
                    k0, k1 = K.kind(c.args[0], cf), K.kind(c.args[1], cf)
                    if k0 == REP_START and k1 == RAW_START:
                        ctx.ok("K1", f"{m.qualname}: EquivalenceRuleExtractor(root_eq_label={norm(c.args[0])}, root_class_label={norm(c.args[1])})")
                    elif UNKNOWN in (k0, k1):
                        raise AnalysisError(f"K1: cannot infer kinds of the EquivalenceRuleExtractor roots in {m.qualname}")
                    else:
                        ctx.violation("K1", c, f"EquivalenceRuleExtractor expects (representative of the root, raw start label) but gets ({k0}, {k1})")
    if n < 9:
        ctx.floor("K1", 99)
    # ParallelInfo summaries the rules rely on
    pi = P.need_class("ParallelInfo")
    k = K.attr_kind(pi, "root_eq_label")
    if k == REP_START:
        ctx.ok("K1", "ParallelInfo.root_eq_label = equivdb[start_label]")
    else:
        ctx.violation("K1", pi.node, f"ParallelInfo.root_eq_label is of kind {k}, expected the representative of the start label",
                      construct="ParallelInfo.root_eq_label")
    # keys of eq_label_rules / atom_map come from rules up to equivalence (pruned)
    m = P.need_method("ParallelInfo", "_construct_eq_label_rules", own=True)
    ctx.analysed(m)
    defs = D.definitions(m.node)
    src = None
    for n2 in walk_local(m.node):
        if isinstance(n2, ast.For) and isinstance(n2.target, ast.Tuple):
            src = D.resolve(defs, n2.iter)
    if isinstance(src, ast.Call) and norm(src.func) == "self._pruned_rules_up_to_eq":
        pr = P.need_method("ParallelInfo", "_pruned_rules_up_to_eq", own=True)
        txt = norm(pr.node)
        if "rules_up_to_equivalence()" in txt and "prune(" in txt:
            ctx.ok("K1", "eq_label_rules / atom_map are keyed by pruned rules up to equivalence (representatives)")
        else:
            ctx.violation("K1", pr.node, "_pruned_rules_up_to_eq no longer prunes rules_up_to_equivalence()", construct="ParallelInfo._pruned_rules_up_to_eq")
    else:
        raise AnalysisError("K1: cannot see where _construct_eq_label_rules takes its keys from")


# ------------------------------------------------------------------------ K6 / K7
def k6_one_way_table(ctx, K: Kinds) -> None:
    """The one-way adjacency table consumed by connect_cycles (hence by
    rules_up_to_equivalence) is keyed by, and contains, representatives only."""
    P = ctx.P
    n = 0
    for mname in ("get_one_way_vertices", "add_one_way_edge"):
        m = P.need_method("EquivalenceDB", mname, own=True)
        ctx.analysed(m)
        f = m.node
        tables = {"self._one_way_vertices"}
        for st in walk_local(f):
            if isinstance(st, ast.Assign) and any(norm(t) == "self._one_way_vertices" for t in st.targets) and isinstance(st.value, ast.Name):
                tables.add(st.value.id)
            elif isinstance(st, ast.Assign) and any(norm(t) == "self._one_way_vertices" for t in st.targets) and mname == "get_one_way_vertices" \
                    and (isinstance(st.value, (ast.Dict, ast.DictComp)) or (isinstance(st.value, ast.Call) and norm(st.value.func) == "dict")):
                n += 1
                for x in ast.walk(st.value):
                    if isinstance(x, ast.Name):
                        tables.add(x.id)
                ctx.violation("K6", st, f"the table kept for later is `{norm(st.value)[:50]}`, a plain dict: add_one_way_edge relies on the default factory "
                              "(`self._one_way_vertices[label].add(...)` for a label seen for the first time raises KeyError after the first specification check)")
        for st in walk_local(f):
            if isinstance(st, ast.Assign) and len(st.targets) == 1 and isinstance(st.targets[0], ast.Subscript) \
                    and norm(st.targets[0].value) in tables and mname == "get_one_way_vertices":
                n += 1
                ctx.violation("K6", st, "an entry of the one-way adjacency table is *assigned*: two stored vertices that now share a representative must have "
                              "their edge sets merged (`table[rep].add(...)`), an assignment keeps only the last one's edges")
        for c in walk_local(f):
            if isinstance(c, ast.Call) and isinstance(c.func, ast.Attribute) and c.func.attr == "add" \
                    and isinstance(c.func.value, ast.Subscript) and len(c.args) == 1:
                tbl = norm(c.func.value.value)
                if tbl not in tables:
                    continue
                n += 1
                kk, kv = K.kind(c.func.value.slice, f), K.kind(c.args[0], f)
                # compaction must be loss-free: the only edges that may be left out are self-loops
                ktxt, vtxt = norm(c.func.value.slice), norm(c.args[0])
                extra = [(norm(e), p) for e, p in C.flatten_guards(C.guards(f, c))
                         if not (p and norm(e) in (f"{ktxt} != {vtxt}", f"{vtxt} != {ktxt}"))
                         and not ((not p) and norm(e) in (f"{ktxt} == {vtxt}", f"{vtxt} == {ktxt}"))]
                if extra and mname == "get_one_way_vertices":
                    ctx.violation("K6", c, f"one-way edges are dropped from the stored adjacency table under {extra}: the table is rewritten in place, "
                                  "so an edge forgotten at one specification check is missing when the rest of its cycle arrives later "
                                  "(the answer then depends on when the search was interrupted)")
                    continue
                if is_rep(kk) and is_rep(kv):
                    ctx.ok("K6", f"EquivalenceDB.{mname}: {norm(c)} stores representatives")
                else:
                    which = "key" if not is_rep(kk) else "element"
                    ctx.violation("K6", c, f"the {which} stored in the one-way adjacency table is not normalised to its current representative "
                                  "(self[...]): after a later merge, cycle detection walks stale vertices and rules_up_to_equivalence "
                                  "collapses the wrong classes")
        # a table built by a dict comprehension / dict display assigns each key once per stored vertex: colliding representatives overwrite
        if mname == "get_one_way_vertices":
            for st in walk_local(f):
                tv = st.value if isinstance(st, (ast.Assign, ast.AnnAssign)) else None
                tg = (st.targets if isinstance(st, ast.Assign) else [st.target]) if tv is not None else []
                if tv is None or not any(norm(t) in tables for t in tg):
                    continue
                for dc in [x for x in ast.walk(tv) if isinstance(x, ast.DictComp)]:
                    if "self._one_way_vertices" in norm(dc.generators[0].iter):
                        n += 1
                        ctx.violation("K6", dc, f"the new one-way table is a dict comprehension keyed by `{norm(dc.key)}`: two stored vertices that now share a representative "
                                      "collide on that key and the later one's edge set replaces the earlier one's (the sets must be merged)")
        # the same with a whole batch: table[rep].update(<element> for end in ends if ...)
        for c in walk_local(f):
            if not (isinstance(c, ast.Call) and isinstance(c.func, ast.Attribute) and c.func.attr == "update" and isinstance(c.func.value, ast.Subscript)
                    and norm(c.func.value.value) in tables and len(c.args) == 1):
                continue
            n += 1
            a = c.args[0]
            kk = K.kind(c.func.value.slice, f)
            if isinstance(a, (ast.GeneratorExp, ast.ListComp, ast.SetComp)) and len(a.generators) == 1:
                elt = a.elt
                tvar = norm(a.generators[0].target)
                kv = K.kind(elt, f) if norm(elt) != tvar else "raw"     # the loop variable ranges over what was stored: labels as they were then
                ktxt, vtxt = norm(c.func.value.slice), norm(elt)
                extra = [norm(t) for t in a.generators[0].ifs if norm(t) not in (f"{ktxt} != {vtxt}", f"{vtxt} != {ktxt}")]
                if extra and mname == "get_one_way_vertices":
                    ctx.violation("K6", c, f"one-way edges are dropped from the stored adjacency table under {extra}: only self-loops (`{vtxt} != {ktxt}`) may be left out")
                elif is_rep(kk) and is_rep(kv):
                    ctx.ok("K6", f"EquivalenceDB.{mname}: {norm(c)[:70]} stores representatives")
                else:
                    which = "key" if not is_rep(kk) else "elements"
                    ctx.violation("K6", c, f"the {which} stored in the one-way adjacency table by `{norm(c)[:70]}` are not normalised to their current representatives "
                                  "(self[...]): after a merge, cycle detection walks stale vertices (and a stale vertex is never equal to the representative it is compared with)")
            else:
                kv = K.kind(a, f)
                if not (is_rep(kk)):
                    ctx.violation("K6", c, "the key of the one-way adjacency table is not a representative")
                else:
                    ctx.violation("K6", c, f"`{norm(c)[:70]}` copies a stored edge set as it is: its elements were representatives when they were stored, not necessarily now")
    if n < 2:
        ctx.floor("K6", 2)


def k7_seen_threading(ctx) -> None:
    """Depth-first proof-tree generators thread the set of classes already given a rule
    through the siblings: what a forest search hands back must derive from the result of
    the recursion on the remaining siblings (which already extends the first child's)."""
    P = ctx.P
    gen = P.need_function("tree_searcher", "proof_tree_generator_dfs")
    forest = [n for n in ast.walk(gen.node) if isinstance(n, ast.FunctionDef) and n.name == "_dfs_forest"]
    if not forest:
        raise AnchorError("tree_searcher.proof_tree_generator_dfs._dfs_forest not found")
    f = forest[0]
    ctx.analysed(f)
    n = 0
    for loop in walk_local(f):
        if isinstance(loop, ast.For) and isinstance(loop.iter, ast.Call) and norm(loop.iter.func) == "_dfs_forest" \
                and isinstance(loop.target, ast.Tuple) and len(loop.target.elts) == 2:
            s2 = norm(loop.target.elts[0])
            # the recursion on the remaining siblings starts from what the first child has seen
            outer = [l for l in C.enclosing_loops(f, loop) if isinstance(l, ast.For) and isinstance(l.iter, ast.Call)
                     and norm(l.iter.func) == "_dfs_tree" and isinstance(l.target, ast.Tuple) and len(l.target.elts) == 2]
            if outer and len(loop.iter.args) >= 2:
                s1 = norm(outer[0].target.elts[0])
                n += 1
                if norm(loop.iter.args[1]) == s1:
                    ctx.ok("K7", f"_dfs_forest continues with the seen-set `{s1}` returned for the first child")
                else:
                    ctx.violation("K7", loop.iter, f"the remaining siblings are searched from `{norm(loop.iter.args[1])}` instead of the seen-set `{s1}` produced by "
                                  "the first child: classes expanded under the first child are expanded again under its siblings (trees counted too big)")
            for y in walk_local(loop):
                if isinstance(y, ast.Yield) and isinstance(y.value, ast.Tuple) and len(y.value.elts) == 2:
                    n += 1
                    names = {x.id for x in ast.walk(y.value.elts[0]) if isinstance(x, ast.Name)}
                    if s2 in names:
                        ctx.ok("K7", f"_dfs_forest yields a seen-set derived from the siblings' result `{s2}`")
                    else:
                        ctx.violation("K7", y, f"_dfs_forest forgets the classes seen under the later siblings (`{s2}` is dropped): "
                                      "they are expanded again elsewhere and the size bound used by the smallest-tree search is wrong")
    m = P.need_function("tree_searcher", "all_proof_trees_dfs")
    ctx.analysed(m)
    defs = D.definitions(m.node)
    rec = [name for name, ds in defs.items() for d in ds if d[1] is not None and isinstance(d[1], ast.Call)
           and norm(d[1].func) == "all_proof_trees_dfs" and d[2] == (0,)]
    for r in C.returns_of(m.node):
        if isinstance(r.value, ast.Tuple) and len(r.value.elts) == 2 and rec:
            names = {x.id for x in ast.walk(r.value.elts[0]) if isinstance(x, ast.Name)}
            if isinstance(r.value.elts[1], ast.BinOp):
                n += 1
                if set(rec) & names:
                    ctx.ok("K7", "all_proof_trees_dfs returns a seen-set derived from the recursion on the remaining roots")
                else:
                    ctx.violation("K7", r, "all_proof_trees_dfs drops the classes seen under the remaining roots")
    if n < 2:
        ctx.floor("K7", 2)


# ------------------------------------------------------------------------ K8 / K9
def k8_strategy_parent_pairing(ctx, modules) -> None:
    """A strategy fetched from a rule store under key (P, children) is re-applied to the
    class of that same label P (the stored strategy reproduces the rule only there)."""
    P = ctx.P
    n = 0
    for fi in P.all_functions():
        if fi.module.short not in modules:
            continue
        f = fi.node
        from ..core.pattern import assign_value
        for st in walk_local(f):
            tgt0, v = assign_value(st)
            if not isinstance(tgt0, ast.Name) or v is None:
                continue
            if not (isinstance(v, ast.Subscript) and isinstance(v.value, ast.Attribute) and v.value.attr in ("rule_to_strategy", "eqv_rule_to_strategy")):
                continue
            sname = tgt0.id
            key = v.slice
            if isinstance(key, ast.Tuple) and len(key.elts) == 2:
                ptxt = norm(key.elts[0])
            elif isinstance(key, ast.Name):
                ptxt = f"{key.id}[0]"
            else:
                continue
            # applications of that strategy variable reached by this definition
            for c in walk_local(f):
                if not (isinstance(c, ast.Call) and isinstance(c.func, ast.Name) and c.func.id == sname and len(c.args) == 1):
                    continue
                r = D.reaching_value(f, c.func, sname)
                if r is not None and r[0] is not st:
                    continue
                if r is None:
                    # no single dominating definition (try / except arrangement): pair the call with
                    # this definition when every definition of the name fetches from a store with the
                    # same parent label, or when the call sits in the try whose body holds the definition
                    alld = D.definitions(f).get(sname, [])
                    same = all(d[1] is not None and isinstance(d[1], ast.Subscript) and isinstance(d[1].value, ast.Attribute)
                               and d[1].value.attr in ("rule_to_strategy", "eqv_rule_to_strategy")
                               and (norm(d[1].slice.elts[0]) if isinstance(d[1].slice, ast.Tuple) and len(d[1].slice.elts) == 2
                                    else f"{norm(d[1].slice)}[0]") == ptxt for d in alld)
                    tries = [a for a in _anc(c) if isinstance(a, ast.Try)]
                    if not same and not any(st in t.body for t in tries):
                        continue
                    if same and alld and alld[0][0] is not st:
                        continue  # report once per call
                n += 1
                ctx.analysed(fi)
                arg = c.args[0]
                if isinstance(arg, ast.Name):
                    rr = D.reaching_value(f, arg, arg.id)
                    if rr is not None:
                        arg = rr[1]
                good = isinstance(arg, ast.Call) and norm(arg.func).endswith("classdb.get_class") and len(arg.args) == 1 and norm(arg.args[0]) == ptxt
                if good:
                    ctx.ok("K8", f"{fi.qualname}: strategy stored under ({ptxt}, ..) is re-applied to get_class({ptxt})")
                else:
                    ctx.violation("K8", c, f"the strategy stored under the key with parent `{ptxt}` is applied to `{norm(arg)}`, not to the class of that "
                                  "label: it may not apply there, or it produces another rule than the one recorded")
    return n


def k9_index_order(ctx) -> None:
    """In the partial extractors, the children of an actual rule are in rule order while
    indices coming from the finder are in order of sorted representatives: every index into
    the actual children goes through the index-order map."""
    P = ctx.P
    n = 0
    for cname in ("EquivalenceRuleExtractor", "RulePathToAtomExtractor"):
        m = P.need_method(cname, "_populate_decompositions", own=True)
        f = m.node
        ctx.analysed(m)
        # names: (parent, children) unpacked from eqvrule_to_rule[...]; the map
        children = None
        omap = None
        for st in walk_local(f):
            if isinstance(st, ast.Assign) and isinstance(st.targets[0], ast.Tuple) and len(st.targets[0].elts) == 2:
                if isinstance(st.value, ast.Subscript) and isinstance(st.value.value, ast.Name):
                    children = norm(st.targets[0].elts[1])
                elif isinstance(st.value, ast.Call) and norm(st.value.func) == "self._ordered_eqvrule_to_rule":
                    omap = norm(st.targets[0].elts[1])
        if children is None or omap is None:
            raise AnalysisError(f"K9: {m.qualname} no longer unpacks (eqvrule_to_rule, index_order_map) / (parent, children)")
        for s in walk_local(f):
            if isinstance(s, ast.Subscript) and isinstance(s.value, ast.Name) and s.value.id == children and isinstance(s.ctx, ast.Load):
                n += 1
                idx = s.slice
                src = idx
                if isinstance(idx, ast.Name):
                    r = D.reaching_value(f, idx, idx.id)
                    src = r[1] if r is not None else idx
                names = {x.id for x in ast.walk(src) if isinstance(x, ast.Name)}
                via = omap in names
                if not via:
                    # a local assigned from the map (order = index_order_map[eqvrule])
                    for nm in names:
                        r = None
                        for x in ast.walk(src):
                            if isinstance(x, ast.Name) and x.id == nm:
                                r = D.reaching_value(f, x, nm)
                        if r is not None and omap in {y.id for y in ast.walk(r[1]) if isinstance(y, ast.Name)}:
                            via = True
                if via:
                    ctx.ok("K9", f"{m.qualname}: `{norm(s)}` indexes the actual children through the index-order map")
                else:
                    ctx.violation("K9", s, f"`{norm(s)}` indexes the actual rule's children with a position of the sorted representatives; "
                                  f"it must go through `{omap}` (the two orders differ whenever child labels and their representatives sort differently)")
    if n < 2:
        ctx.floor("K9", 99)


# ------------------------------------------------------------------------ K10
def _eval_order(e: ast.AST) -> List[ast.AST]:
    """Sub-expressions of e in Python's evaluation order (operands before the operation)."""
    out: List[ast.AST] = []

    def go(n):
        if isinstance(n, ast.Compare):
            go(n.left)
            for c in n.comparators:
                go(c)
        elif isinstance(n, ast.Call):
            go(n.func)
            for a in n.args:
                go(a)
            for k in n.keywords:
                go(k.value)
        elif isinstance(n, ast.Attribute):
            go(n.value)
        elif isinstance(n, ast.Subscript):
            go(n.value)
            go(n.slice)
        elif isinstance(n, ast.BinOp):
            go(n.left)
            go(n.right)
        elif isinstance(n, (ast.BoolOp,)):
            for v in n.values:
                go(v)
        elif isinstance(n, (ast.Tuple, ast.List, ast.Set)):
            for v in n.elts:
                go(v)
        elif isinstance(n, ast.Starred):
            go(n.value)
        elif isinstance(n, ast.UnaryOp):
            go(n.operand)
        elif isinstance(n, ast.IfExp):
            go(n.test)
            go(n.body)
            go(n.orelse)
        elif isinstance(n, ast.keyword):
            go(n.value)
        out.append(n)

    go(e)
    return out


def k10_representative_freshness(ctx, K: Kinds) -> None:
    """Reading `self.pruned_dict` may recompute it, and recomputation calls
    connect_cycles(), which can merge the start class into another representative.  A
    representative that is going to be looked up in / handed over with the pruned dictionary
    must therefore be evaluated *after* the dictionary: later in the evaluation order of the
    same expression, or in a statement dominated by one that already read it."""
    P = ctx.P
    base = P.need_class("RuleDBBase")
    n = 0
    for cls in P.subclasses(base):
        for m in cls.methods.values():
            if m.name == "pruned_dict":
                continue
            f = m.node
            for st in walk_local(f):
                if not isinstance(st, ast.stmt) or isinstance(st, (ast.FunctionDef, ast.ClassDef, ast.If, ast.For, ast.While, ast.Try, ast.With)):
                    continue
                order = []
                for fld in ("value", "test", "exc"):
                    v = getattr(st, fld, None)
                    if isinstance(v, ast.AST):
                        order = _eval_order(v)
                if not order:
                    continue
                pd = [i for i, x in enumerate(order) if is_self_attr(x, "pruned_dict")]
                alias = [i for i, x in enumerate(order) if isinstance(x, ast.Name) and _is_pruned_dict(f, x)]
                if not pd and not alias:
                    continue
                if not pd:
                    pd = [len(order) + 1]  # only an alias here: freshness comes from the earlier read
                reps = [i for i, x in enumerate(order) if isinstance(x, ast.Subscript) and K._is_equivdb(x.value, f)
                        or (isinstance(x, ast.Call) and isinstance(x.func, ast.Attribute) and x.func.attr == "__getitem__" and K._is_equivdb(x.func.value, f))]
                names = [(i, x) for i, x in enumerate(order) if isinstance(x, ast.Name) and is_rep(K.kind(x, f))]
                # @ensure_specification calls has_specification() first: the dictionary is computed and
                # cached before the body runs, so reading it again does not recompute it
                ensured = any(norm(d) == "ensure_specification" for d in f.decorator_list)
                earlier_read = ensured or any(C.dominates(f, s2, st) for s2 in walk_local(f) if isinstance(s2, ast.stmt) and s2 is not st
                                   and not isinstance(s2, (ast.If, ast.For, ast.While, ast.Try, ast.With, ast.FunctionDef))
                                   and any(is_self_attr(y, "pruned_dict") for y in ast.walk(s2)))
                for i in reps:
                    n += 1
                    if i > pd[0] or earlier_read:
                        ctx.ok("K10", f"{m.qualname}: `{norm(order[i])}` is evaluated after self.pruned_dict")
                    else:
                        ctx.violation("K10", st, f"`{norm(order[i])}` is evaluated before `self.pruned_dict` in this expression; recomputing the pruned dictionary "
                                      "merges one-way cycles (connect_cycles) and may change the representative of the start class, so the representative used "
                                      "is stale: has a specification, answers False (until asked again)")
                for i, x in names:
                    r = D.reaching_value(f, x, x.id)
                    if r is None:
                        continue
                    n += 1
                    def_st = r[0]
                    fresh = ensured or any(C.dominates(f, s2, def_st) for s2 in walk_local(f) if isinstance(s2, ast.stmt) and s2 is not def_st
                                and not isinstance(s2, (ast.If, ast.For, ast.While, ast.Try, ast.With, ast.FunctionDef))
                                and any(is_self_attr(y, "pruned_dict") for y in ast.walk(s2)))
                    if fresh:
                        ctx.ok("K10", f"{m.qualname}: representative `{x.id}` is computed after self.pruned_dict was read")
                    else:
                        ctx.violation("K10", def_st, f"representative `{x.id}` is computed before the pruned dictionary it is used with is (re)computed; "
                                      "connect_cycles may have changed it by then")
    if n < 4:
        ctx.floor("K10", 99)


MERGE_EVENTS = ("rules_up_to_equivalence", "connect_cycles", "add_two_way_edge", "_set_equivalent")


def k10b_no_stale_representative(ctx, K: Kinds) -> None:
    """Inside the rule databases: a representative stored in a local is not used after a call
    that may merge classes (rules_up_to_equivalence / connect_cycles / add_two_way_edge): the
    class may have got another representative in between."""
    P = ctx.P
    base = P.need_class("RuleDBBase")
    n = 0
    for cls in P.subclasses(base):
        for m in cls.methods.values():
            f = m.node
            events = [c for c in walk_local(f) if isinstance(c, ast.Call) and isinstance(c.func, ast.Attribute) and c.func.attr in MERGE_EVENTS]
            if not events:
                continue
            defs = D.definitions(f)
            for name, ds in defs.items():
                plain = [d for d in ds if d[3] == "assign" and not d[2] and d[1] is not None]
                if len(plain) != 1 or len(ds) != 1:
                    continue
                val = plain[0][1]
                is_rep_val = any((isinstance(x, ast.Subscript) and K._is_equivdb(x.value, f)) for x in ast.walk(val))
                if not is_rep_val:
                    continue
                S = plain[0][0]
                uses = [x for x in walk_local(f) if isinstance(x, ast.Name) and x.id == name and isinstance(x.ctx, ast.Load)]
                for ev in events:
                    es = C.stmt_of(ev)
                    if es is S or not C.dominates(f, S, ev):
                        continue
                    for u in uses:
                        us = C.stmt_of(u)
                        if us is es:
                            continue
                        n += 1
                        if C.dominates(f, es, u):
                            ctx.violation("K10", u, f"{m.qualname}: representative `{name}` = `{norm(val)}` is computed before `{norm(ev)[:60]}` and used after it; that call may merge "
                                          "classes (one-way cycles are connected there), so the class may have another representative by now")
            n += 1
            ctx.analysed(m)
    if n < 1:
        ctx.floor("K10", 99)


def k20_smallest_bisection(ctx) -> None:
    """The smallest proof tree is found by bisection on the size bound.  Invariant: `node` is a
    tree with len(node) <= maximum, and no tree of size < minimum exists.  The interval starts
    at [1, len(first tree)], a successful search with bound `middle` lowers maximum to at most
    middle (never below the size of the tree found), a failed one raises minimum to middle + 1."""
    from ..core import pattern as PT
    from .tablemethod import affine
    P = ctx.P
    m = P.need_method("RuleDBBase", "_get_smallest_node", own=True)
    f = m.node
    ctx.analysed(m)
    loops = [w for w in walk_local(f) if isinstance(w, ast.While)]
    if len(loops) != 1:
        raise AnalysisError("K20: _get_smallest_node is no longer one bisection loop")
    w = loops[0]
    t = w.test
    if not (isinstance(t, ast.Compare) and len(t.ops) == 1 and isinstance(t.ops[0], (ast.Lt, ast.Gt)) and all(isinstance(x, ast.Name) for x in (t.left, t.comparators[0]))):
        raise AnalysisError(f"K20: loop test `{norm(t)}` not understood")
    lo, hi = (t.left.id, t.comparators[0].id) if isinstance(t.ops[0], ast.Lt) else (t.comparators[0].id, t.left.id)
    # the tree variable: what the function returns
    rets = [r for r in C.returns_of(f) if r.value is not None]
    if len(rets) != 1 or not isinstance(rets[0].value, ast.Name):
        raise AnalysisError("K20: _get_smallest_node does not return a plain name")
    node = rets[0].value.id
    before = [st for st in f.body if st.lineno < w.lineno]
    init = {}
    for st in before:
        tg, v = PT.assign_value(st)
        if isinstance(tg, ast.Name) and v is not None:
            init[tg.id] = v
    if lo in init and isinstance(init[lo], ast.Constant) and isinstance(init[lo].value, int) and init[lo].value <= 1:
        ctx.ok("K20", f"bisection starts with {lo} = {init[lo].value} (no tree is smaller)")
    else:
        ctx.violation("K20", w, f"the lower bound `{lo}` must start at 1 (or 0): a start above the true minimum makes the search skip it", construct="RuleDBBase._get_smallest_node lower start")
    if hi in init and affine(init[hi]) == {f"len({node})": 1}:
        ctx.ok("K20", f"bisection starts with {hi} = len({node}), the size of a tree in hand")
    else:
        ctx.violation("K20", init.get(hi, w), f"the upper bound `{hi}` must start at len({node}), the size of the tree already found; `{norm(init[hi]) if hi in init else '?'}` "
                      "excludes that tree although it may be the smallest (the loop then ends with a tree that was never checked against the bound)")
    mids = [(st, v) for st in walk_local(w) for tg, v in [PT.assign_value(st)] if isinstance(tg, ast.Name) and v is not None
            and PT.match(PT.compile_pattern(f"({lo} + {hi}) // 2"), v) is not None or (isinstance(tg, ast.Name) and v is not None and PT.match(PT.compile_pattern(f"({hi} + {lo}) // 2"), v) is not None)]
    if len(mids) != 1:
        raise AnalysisError("K20: the midpoint (lo + hi) // 2 is not computed once per iteration")
    mid = PT.assign_value(mids[0][0])[0].id
    ctx.ok("K20", f"midpoint {mid} = ({lo} + {hi}) // 2")
    calls = [c for c in walk_local(w) if isinstance(c, ast.Call) and norm(c.func) == "proof_tree_generator_dfs"]
    if len(calls) != 1 or not any(k.arg == "maximum" and norm(k.value) == mid for k in calls[0].keywords):
        ctx.violation("K20", w, f"each iteration must search for a tree with maximum={mid}", construct="RuleDBBase._get_smallest_node bound passed")
    else:
        ctx.ok("K20", f"the search is bounded by maximum={mid}")
    for st in walk_local(w):
        tg, v = PT.assign_value(st)
        if not isinstance(tg, ast.Name) or v is None:
            continue
        in_handler = C.handlers_around(f, st) == [] and any(isinstance(a, ast.ExceptHandler) for a in _ancestors_until(st, w))
        if tg.id == hi:
            okv = norm(v) in (mid, f"len({node})", f"min({mid}, len({node}))", f"min(len({node}), {mid})")
            on_success = any(isinstance(a, ast.Try) and any(st is x for blk in (a.body, a.orelse) for y in blk for x in ast.walk(y)) for a in _ancestors_until(st, w))
            if okv and not in_handler and not on_success:
                ctx.violation("K20", st, f"`{norm(st)}` runs whether or not a tree within {mid} was found (it is outside the try that searches): after a failed probe the upper "
                              "bound drops to the probe although nothing that small exists, and the search stops with a tree that is not the smallest")
            elif okv and not in_handler:
                ctx.ok("K20", f"after a successful search {hi} drops to `{norm(v)}` (at most {mid}, at least the size found)")
            else:
                ctx.violation("K20", st, f"after finding a tree within {mid} the upper bound must become {mid}, len({node}) or their minimum; found `{norm(v)}`"
                              + (" in the failure handler" if in_handler else ""))
        if tg.id == lo:
            if affine(v) == {mid: 1, "1": 1} and in_handler:
                ctx.ok("K20", f"after a failed search {lo} rises to {mid} + 1")
            else:
                ctx.violation("K20", st, f"when no tree within {mid} exists the lower bound must become {mid} + 1 (in the StopIteration handler); found `{norm(v)}`")


def _ancestors_until(node, stop):
    cur = getattr(node, "_parent", None)
    while cur is not None and cur is not stop:
        yield cur
        cur = getattr(cur, "_parent", None)


# ------------------------------------------------------------------------ K11 / K12
def k11_extractor_start(ctx, K: Kinds) -> None:
    """EquivalenceRuleExtractor.start is a *raw* label (it is handed to find_path together
    with raw labels of actual rules); its default is the raw start label."""
    P = ctx.P
    init = P.need_method("EquivalenceRuleExtractor", "__init__", own=True)
    f = init.node
    ctx.analysed(init)
    assigns = [n for n in walk_local(f) if isinstance(n, ast.Assign) and any(is_self_attr(t, "start") for t in n.targets)]
    if not assigns:
        raise AnalysisError("K11: EquivalenceRuleExtractor.__init__ no longer sets self.start")
    for a in assigns:
        k = K.kind(a.value, f)
        if k == RAW_START:
            ctx.ok("K11", "EquivalenceRuleExtractor.start defaults to the raw start label")
        elif k == UNKNOWN:
            # call sites disagree or cannot be read: an analysis error unless K1 already reported the call sites
            ctx.shortfalls.append(f"K11: cannot infer the kind of `{norm(a.value)}` (call sites of EquivalenceRuleExtractor disagree or are unreadable)")
        else:
            ctx.violation("K11", a, f"the default start of the equivalence path is `{norm(a.value)}` ({k}); the path is searched among raw class labels, so when the "
                          "start class is not its own representative the path begins at another class")


def k12_union_find_discipline(ctx) -> None:
    """Whether two labels are equivalent is decided through find (`self[x]`); raw parent
    pointers are not canonical (unseen labels have none, compression is lazy).  Outside
    __getitem__ the parent table is only iterated over or written at a root."""
    P = ctx.P
    cls = P.need_class("EquivalenceDB")
    K = Kinds(P)
    n = 0
    for m in cls.methods.values():
        if m.name in ("__getitem__", "__init__", "__eq__"):
            continue
        f = m.node
        for x in walk_local(f):
            if is_self_attr(x, "parents"):
                p = parent(x)
                n += 1
                if isinstance(p, ast.Subscript) and isinstance(p.ctx, ast.Load):
                    ctx.violation("K12", C.stmt_of(x), f"{m.qualname} reads a raw parent pointer `{norm(p)}`; equivalence must be decided through self[...]")
                elif isinstance(p, ast.Attribute) and p.attr in ("get", "setdefault", "pop"):
                    ctx.violation("K12", C.stmt_of(x), f"{m.qualname} reads raw parent pointers (`{norm(parent(p))[:50]}`): two labels never seen before both have none and "
                                  "compare equal, labels in one set may still point at different ancestors")
                elif isinstance(p, ast.Subscript) and isinstance(p.ctx, ast.Store):
                    ctx.ok("K12", f"{m.qualname}: parent table written (linking), not read")
                else:
                    ctx.ok("K12", f"{m.qualname}: parent table only iterated / compared")
    if n < 2:
        ctx.floor("K12", 99)


# ------------------------------------------------------------------------ K18

    # labels are integers and 0 is a label: "no parent yet" must be told from "parent 0" by `is None`,
    # never by truthiness
    gi = cls.methods.get("__getitem__")
    if gi is not None:
        ctx.analysed(gi)
        f = gi.node
        lab = set()
        for st in walk_local(f):
            tg, v = (st.targets[0], st.value) if isinstance(st, ast.Assign) and len(st.targets) == 1 else (getattr(st, "target", None), getattr(st, "value", None)) if isinstance(st, ast.AnnAssign) else (None, None)
            if isinstance(tg, ast.Name) and v is not None and ("self.parents.get(" in norm(v) or norm(v).startswith("self.parents[")):
                lab.add(tg.id)
        bad = False
        for x in walk_local(f):
            tests = []
            if isinstance(x, (ast.If, ast.While, ast.IfExp)):
                tests.append(x.test)
            elif isinstance(x, ast.Assert):
                tests.append(x.test)
            for t in tests:
                for y in [t] + list(ast.walk(t)):
                    truthy = y if isinstance(y, ast.Name) else y.operand if isinstance(y, ast.UnaryOp) and isinstance(y.op, ast.Not) and isinstance(y.operand, ast.Name) else None
                    if truthy is not None and truthy.id in lab and (y is t or isinstance(getattr(y, "_parent", None), (ast.BoolOp, ast.UnaryOp)) or isinstance(y, ast.UnaryOp)):
                        par_ = getattr(truthy, "_parent", None)
                        if isinstance(par_, ast.Compare):
                            continue
                        bad = True
                        ctx.violation("K12", t, f"EquivalenceDB.__getitem__ tests the truth value of `{truthy.id}`, a label read from the parent table: label 0 (the start class) is "
                                      "falsy, so once 0 is the representative of a class its members are re-initialised as their own roots and the class falls apart")
                        break
                    continue
        if not bad and lab:
            ctx.ok("K12", "an unseen label is recognised by `is None`, not by truthiness (label 0 is a label)")

def k18_tree_searcher_purity(ctx) -> None:
    """The finders of tree_searcher receive the (cached) pruned dictionary: apart from
    `prune`, which is documented to work in place on a fresh dictionary, none of them may
    modify it -- neither the dictionary nor, through a shallow copy, the rule sets in it."""
    P = ctx.P
    mod = P.module("tree_searcher")
    setmut = {"remove", "discard", "add", "clear", "pop", "update", "difference_update", "intersection_update"}
    n = 0
    for fi in mod.functions.values():
        if fi.name == "prune":
            continue
        ps = fi.params()
        if "rules_dict" not in ps:
            continue
        n += 1
        f = fi.node
        ctx.analysed(fi)
        shallow = set()
        deep = set()
        for st in ast.walk(f):
            if isinstance(st, (ast.Assign, ast.AnnAssign)):
                t = st.targets[0] if isinstance(st, ast.Assign) else st.target
                v = st.value
                if isinstance(t, ast.Name) and v is not None:
                    tv = norm(v)
                    if tv in ("dict(rules_dict)", "rules_dict.copy()", "{**rules_dict}", "rules_dict", "copy(rules_dict)", "copy.copy(rules_dict)"):
                        shallow.add(t.id)
                    elif tv in ("deepcopy(rules_dict)", "copy.deepcopy(rules_dict)"):
                        deep.add(t.id)
        bad = []
        for x in ast.walk(f):
            # element-level mutation through the parameter or a shallow copy
            if isinstance(x, ast.Call) and isinstance(x.func, ast.Attribute) and x.func.attr in setmut and isinstance(x.func.value, ast.Subscript) \
                    and isinstance(x.func.value.value, ast.Name) and x.func.value.value.id in shallow | {"rules_dict"}:
                bad.append(x)
            # loop variables bound to elements of a shallow copy: for k, rule_set in list(rdict.items()): rule_set.remove(...)
            if isinstance(x, ast.For) and isinstance(x.iter, ast.Call):
                src = norm(x.iter)
                for nm in shallow | {"rules_dict"}:
                    if f"{nm}.items()" in src or f"{nm}.values()" in src:
                        tgts = [t.id for t in ast.walk(x.target) if isinstance(t, ast.Name)]
                        for y in ast.walk(x):
                            if isinstance(y, ast.Call) and isinstance(y.func, ast.Attribute) and y.func.attr in setmut and isinstance(y.func.value, ast.Name) \
                                    and y.func.value.id in tgts:
                                bad.append(y)
            # top-level mutation of the parameter itself
            if isinstance(x, ast.Subscript) and isinstance(x.ctx, (ast.Store, ast.Del)) and isinstance(x.value, ast.Name) and x.value.id == "rules_dict":
                bad.append(x)
        if bad:
            for b in bad[:2]:
                ctx.violation("K18", C.stmt_of(b), f"{fi.qualname} modifies the rules dictionary it was given (through `{norm(b)[:50]}`): it is the database's cached "
                              "pruned dictionary, so the next query is answered from a corrupted cache")
        else:
            ctx.ok("K18", f"{fi.qualname} does not modify the dictionary it is given" + (" (works on a deep copy)" if deep else ""))
    if n < 6:
        ctx.floor("K18", 99)


def k23_random_tree_marks_when_expanded(ctx) -> None:
    from ..core import pattern as PT
    """`random_proof_tree` walks breadth first; a class is marked as seen when its node is taken
    from the queue (and then expanded with the rule drawn for it), and every child node it
    makes is queued.  Marked when *queued*, a class that occurs twice among the children gets
    two nodes of which only one is expanded by the drawn rule while the other draws a rule of
    its own: one class, two different rules in one tree."""
    P = ctx.P
    fi = P.need_function("tree_searcher", "random_proof_tree")
    f = fi.node
    ctx.analysed(fi)
    pops = [(t.id, v) for n in walk_local(f) for t, v in [PT.assign_value(n)] if isinstance(t, ast.Name) and isinstance(v, ast.Call) and isinstance(v.func, ast.Attribute)
            and v.func.attr in ("popleft", "pop")]
    if len(pops) != 1:
        raise AnalysisError("K23: random_proof_tree no longer takes one node from its queue per round")
    v, popc = pops[0]
    q = norm(popc.func.value)
    seen_sets = {c.func.value.id for c in walk_local(f) if isinstance(c, ast.Call) and isinstance(c.func, ast.Attribute) and c.func.attr in ("add", "update")
                 and isinstance(c.func.value, ast.Name) and c.func.value.id != q}
    marks = [c for c in walk_local(f) if isinstance(c, ast.Call) and isinstance(c.func, ast.Attribute) and c.func.attr in ("add", "update") and isinstance(c.func.value, ast.Name)
             and c.func.value.id in seen_sets]
    if not marks:
        raise AnalysisError("K23: random_proof_tree no longer marks the classes it has expanded")
    for c in marks:
        a0 = c.args[0] if c.args else None
        if isinstance(a0, ast.Name):
            rv = D.reaching_value(f, a0, a0.id)
            if rv is not None and rv[1] is not None:
                a0 = rv[1]
            else:
                ds0 = [d for d in D.definitions(f).get(a0.id, []) if d[1] is not None]
                if ds0 and all(norm(d[1]) == f"{v}.label" and not d[2] for d in ds0):
                    a0 = ds0[0][1]
        if c.func.attr == "add" and a0 is not None and f"{v}.label" in (norm(a0), norm(D.expanded(f, a0))):
            ctx.ok("K23", "a class is marked as seen when its own node is taken from the queue")
        else:
            ctx.violation("K23", c, f"random_proof_tree marks `{norm(c.args[0])[:40] if c.args else '?'}` as seen, not the class of the node in hand (`{v}.label`): classes are "
                          "marked when they are queued, so a class that occurs twice among the children of one rule is expanded once and re-drawn once")
    for s0 in seen_sets:
        for d in D.definitions(f).get(s0, []):
            if d[1] is not None and not ((isinstance(d[1], ast.Call) and norm(d[1].func) == "set" and not d[1].args) or (isinstance(d[1], (ast.Set,)) and not d[1].elts)):
                ctx.violation("K23", d[0], f"random_proof_tree starts with `{s0} = {norm(d[1])[:40]}`: nothing is seen before it has been expanded")
    exts = [c for c in walk_local(f) if isinstance(c, ast.Call) and isinstance(c.func, ast.Attribute) and norm(c.func.value) == q and c.func.attr in ("extend", "append", "extendleft")]
    kids = [t for n in walk_local(f) for t in (n.targets if isinstance(n, ast.Assign) else []) if isinstance(t, ast.Attribute) and t.attr == "children"]
    if not exts or not kids:
        raise AnalysisError("K23: random_proof_tree no longer queues the children it attaches")
    for c in exts:
        a0 = c.args[0] if c.args else None
        if isinstance(a0, ast.Name):
            ctx.ok("K23", "every child node attached to the tree is queued")
        else:
            ctx.violation("K23", c, f"random_proof_tree queues `{norm(a0)[:60] if a0 is not None else '?'}`, not all the child nodes it attaches: a child that is left out is never "
                          "expanded, although its node is in the tree")
