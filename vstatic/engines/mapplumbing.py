"""
Engine M -- derived-form map plumbing and object-generation wiring (rules M1-M5), C07.
"""
from __future__ import annotations

import ast
from typing import List, Optional

from ..core import control as C
from ..core import dataflow as D
from ..core.program import AnalysisError, AnchorError, is_self_attr, norm, parent, walk_local
from . import provenance as PV


def _calls(f, suffix: str) -> List[ast.Call]:
    return [c for c in walk_local(f) if isinstance(c, ast.Call) and norm(c.func).endswith(suffix)]


def m1_equivalence_rule(ctx) -> None:
    P = ctx.P
    fw = P.need_method("EquivalenceRule", "forward_map", own=True)
    bw = P.need_method("EquivalenceRule", "backward_map", own=True)
    ctx.analysed(fw)
    ctx.analysed(bw)
    slot_f = None
    for n in walk_local(fw.node):
        if isinstance(n, ast.Subscript) and isinstance(n.value, ast.Call) and norm(n.value.func) == "self.original_rule.forward_map":
            slot_f = norm(n.slice)
    if slot_f is None:
        ctx.violation("M1", fw.node, "EquivalenceRule.forward_map no longer selects one part of original_rule.forward_map(obj)", construct="EquivalenceRule.forward_map slot")
        return
    rets = [r for r in C.returns_of(fw.node) if r.value is not None]
    if not (len(rets) == 1 and isinstance(rets[0].value, ast.Tuple) and len(rets[0].value.elts) == 1):
        ctx.violation("M1", fw.node, "EquivalenceRule.forward_map must return the single non-empty part as a 1-tuple", construct="EquivalenceRule.forward_map result")
    # backward: the part is re-inserted at the same slot, None elsewhere
    slot_b = None
    width = None
    elsewhere_none = False
    part_ok = False
    for n in walk_local(bw.node):
        if isinstance(n, (ast.GeneratorExp, ast.ListComp)) and isinstance(n.elt, ast.IfExp):
            t = n.elt.test
            g = n.generators[0]
            if isinstance(t, ast.Compare) and len(t.ops) == 1 and isinstance(t.ops[0], ast.Eq):
                sides = [norm(t.left), norm(t.comparators[0])]
                var = norm(g.target)
                if var in sides:
                    slot_b = sides[1 - sides.index(var)]
                    width = norm(g.iter)
                    elsewhere_none = isinstance(n.elt.orelse, ast.Constant) and n.elt.orelse.value is None
                    part_ok = norm(n.elt.body) in (f"{bw.params()[1]}[0]",)
    if slot_b is None:
        raise AnalysisError("M1: cannot read how EquivalenceRule.backward_map re-inserts the part")
    if slot_b == slot_f and elsewhere_none and part_ok:
        ctx.ok("M1", f"EquivalenceRule: part taken at [{slot_f}] and re-inserted at [{slot_b}], None elsewhere")
    else:
        ctx.violation("M1", bw.node, f"EquivalenceRule.forward_map takes slot [{slot_f}] but backward_map re-inserts at [{slot_b}] "
                      f"(None elsewhere: {elsewhere_none}): mapping an object to its part and back does not return it for any strategy with a non-trivial map",
                      construct="EquivalenceRule maps slot")
    if width in ("range(len(self.actual_children))", "range(len(self.original_rule.children))"):
        ctx.ok("M1", "the tuple handed to the original backward map has one slot per original child")
    else:
        ctx.violation("M1", bw.node, f"the tuple handed to the original rule's backward_map ranges over `{width}`, not over the original children", construct="EquivalenceRule.backward_map width")
    if _calls(bw.node, "self.original_rule.backward_map"):
        ctx.ok("M1", "EquivalenceRule.backward_map goes through the original rule's backward_map")
    else:
        ctx.violation("M1", bw.node, "EquivalenceRule.backward_map no longer uses the original rule's backward_map", construct="EquivalenceRule.backward_map delegate")
    # the slot attribute is the index of the non-empty child in the original children
    init = P.need_method("EquivalenceRule", "__init__", own=True)
    from ..core import pattern as PT
    rp = [p_ for p_ in D.param_names(init.node) if p_ != "self"][0]
    idx_ok = False
    for st_ in walk_local(init.node):
        tg_, v_ = PT.assign_value(st_)
        if tg_ is not None and norm(tg_) == "self.child_idx" and v_ is not None:
            vx = D.expanded(init.node, v_)
            # the kept child: the first non-empty child of the original rule, located among *all* its children
            mt = PT.match(PT.compile_pattern(f"{rp}.children.index(_E_c)"), vx)
            if mt is not None and mt["_E_c"] in (f"{rp}.non_empty_children()[0]",):
                idx_ok = True
            sup = [c for c in walk_local(init.node) if isinstance(c, ast.Call) and norm(c.func) == "super().__init__" and len(c.args) == 3]
            if mt is not None and sup and norm(D.expanded(init.node, sup[0].args[2])) == f"({mt['_E_c']},)":
                idx_ok = True
    if idx_ok and PT.find_all(init.node, f"self.actual_children = {rp}.children"):
        ctx.ok("M1", "child_idx is the position of the non-empty child among the original children")
    else:
        ctx.violation("M1", init.node, "EquivalenceRule.__init__ must set child_idx = rule.children.index(child) and actual_children = rule.children", construct="EquivalenceRule.__init__ slot")


def m2_reverse_rule(ctx) -> None:
    P = ctx.P
    fw = P.need_method("ReverseRule", "forward_map", own=True)
    bw = P.need_method("ReverseRule", "backward_map", own=True)
    ctx.analysed(fw)
    ctx.analysed(bw)
    # backward: original.forward_map(objs[0])[slot]
    slot_b = None
    for n in walk_local(bw.node):
        if isinstance(n, ast.Subscript) and isinstance(n.value, ast.Call) and norm(n.value.func) == "self.original_rule.forward_map":
            slot_b = norm(n.slice)
            arg = norm(n.value.args[0]) if n.value.args else "?"
            if arg != f"{bw.params()[1]}[0]":
                ctx.violation("M2", n, f"ReverseRule.backward_map feeds `{arg}` to the original forward map; the original parent object is the first part (objs[0])")
    # forward: objs[slot] = obj ; original.backward_map(tuple(objs))
    slot_f = None
    for n in walk_local(fw.node):
        if isinstance(n, ast.Assign) and isinstance(n.targets[0], ast.Subscript) and isinstance(n.targets[0].value, ast.Name) \
                and norm(n.value) == fw.params()[1]:
            slot_f = norm(n.targets[0].slice)
            lst = n.targets[0].value.id
            defs = D.definitions(fw.node).get(lst, [])
            init_ok = any(d[1] is not None and "None for _ in self.original_rule.children" in norm(d[1]) for d in defs)
            if not init_ok:
                ctx.violation("M2", n, "the parts handed to the original backward map must start as one None per original child")
    if slot_b is None or slot_f is None:
        ctx.violation("M2", bw.node if slot_b is None else fw.node, "ReverseRule maps no longer go through the original rule's maps at one slot",
                      construct="ReverseRule maps slot")
        return
    if slot_b == slot_f == "self.idx":
        ctx.ok("M2", "ReverseRule: backward reads original.forward_map(..)[self.idx], forward writes objs[self.idx] before original.backward_map")
    else:
        ctx.violation("M2", fw.node, f"ReverseRule.forward_map places the object at [{slot_f}] but backward_map reads [{slot_b}]: the two are not inverse",
                      construct="ReverseRule maps slot")
    if _calls(fw.node, "self.original_rule.backward_map"):
        ctx.ok("M2", "ReverseRule.forward_map goes through the original backward_map")
    else:
        ctx.violation("M2", fw.node, "ReverseRule.forward_map no longer uses the original rule's backward_map", construct="ReverseRule.forward_map delegate")
    for m in (fw, bw):
        rs = [r for r in C.raises_of(m.node) if r.exc is not None and "NotImplementedError" in norm(r.exc)]
        good = any(any("len(self.original_rule.non_empty_children())" in t for t, _ in C.guard_texts(m.node, r)) for r in rs)
        if good:
            ctx.ok("M2", f"{m.qualname} refuses unless the original rule has exactly one non-empty child")
        else:
            ctx.violation("M2", m.node, f"{m.qualname} must raise NotImplementedError unless the original rule has exactly one non-empty child",
                          construct=f"{m.qualname} refusal")
    # shape of the forward result: (parent object, None, ...)
    rets = [r for r in C.returns_of(fw.node) if r.value is not None]
    if rets and all("None for _ in range(len(self.children) - 1)" in norm(D.expanded(fw.node, r.value)) for r in rets):
        ctx.ok("M2", "ReverseRule.forward_map returns (object of the original parent, None, ...) with one slot per child")
    else:
        ctx.violation("M2", fw.node, "ReverseRule.forward_map must return the original parent's object followed by None for the other len(children)-1 children",
                      construct="ReverseRule.forward_map result")


def m3_path_rule(ctx) -> None:
    P = ctx.P
    fw = P.need_method("EquivalencePathRule", "forward_map", own=True)
    bw = P.need_method("EquivalencePathRule", "backward_map", own=True)
    ctx.analysed(fw)
    ctx.analysed(bw)

    def fold(m, want_iter: List[str], want_call: str):
        loops = [l for l in walk_local(m.node) if isinstance(l, ast.For)]
        if len(loops) != 1:
            return None, None
        l = loops[0]
        calls = [c for c in walk_local(l) if isinstance(c, ast.Call) and isinstance(c.func, ast.Attribute)
                 and c.func.attr in ("forward_map", "backward_map") and norm(c.func.value) == norm(l.target)]
        return norm(l.iter), (calls[0].func.attr if calls else None)

    it_f, call_f = fold(fw, [], "")
    it_b, call_b = fold(bw, [], "")
    if it_f == "self.rules" and call_f == "forward_map":
        ctx.ok("M3", "path forward_map applies each step's forward_map in path order")
    else:
        ctx.violation("M3", fw.node, f"EquivalencePathRule.forward_map folds `{call_f}` over `{it_f}`; it must apply forward_map along self.rules in order",
                      construct="EquivalencePathRule.forward_map fold")
    if it_b in ("reversed(self.rules)", "self.rules[::-1]") and call_b == "backward_map":
        ctx.ok("M3", "path backward_map applies each step's backward_map in reverse path order")
    else:
        ctx.violation("M3", bw.node, f"EquivalencePathRule.backward_map folds `{call_b}` over `{it_b}`; it must apply backward_map along reversed(self.rules): "
                      "with steps whose maps do not commute the object mapped back is another one", construct="EquivalencePathRule.backward_map fold")
    # a step that gives nothing is noticed by StopIteration or an `is None` sentinel, never by the truth value of
    # the object mapped back: objects can be falsy (the empty word)
    for mm in (fw, bw):
        for st in walk_local(mm.node):
            tg, v = (st.targets[0], st.value) if isinstance(st, ast.Assign) and len(st.targets) == 1 else (None, None)
            if isinstance(tg, ast.Name) and isinstance(v, ast.Call) and norm(v.func) == "next" and len(v.args) == 2:
                nm = tg.id
                for x in walk_local(mm.node):
                    test = x.test if isinstance(x, (ast.If, ast.While, ast.IfExp)) else None
                    if test is None:
                        continue
                    for y in ast.walk(test):
                        if isinstance(y, ast.Name) and y.id == nm and not isinstance(getattr(y, "_parent", None), ast.Compare):
                            ctx.violation("M3", x, f"{mm.qualname} decides whether a step gave an object by the truth value of `{nm}`: an object can be falsy (the empty word, the "
                                          "empty tuple), and is then dropped although the step mapped it")
    init = P.need_method("EquivalencePathRule", "__init__", own=True)
    t = norm(init.node)
    if "super().__init__(rules[0].strategy, rules[0].comb_class, rules[-1].children)" in t and "self.rules = tuple(rules)" in t:
        ctx.ok("M3", "a path runs from the first step's class to the last step's child")
    else:
        ctx.violation("M3", init.node, "EquivalencePathRule must run from rules[0].comb_class to rules[-1].children and keep the steps in order", construct="EquivalencePathRule.__init__")



def _is_first_missing_level(f, loop, arg, cache: str, app) -> bool:
    """`arg` (the level asked of the provider inside `loop`) is len(self.<cache>) as it is
    when the level is appended: written out, or a local assigned that value inside the loop
    with no append between the assignment and the use."""
    want = f"len(self.{cache})"
    if norm(arg) == want:
        return True
    if isinstance(arg, ast.Name):
        ds = [d for d in D.definitions(f).get(arg.id, [])]
        if len(ds) == 1 and ds[0][3] == "assign" and not ds[0][2] and ds[0][1] is not None and norm(ds[0][1]) == want:
            st = ds[0][0]
            inside = any(st is x for x in ast.walk(loop))
            return inside and st.lineno < arg.lineno and not (st.lineno < app.lineno < arg.lineno)
    return False


def m4_generation_wiring(ctx) -> None:
    P = ctx.P
    m = P.need_method("Rule", "_ensure_level_objects", own=True)
    f = m.node
    ctx.analysed(m)
    loops = [w for w in walk_local(f) if isinstance(w, ast.While)]
    apps = _calls(f, "self.objects_cache.append")
    subs = _calls(f, "self.constructor.get_sub_objects")
    if len(loops) != 1 or len(apps) != 1 or len(subs) != 1:
        ctx.violation("M4", f, "Rule._ensure_level_objects must build one level per iteration from constructor.get_sub_objects and append it once", construct="Rule._ensure_level_objects shape")
        return
    a = [norm(x) for x in subs[0].args]
    if len(a) == 2 and a[0] == "self.subobjects" and _is_first_missing_level(f, loops[0], subs[0].args[1], "objects_cache", apps[0]) and norm(loops[0].test) in ("n >= len(self.objects_cache)", "len(self.objects_cache) <= n"):
        ctx.ok("M4", "level built = get_sub_objects(self.subobjects, len(self.objects_cache)): the first missing level")
    else:
        ctx.violation("M4", subs[0], f"get_sub_objects is called with ({', '.join(a)}); the level computed must be len(self.objects_cache)")
    fill = [l for l in walk_local(loops[0]) if isinstance(l, ast.For) and subs[0] in list(ast.walk(l.iter))]
    if fill and C.followed_by(f, fill[0], apps[0]) and norm(apps[0].args[0]) in {norm(t) for n2 in walk_local(loops[0]) if isinstance(n2, (ast.Assign, ast.AnnAssign))
                                                                                for t in (n2.targets if isinstance(n2, ast.Assign) else [n2.target])}:
        ctx.ok("M4", "a level is appended to the cache only after it has been filled completely")
    else:
        ctx.violation("M4", apps[0], "the level is appended to objects_cache before (or without) being filled: if generation is interrupted "
                      "(an exception from a child) the cache keeps an incomplete level and later calls return it as final")
    ext = [c for c in walk_local(loops[0]) if isinstance(c, ast.Call) and isinstance(c.func, ast.Attribute) and c.func.attr == "extend"]
    prod = _calls(loops[0], "product")
    okb = bool(ext) and all(c.args and isinstance(c.args[0], ast.Call) and norm(c.args[0].func) == "self.backward_map" for c in ext) and bool(prod)
    if okb:
        ctx.ok("M4", "objects of a level = backward_map images of the Cartesian product of the sub-object lists, keyed by the yielded parameters")
    else:
        ctx.violation("M4", f, "objects must be the backward_map images of product(*subobjects) for every (parameters, subobjects) the constructor yields", construct="Rule._ensure_level_objects product")
    g = P.need_method("AbstractRule", "get_objects", own=True)
    t = norm(g.node)
    if "self._ensure_level_objects(n)" in t and "return self.objects_cache[n]" in t:
        ctx.ok("M4", "get_objects(n) = ensure level n, then the cached level n")
    else:
        ctx.violation("M4", g.node, "AbstractRule.get_objects must ensure level n and return objects_cache[n]", construct="AbstractRule.get_objects")
    # providers aligned with children
    ss = P.need_method("AbstractRule", "set_subrecs", own=True)
    ctx.analysed(ss)
    want = {"subrecs": "count_objects_of_size", "subsamplers": "random_sample_object_of_size", "subobjects": "get_objects", "subterms": "get_terms"}
    seen = set()
    for n in walk_local(ss.node):
        if isinstance(n, ast.Assign) and len(n.targets) == 1 and is_self_attr(n.targets[0]) and n.targets[0].attr in want:
            attr = n.targets[0].attr
            seen.add(attr)
            v = n.value
            good = False
            if isinstance(v, ast.Call) and norm(v.func) == "tuple" and len(v.args) == 1 and isinstance(v.args[0], (ast.GeneratorExp, ast.ListComp)):
                g0 = v.args[0]
                if len(g0.generators) == 1 and not g0.generators[0].ifs and norm(g0.generators[0].iter) == "self.children":
                    good = norm(g0.elt) == f"get_subrule({norm(g0.generators[0].target)}).{want[attr]}"
            if good:
                ctx.ok("M4", f"{attr}[q] is {want[attr]} of the rule of children[q]")
            else:
                ctx.violation("M4", n, f"self.{attr} must be the {want[attr]} of the rules of self.children, in order and unfiltered")
    for attr in sorted(set(want) - seen):
        ctx.violation("M4", ss.node, f"set_subrecs no longer binds self.{attr}", construct=f"AbstractRule.set_subrecs {attr}")
    # parameters of the parent select the objects
    go = P.need_method("AbstractRule", "generate_objects_of_size", own=True)
    from ..core import pattern as PT
    pt = PT.find_all(go.node, "_M_pt = tuple((parameters[_M_k] for _M_k in self.comb_class.extra_parameters))")
    direct = PT.find_all(go.node, "_E_o[tuple((parameters[_M_k] for _M_k in self.comb_class.extra_parameters))]")
    if direct or (pt and PT.find_all(go.node, "_E_o[_M_pt]", {"_M_pt": pt[0][1]["_M_pt"]})):
        ctx.ok("M4", "generated objects are selected by the parent's own parameter tuple")
    else:
        ctx.violation("M4", go.node, "generate_objects_of_size must index the level by tuple(parameters[k] for k in self.comb_class.extra_parameters)", construct="AbstractRule.generate_objects_of_size")


def m5_union_sub_objects(ctx) -> None:
    from ..core import pattern as PT
    P = ctx.P
    m = P.need_method("DisjointUnion", "get_sub_objects", own=True)
    f = m.node
    ctx.analysed(m)
    loops = [l for l in f.body if isinstance(l, ast.For)]
    if len(loops) != 1 or not (isinstance(loops[0].iter, ast.Call) and norm(loops[0].iter.func) == "enumerate" and isinstance(loops[0].target, ast.Tuple)):
        raise AnalysisError("M5: DisjointUnion.get_sub_objects no longer walks enumerate(subobjs)")
    outer = loops[0]
    i = norm(outer.target.elts[0])
    sub = norm(outer.target.elts[1])
    init = PT.find_all(f, "_M_res = [[None] for _A_ in range(self.number_of_children)]")
    res = init[0][1]["_M_res"] if init else None
    if res:
        ctx.ok("M5", "every slot starts as [None]")
    else:
        ctx.violation("M5", f, "the result slots must start as one [None] per child", construct="DisjointUnion.get_sub_objects init")
        return
    inner = [l for l in outer.body if isinstance(l, ast.For)]
    pm = PT.find_all(outer, "_M_pm = self._children_param_maps[_M_i]", {"_M_i": i})
    pm_txt = pm[0][1]["_M_pm"] if pm else f"self._children_param_maps[{i}]"
    ok_map = True
    ok_call = bool(inner) and PT.match(PT.compile_pattern("_M_sub(n).items()"), inner[0].iter, {"_M_sub": sub}) is not None
    ok_set = ok_yield = False
    if inner and ok_call and ok_map and isinstance(inner[0].target, ast.Tuple):
        par, objs = norm(inner[0].target.elts[0]), norm(inner[0].target.elts[1])
        ok_set = bool(PT.find_all(inner[0], "_M_res[_M_i] = _M_objs", {"_M_res": res, "_M_i": i, "_M_objs": objs}))
        ok_yield = bool(PT.find_all(inner[0], "(yield (_E_pm(_M_par), tuple(_M_res)))", {"_E_pm": pm_txt, "_M_par": par, "_M_res": res}))
    # every entry of the child's level is yielded: nothing inside the inner loop can skip one
    if inner:
        ys = [y for y in walk_local(inner[0]) if isinstance(y, (ast.Yield, ast.YieldFrom))]
        for y in ys:
            sk = [(norm(t), p_) for t, p_ in C.guards(f, y, within=inner[0]) if not isinstance(getattr(t, "_parent", None), ast.Assert)]
            if sk:
                ctx.violation("M5", y, f"DisjointUnion.get_sub_objects yields a child's objects only under {sk}: objects that are counted (get_terms adds every entry of the "
                              "child's terms) are not generated, or the two disagree on which entries belong to the union")
    resets = [n for n in outer.body if PT.match(PT.compile_pattern("_M_res[_M_i] = [None]"), n, {"_M_res": res, "_M_i": i}) is not None]
    ok_reset = bool(resets) and bool(inner) and outer.body.index(resets[-1]) > outer.body.index(inner[0])
    if ok_map and ok_set and ok_yield and ok_reset and ok_call:
        ctx.ok("M5", "union sub-objects: child i's objects at slot i (its own parameter map), every other slot [None], slot reset afterwards")
    else:
        bad = [w for w, o in (("parameter map of child i", ok_map), ("objects placed at slot i", ok_set), ("(map_i(param), tuple(slots)) yielded", ok_yield),
                              ("slot reset to [None] after child i", ok_reset), ("child i asked at size n", ok_call)) if not o]
        ctx.violation("M5", outer, "DisjointUnion.get_sub_objects: " + ", ".join(bad) + " no longer holds: objects of one child are generated together with another's or under the wrong parameters")
    cp = P.need_method("CartesianProduct", "get_sub_objects", own=True)
    okc = bool(PT.find_all(cp.node, "utils.compositions(n, len(subobjs), self.min_sizes, self.max_sizes)"))
    lp = [l for l in walk_local(cp.node) if isinstance(l, ast.For) and isinstance(l.iter, ast.Call) and norm(l.iter.func) == "self.params_value_pairs_combinations"]
    okp = bool(lp) and len(lp[0].iter.args) == 2 and norm(lp[0].iter.args[1]) == "subobjs"
    if okc and okp:
        ctx.ok("M5", "product sub-objects: one list per child for every size composition")
    else:
        ctx.violation("M5", cp.node, "CartesianProduct.get_sub_objects must range over compositions(n, len(subobjs), min_sizes, max_sizes) and pair sizes with providers",
                      construct="CartesianProduct.get_sub_objects")


def m4b_verification_levels(ctx) -> None:
    """VerificationRule fills its two caches level by level: the level computed in each
    iteration of `while n >= len(cache)` is len(cache), whatever n was asked for."""
    from ..core import pattern as PT
    P = ctx.P
    for mname, cache, getter in (("_ensure_level", "terms_cache", "get_terms"), ("_ensure_level_objects", "objects_cache", "get_objects")):
        m = P.need_method("VerificationRule", mname, own=True)
        f = m.node
        ctx.analysed(m)
        loops = [w for w in walk_local(f) if isinstance(w, ast.While)]
        calls = [c for c in walk_local(f) if isinstance(c, ast.Call) and norm(c.func) == f"self.strategy.{getter}"]
        apps = [c for c in walk_local(f) if isinstance(c, ast.Call) and norm(c.func) == f"self.{cache}.append"]
        ok_shape = len(loops) == 1 and len(calls) == 1 and len(apps) == 1 and norm(loops[0].test) in (f"n >= len(self.{cache})", f"len(self.{cache}) <= n")
        if not ok_shape:
            ctx.violation("M4", f, f"VerificationRule.{mname} must append one level per iteration of `while n >= len(self.{cache})`, computed by strategy.{getter}",
                          construct=f"VerificationRule.{mname} shape")
            continue
        args = [norm(a) for a in calls[0].args]
        if len(args) == 2 and args[0] == "self.comb_class" and _is_first_missing_level(f, loops[0], calls[0].args[1], cache, apps[0]):
            ctx.ok("M4", f"VerificationRule.{mname}: the level computed is len(self.{cache}), the first missing one")
        else:
            ctx.violation("M4", calls[0], f"VerificationRule.{mname} computes level `{args[1] if len(args) > 1 else '?'}` and appends it as level len(self.{cache}): when a larger "
                          "size is requested before a smaller one the cache holds the wrong level at every index below it")


def m6_product_enumeration(ctx) -> None:
    """Counting (get_terms) and generation (get_sub_objects) of a product run over the same
    index set: every composition utils.compositions(n, k, self.min_sizes, self.max_sizes)
    gives, and for each of them every combination of the providers' entries, keyed by
    _new_param of the children's parameters.  S0 proves the summary and completeness of
    utils.compositions; a hand-made list of compositions in one of the two has no such proof
    and makes the generated objects disagree with the counts."""
    from ..core import pattern as PT
    P = ctx.P
    for mname, pidx in (("get_terms", 1), ("get_sub_objects", 0)):
        m = P.need_method("CartesianProduct", mname, own=True)
        f = m.node
        ctx.analysed(m)
        ps = [p for p in D.param_names(f) if p != "self"]
        prov, n = ps[pidx], ps[-1]
        pat = (f"for _M_sizes in utils.compositions({n}, len({prov}), self.min_sizes, self.max_sizes):\n"
               f"    for _M_pairs in self.params_value_pairs_combinations(_M_sizes, {prov}):\n"
               f"        pass")
        loops = [l for l in walk_local(f) if isinstance(l, ast.For)]
        outer = [l for l in f.body if isinstance(l, ast.For)]
        hit = [l for l in outer if PT.match(PT.compile_pattern(pat.replace("        pass", "        _A_")), l) is not None] if False else []
        ok = False
        for l in outer:
            it = l.iter
            if isinstance(it, ast.Name):
                ds = [d for d in D.definitions(f).get(it.id, []) if d[1] is not None]
                if len(ds) != 1:
                    ctx.violation("M6", l, f"CartesianProduct.{mname} takes its size compositions from `{it.id}`, which is bound in {len(ds)} places: every branch must be "
                                  f"utils.compositions({n}, len({prov}), self.min_sizes, self.max_sizes), the only enumeration whose completeness is established (S0)")
                    ok = None
                    continue
                it = ds[0][1]
            if PT.match(PT.compile_pattern(f"utils.compositions({n}, len({prov}), self.min_sizes, self.max_sizes)"), it) is None \
                    and PT.match(PT.compile_pattern(f"compositions({n}, len({prov}), self.min_sizes, self.max_sizes)"), it) is None:
                continue
            if not isinstance(l.target, ast.Name):
                continue
            sz = l.target.id
            inner = [x for x in l.body if isinstance(x, ast.For) and PT.match(PT.compile_pattern(f"self.params_value_pairs_combinations({sz}, {prov})"), x.iter) is not None]
            if inner and not C.guards(f, inner[0], within=l):
                pairs = norm(inner[0].target)
                if PT.find_all(inner[0], f"self._new_param(*(_M_p for _M_p, _M_o in {pairs}))"):
                    ok = True
        if ok:
            ctx.ok("M6", f"CartesianProduct.{mname}: all compositions x all provider combinations, keyed by _new_param of the children's parameters")
        elif ok is False:
            ctx.violation("M6", f, f"CartesianProduct.{mname} must run over utils.compositions({n}, len({prov}), self.min_sizes, self.max_sizes) and, for each, over "
                          f"params_value_pairs_combinations(sizes, {prov}), keyed by self._new_param(...)", construct=f"CartesianProduct.{mname} enumeration")


def m7_equivalence_predicate(ctx) -> None:
    """`Rule.is_equivalence` is the conjunction of three tests -- the strategy says its rules can
    be equivalences, exactly one child is not empty, the constructor can be an equivalence -- and
    `non_empty_children` filters `self.children` itself, position by position (a child that
    occurs twice counts twice: S -> X x X is not an equivalence)."""
    P = ctx.P
    m = P.need_method("Rule", "is_equivalence", own=True)
    f = m.node
    ctx.analysed(m)
    rets = [r for r in C.returns_of(f) if r.value is not None]
    if not rets:
        raise AnalysisError("M7: Rule.is_equivalence no longer answers")
    # the conjunction may be written as a chain of early exits: `if not A: return <false>` ... `return Z` is `A and ... and Z`
    rets = sorted(rets, key=lambda r_: r_.lineno)
    final = rets[-1]
    conj_nodes = []
    for r in rets[:-1]:
        gs = C.flatten_guards(C.guards(f, r))
        rv = D.expanded(f, r.value)
        falsy = (isinstance(rv, ast.Constant) and rv.value is False) or any((not p_) and norm(D.expanded(f, t)) == norm(rv) for t, p_ in gs) \
            or any(p_ and isinstance(t, ast.UnaryOp) and isinstance(t.op, ast.Not) and norm(D.expanded(f, t.operand)) == norm(rv) for t, p_ in gs)
        if not falsy or not gs:
            raise AnalysisError("M7: Rule.is_equivalence has an exit the analysis does not read as a failed conjunct")
        for t, p_ in gs:
            t = D.expanded(f, t)
            if p_ and isinstance(t, ast.UnaryOp) and isinstance(t.op, ast.Not):
                conj_nodes.append(t.operand)
            elif p_ and isinstance(t, ast.Compare) and len(t.ops) == 1 and isinstance(t.ops[0], ast.NotEq):
                conj_nodes.append(ast.Compare(left=t.left, ops=[ast.Eq()], comparators=t.comparators))
            else:
                conj_nodes.append(t)        # a failed conjunct (negative) or one an earlier exit has already established (positive)
    v = D.expanded(f, final.value)
    conj_nodes += list(v.values) if isinstance(v, ast.BoolOp) and isinstance(v.op, ast.And) else [v]
    conj = [norm(x) for x in conj_nodes]
    rets = [final]
    need = {"self.strategy.can_be_equivalent()": "the strategy's own veto (a size-shifting one-child strategy is no equivalence)",
            "self.constructor.can_be_equivalent()": "the constructor's veto (two statistics poured into one)"}
    for t, why in need.items():
        if t in conj:
            ctx.ok("M7", f"Rule.is_equivalence asks `{t}`")
        else:
            ctx.violation("M7", rets[0], f"Rule.is_equivalence no longer asks `{t}` -- {why}: a rule that is not an equivalence is folded into equivalence paths, matched "
                          "against equivalence steps and keyed EQUIV")
    if any("len(self.non_empty_children(" in t and t.endswith("== 1") for t in conj):
        ctx.ok("M7", "Rule.is_equivalence requires exactly one non-empty child")
    else:
        ctx.violation("M7", rets[0], "Rule.is_equivalence must require exactly one non-empty child")
    ne = P.need_method("AbstractRule", "non_empty_children", own=True)
    ctx.analysed(ne)
    gens = [g for g in ast.walk(ne.node) if isinstance(g, (ast.GeneratorExp, ast.ListComp)) and any(isinstance(x, ast.Call) and norm(x.func) == "is_empty" for x in ast.walk(g))]
    if not gens:
        raise AnalysisError("M7: AbstractRule.non_empty_children no longer filters with is_empty in a comprehension")
    for g in gens:
        it = norm(D.expanded(ne.node, g.generators[0].iter))
        if it == "self.children" and len(g.generators) == 1:
            ctx.ok("M7", "non_empty_children filters self.children itself, with multiplicity")
        else:
            ctx.violation("M7", g, f"non_empty_children runs over `{it[:50]}` instead of self.children: a child that occurs twice is counted once, so S -> X x X has one "
                          "non-empty child, is keyed and extracted as the equivalence S -> (X,), a rule nobody made")


def m2b_reverse_rule_children(ctx) -> None:
    """A reverse rule counts the child at position idx from the parent and the *other positions*:
    its children are `(parent, children[:idx], children[idx+1:])` -- removed by position.  Removed
    by value, a product with a repeated factor loses both copies (and every shift after it moves)."""
    P = ctx.P
    m = P.need_method("ReverseRule", "__init__", own=True)
    f = m.node
    ctx.analysed(m)
    ps = m.params()[1:]
    if len(ps) < 2:
        raise AnalysisError("M2: ReverseRule.__init__(rule, idx) expected")
    r, i = ps[0], ps[1]
    sup = [c for c in walk_local(f) if isinstance(c, ast.Call) and isinstance(c.func, ast.Attribute) and c.func.attr == "__init__" and isinstance(c.func.value, ast.Call)
           and norm(c.func.value.func) == "super"]
    if not sup or len(sup[0].args) < 3:
        raise AnalysisError("M2: ReverseRule.__init__ no longer passes (strategy, class, children) to the base class")
    a1 = norm(D.expanded(f, sup[0].args[1]))
    a2 = norm(D.expanded(f, sup[0].args[2]))
    # a slice of a tuple is a tuple: tuple(xs[a:b]) says no more than xs[a:b]
    import re as _re
    a2 = _re.sub(r"tuple\((" + _re.escape(r) + r"\.children\[[^\]]*\])\)", r"\1", a2)
    if a1 == f"{r}.children[{i}]":
        ctx.ok("M2", "the reverse rule is a rule for the child at position idx")
    else:
        ctx.violation("M2", sup[0], f"the class of a reverse rule must be `{r}.children[{i}]`, found `{a1[:50]}`")
    good = (f"({r}.comb_class, *{r}.children[:{i}], *{r}.children[{i} + 1:])", f"({r}.comb_class,) + {r}.children[:{i}] + {r}.children[{i} + 1:]")
    if a2 in good:
        ctx.ok("M2", "the children of a reverse rule are the parent and the other positions, in order")
    elif " for " in a2 and ("!=" in a2 or "==" in a2 or " is not " in a2) and "enumerate(" not in a2:
        ctx.violation("M2", sup[0], f"the children of the reverse rule are chosen by comparing classes (`{a2[:80]}`): a sibling equal to the counted child (a repeated factor) is "
                      "dropped with it, and the shifts / parameter dictionaries, which are by position, no longer line up")
    elif "enumerate(" in a2 and f"!= {i}" in a2:
        ctx.ok("M2", "the children of a reverse rule are the parent and the other positions, in order")
    else:
        ctx.violation("M2", sup[0], f"the children of a reverse rule must be the parent followed by the other positions in order, found `{a2[:80]}`")
