"""
Rules X1-X5 for C19 (expanding verified classes).  DESIGN.md section 4 (C19).
"""
from __future__ import annotations

import ast
from typing import List, Optional, Set

from ..core import control as C
from ..core import dataflow as D
from ..core.program import AnalysisError, AnchorError, is_self_attr, norm, parent, walk_local
from . import provenance as PV

SPEC = "CombinatorialSpecification"
COPIERS = ("copy", "deepcopy", "copy.copy", "copy.deepcopy")


def x1_exit_condition(ctx) -> None:
    P = ctx.P
    m = P.need_method(SPEC, "expand_verified", own=True)
    f = m.node
    ctx.analysed(m)
    rets = [r for r in C.returns_of(f) if r.value is not None]
    if not rets:
        ctx.violation("X1", f, "expand_verified returns no specification", construct=f"{SPEC}.expand_verified returns")
    for r in rets:
        v = r.value
        h = None
        for a in _anc(r, f):
            if isinstance(a, ast.ExceptHandler):
                h = a
                break
        ok = False
        if isinstance(v, ast.Name) and h is not None and C.caught(C.handler_names(h), "StopIteration"):
            tr = parent(h)
            body_txt = " ".join(norm(s) for s in tr.body)
            if f"next({v.id}.unexpanded_verified_classes())" in body_txt:
                loops = C.enclosing_loops(f, r)
                if loops and isinstance(loops[-1], ast.While):
                    ok = True
        if ok:
            ctx.ok("X1", f"expand_verified returns `{norm(v)}` only when {norm(v)}.unexpanded_verified_classes() is exhausted")
        else:
            ctx.violation("X1", r, f"expand_verified returns `{norm(v)}` on a path where that very specification has not been found free of "
                          "expandable verified classes (the classes offered by a freshly expanded pack are never looked at)")
    # inside the loop everything is read from the specification being re-examined, never from the original
    loops = [w for w in walk_local(f) if isinstance(w, ast.While)]
    for w in loops:
        uses = [x for x in ast.walk(w) if isinstance(x, ast.Name) and x.id == "self"]
        if uses:
            ctx.violation("X1", C.stmt_of(uses[0]), f"`{norm(C.stmt_of(uses[0]))[:70]}` reads the *original* specification inside the expansion loop; the class being "
                          "expanded may only exist in the specification produced by an earlier expansion")
        else:
            ctx.ok("X1", "the expansion loop reads only the specification it re-examines")
    # progress: the specification re-examined is the one just produced
    assigns = [n for n in walk_local(f) if isinstance(n, ast.Assign) and isinstance(n.value, ast.Call)
               and isinstance(n.value.func, ast.Attribute) and n.value.func.attr == "expand_comb_class"]
    if not assigns:
        ctx.violation("X1", f, "expand_verified no longer expands anything", construct=f"{SPEC}.expand_verified expansion")
    for a in assigns:
        tgt = norm(a.targets[0])
        recv = norm(a.value.func.value)
        if tgt == recv:
            ctx.ok("X1", f"each expansion replaces `{tgt}` by the expanded specification")
        else:
            ctx.violation("X1", a, f"the expansion of `{recv}` is stored in `{tgt}`: earlier expansions are thrown away or never re-examined")
    # what counts as expandable
    u = P.need_method(SPEC, "unexpanded_verified_classes", own=True)
    g = u.node
    ctx.analysed(u)
    ys = [y for y in C.yields_of(g) if isinstance(y, ast.Yield)]
    conts = [n for n in walk_local(g) if isinstance(n, ast.Continue)]
    good = bool(ys)
    for y in ys:
        gt = C.guard_texts(g, y)
        if not any(p and t.startswith("isinstance(") and "VerificationRule" in t for t, p in gt):
            good = False
    for c in conts:
        h = [a for a in _anc(c, g) if isinstance(a, ast.ExceptHandler)]
        if not (h and "InvalidOperationError" in C.handler_names(h[0])):
            good = False
    loops = [l for l in walk_local(g) if isinstance(l, ast.For) and norm(l.iter) in ("self.rules_dict.items()", "self.rules_dict.values()", "self")]
    if good and loops:
        ctx.ok("X1", "unexpanded_verified_classes yields every verified class whose strategy offers a pack (only InvalidOperationError excludes one)")
    else:
        ctx.violation("X1", g, "unexpanded_verified_classes must yield every class of the specification whose VerificationRule offers a pack "
                      "and skip a class only when pack() raises InvalidOperationError", construct=f"{SPEC}.unexpanded_verified_classes")


def _anc(n, stop):
    from ..core.program import ancestors
    for a in ancestors(n):
        if a is stop:
            return
        yield a


def _is_copied(e: ast.AST) -> bool:
    e = D.strip_casts(e)
    if isinstance(e, ast.Call) and norm(e.func) in COPIERS and len(e.args) == 1:
        return True
    if isinstance(e, ast.Call) and norm(e.func) == "map" and len(e.args) == 2 and norm(e.args[0]) in COPIERS:
        return True
    if isinstance(e, (ast.GeneratorExp, ast.ListComp)) and _is_copied(e.elt):
        return True
    if isinstance(e, ast.Call) and norm(e.func) in ("list", "tuple") and len(e.args) == 1:
        return _is_copied(e.args[0])
    # rebuilt by re-applying the strategy: a new rule object
    if isinstance(e, ast.Call) and isinstance(e.func, ast.Attribute) and e.func.attr == "strategy" and False:
        return True
    if isinstance(e, ast.Call) and isinstance(e.func, ast.Call):
        return False
    if isinstance(e, ast.Call) and norm(e.func).endswith(".strategy") is False and isinstance(e.func, ast.Attribute) and norm(e.func).endswith("strategy"):
        return True
    return False


def x2_copy_before_share(ctx) -> None:
    P = ctx.P
    m = P.need_method(SPEC, "expand_comb_class", own=True)
    f = m.node
    ctx.analysed(m)
    # the list handed to the new database
    cache_names: Set[str] = set()
    for c in walk_local(f):
        if isinstance(c, ast.Call) and norm(c.func) == "RuleDBForest":
            for k in c.keywords:
                if k.arg == "rule_cache" and isinstance(k.value, ast.Name):
                    cache_names.add(k.value.id)
    for l in walk_local(f):
        if isinstance(l, ast.For) and isinstance(l.iter, ast.Name):
            if any(isinstance(c, ast.Call) and isinstance(c.func, ast.Attribute) and c.func.attr == "add" and len(c.args) == 3 for c in ast.walk(l)):
                cache_names.add(l.iter.id)
    if not cache_names:
        raise AnalysisError("X2: cannot find the rule list that seeds the new database in expand_comb_class")
    n = 0
    handles_paths = False
    for name in sorted(cache_names):
        defs = D.definitions(f).get(name, [])
        for st, val, path, kind in defs:
            if val is None:
                continue
            if isinstance(val, (ast.List,)) and not val.elts:
                continue
            n += 1
            if _mentions_rules_dict(f, val) and not _is_copied(val):
                ctx.violation("X2", st, f"`{name}` is built from the original specification's rule objects without copying them: the new specification "
                              "re-wires (set_subrecs) and fills the caches of the original's rules")
            elif _mentions_rules_dict(f, val):
                ctx.ok("X2", f"`{name}` initialised from copies")
                if "EquivalencePathRule" not in norm(val):
                    pass
        for c in walk_local(f):
            if isinstance(c, ast.Call) and isinstance(c.func, ast.Attribute) and isinstance(c.func.value, ast.Name) and c.func.value.id == name \
                    and c.func.attr in ("append", "extend", "insert", "add") and c.args:
                n += 1
                arg = c.args[-1]
                if _is_copied(arg):
                    ctx.ok("X2", f"`{norm(c)[:60]}`: rule objects are copied before they reach the new database")
                else:
                    ctx.violation("X2", c, f"`{norm(arg)}` reaches the new rule database uncopied: the new specification shares rule objects with the original "
                                  "(set_subrecs of the new one rewires the old one)")
                gt = C.guard_texts(f, c)
                if any(p and "EquivalencePathRule" in t for t, p in gt) and "rules" in norm(arg):
                    handles_paths = True
    if handles_paths:
        ctx.ok("X2", "equivalence paths are unpacked: the inner rules (copied) seed the database, not the path object")
    else:
        ctx.violation("X2", f, "equivalence-path rules of the original are not unpacked into their inner rules when the new database is seeded: the hidden "
                      "classes of a path have no rule in the new universe (expansion fails or yields an unreachable rule)",
                      construct=f"{SPEC}.expand_comb_class equivalence paths")
    if n < 2:
        ctx.floor("X2", 99)


def _mentions_rules_dict(f, e) -> bool:
    return any(is_self_attr(n, "rules_dict") or (isinstance(n, ast.Name) and n.id == "self" and isinstance(parent(n), ast.comprehension))
               for n in ast.walk(e))


def x3_same_root_and_seed(ctx) -> None:
    P = ctx.P
    m = P.need_method(SPEC, "expand_comb_class", own=True)
    f = m.node
    cc_p = m.params()[1]
    # both the inner searcher and the new specification are rooted at self.root
    for callee in ("CombinatorialSpecificationSearcher", "CombinatorialSpecification"):
        calls = [c for c in walk_local(f) if isinstance(c, ast.Call) and norm(c.func) == callee]
        if not calls:
            ctx.violation("X3", f, f"expand_comb_class no longer builds a {callee}", construct=f"{SPEC}.expand_comb_class {callee}")
        for c in calls:
            if c.args and norm(c.args[0]) == "self.root":
                ctx.ok("X3", f"{callee}(self.root, ...): same start class as the original")
            else:
                ctx.violation("X3", c, f"{callee} is rooted at `{norm(c.args[0]) if c.args else '?'}` instead of self.root: the result is not a specification for the same start class")
    # the class being expanded is excluded from the seed
    excluded = False
    for n in walk_local(f):
        if isinstance(n, ast.Compare) and len(n.ops) == 1 and isinstance(n.ops[0], ast.NotEq):
            if {norm(n.left), norm(n.comparators[0])} >= {cc_p}:
                excluded = True
    if excluded:
        ctx.ok("X3", f"the rule of the class being expanded ({cc_p}) is left out of the seed")
    else:
        ctx.violation("X3", f, "the rule of the class being expanded is seeded too: the class stays verified by its old rule and is never expanded",
                      construct=f"{SPEC}.expand_comb_class excluded class")
    # it is the one queued and verified, on a fresh queue
    q_add = [c for c in walk_local(f) if isinstance(c, ast.Call) and norm(c.func).endswith("classqueue.add") and c.args]
    ok_q = False
    for c in q_add:
        r = PV.rv(f, c.args[0])
        if isinstance(r, ast.Call) and norm(r.func).endswith("classdb.get_label") and r.args and norm(r.args[0]) == cc_p:
            ok_q = True
    fresh_q = any(isinstance(n, ast.Assign) and norm(n.targets[0]).endswith(".classqueue") and isinstance(n.value, ast.Call)
                  and norm(n.value.func) == "DefaultQueue" for n in walk_local(f))
    if ok_q and fresh_q:
        ctx.ok("X3", "the search restarts from a fresh queue holding only the class being expanded")
    else:
        ctx.violation("X3", f, "the inner search must start from a fresh queue that holds the label of the class being expanded",
                      construct=f"{SPEC}.expand_comb_class queue")
    # the reverse flag is switched on only after seeding
    created = [n for n in walk_local(f) if isinstance(n, (ast.Assign, ast.AnnAssign)) and isinstance(getattr(n, "value", None), ast.Call)
               and norm(n.value.func) == "RuleDBForest"]
    dbname = None
    if created:
        t = created[0].targets[0] if isinstance(created[0], ast.Assign) else created[0].target
        dbname = norm(t)
    sets = [n for n in walk_local(f) if isinstance(n, ast.Assign) and dbname and norm(n.targets[0]) == f"{dbname}.reverse"]
    seeds = [l for l in walk_local(f) if isinstance(l, ast.For) and dbname and any(isinstance(c, ast.Call) and norm(c.func) == f"{dbname}.add" for c in ast.walk(l))]
    ok_rev = bool(sets and seeds and created)
    if ok_rev:
        kw = {k.arg: norm(k.value) for k in created[0].value.keywords}
        ok_rev = kw.get("reverse") == "False" and all(C.followed_by(f, seeds[0], s2) for s2 in sets) and all(norm(s2.value) == m.params()[3] for s2 in sets)
    if ok_rev:
        ctx.ok("X3", "the old rules are seeded without their reverses; the reverse option applies to the expansion only")
    else:
        ctx.violation("X3", f, "the database must be seeded with reverse=False and switched to the requested `reverse` only after seeding",
                      construct=f"{SPEC}.expand_comb_class reverse flag")
    # pass-through of continue_expanding_verified
    css = [c for c in walk_local(f) if isinstance(c, ast.Call) and norm(c.func) == "CombinatorialSpecificationSearcher"]
    if css and any(k.arg == "expand_verified" and norm(k.value) == m.params()[4] for k in css[0].keywords):
        ctx.ok("X3", "continue_expanding_verified is handed to the inner searcher as expand_verified")
    else:
        ctx.violation("X3", f, "continue_expanding_verified must reach the inner searcher's expand_verified", construct=f"{SPEC}.expand_comb_class expand_verified flag")


def x4_verified_stop_respects_flag(ctx) -> None:
    """With expand_verified on, a verified class must keep being expanded: the only place
    that drops work for verified classes is the skip in _expand_classes_for, and every call
    that stops a label because it is verified is under `not self.expand_verified`."""
    P = ctx.P
    S = "CombinatorialSpecificationSearcher"
    cls = P.need_class(S)
    n = 0
    for m in cls.methods.values():
        f = m.node
        for c in walk_local(f):
            if isinstance(c, ast.Call) and isinstance(c.func, ast.Attribute) and c.func.attr in ("set_verified",) \
                    and "classqueue" in norm(c.func.value):
                n += 1
                gt = C.guard_texts(f, c)
                if ("self.expand_verified", False) in gt:
                    ctx.ok("X4", f"{m.qualname}: verified labels are stopped only when expand_verified is off")
                else:
                    ctx.violation("X4", c, "a verified label is taken out of the queue regardless of self.expand_verified: the retry of expand_verified "
                                  "that relies on expanding verified classes can no longer succeed")
            if isinstance(c, ast.Call) and isinstance(c.func, ast.Attribute) and c.func.attr == "set_stop_yielding" and "classqueue" in norm(c.func.value):
                gt = C.guard_texts(f, c)
                if any("is_verified" in t and p for t, p in gt) and ("self.expand_verified", False) not in gt:
                    n += 1
                    ctx.violation("X4", c, "a label is stopped because it is verified, regardless of self.expand_verified")
    m = P.need_method(S, "_expand_classes_for", own=True)
    from ..core import pattern as PT
    loops = [l for l in walk_local(m.node) if isinstance(l, ast.For) and norm(l.iter) == "self.classqueue" and isinstance(l.target, ast.Tuple)]
    lab = norm(loops[0].target.elts[0]) if loops else "label"
    if PT.find_all(m.node, "self.expand_verified or not self.ruledb.is_verified(_M_l)", {"_M_l": lab}) or \
            PT.find_all(m.node, "not self.ruledb.is_verified(_M_l) or self.expand_verified", {"_M_l": lab}):
        ctx.ok("X4", "_expand_classes_for expands verified classes when expand_verified is on")
    else:
        ctx.violation("X4", m.node, "_expand_classes_for must expand a packet when `self.expand_verified or not is_verified(label)`", construct=f"{S}._expand_classes_for verified skip")
    tv = P.need_method(S, "try_verify", own=True)
    # try_verify must stop trying strategies once verified but must not touch the queue
    ctx.analysed(tv)


def x5_original_untouched(ctx) -> None:
    P = ctx.P
    for mname in ("expand_verified", "expand_comb_class"):
        m = P.need_method(SPEC, mname, own=True)
        bad = False
        for n in walk_local(m.node):
            hit = None
            if isinstance(n, ast.Attribute) and is_self_attr(n) and isinstance(n.ctx, (ast.Store, ast.Del)):
                hit = n
            elif isinstance(n, ast.Subscript) and isinstance(n.ctx, (ast.Store, ast.Del)) and is_self_attr(n.value):
                hit = n
            elif isinstance(n, ast.Call) and isinstance(n.func, ast.Attribute) and is_self_attr(n.func.value) \
                    and n.func.attr in ("pop", "update", "clear", "append", "remove", "popitem", "setdefault"):
                hit = n
            if hit is not None:
                bad = True
                ctx.violation("X5", C.stmt_of(hit), f"{m.qualname} modifies the original specification ({norm(hit)[:50]}): it must be left usable and unchanged")
        if not bad:
            ctx.ok("X5", f"{m.qualname} does not write to the original specification")


def x6_fallback_contract(ctx) -> None:
    """expand_verified first expands without reverse rules and, when that finds nothing, again
    with them.  The two halves of that contract live in different functions: the first attempt
    is under a handler for SpecificationNotFound, and expand_comb_class lets exactly that
    exception out when its search finds nothing (it does not turn it into another one)."""
    P = ctx.P
    ev = P.need_method(SPEC, "expand_verified", own=True)
    f = ev.node
    ctx.analysed(ev)
    calls = [c for c in walk_local(f) if isinstance(c, ast.Call) and isinstance(c.func, ast.Attribute) and c.func.attr == "expand_comb_class"]
    ecm = P.need_method(SPEC, "expand_comb_class", own=True)
    rpos = ecm.params()[1:].index("reverse") if "reverse" in ecm.params() else None

    def _rev(c):
        for k in c.keywords:
            if k.arg == "reverse":
                return k.value
        if rpos is not None and len(c.args) > rpos:
            return c.args[rpos]
        return None
    first = [c for c in calls if isinstance(_rev(c), ast.Constant) and _rev(c).value is False]
    second = [c for c in calls if isinstance(_rev(c), ast.Constant) and _rev(c).value is True]
    if not first or not second:
        ctx.violation("X6", f, "expand_verified must try reverse=False first and reverse=True as the fallback", construct=f"{SPEC}.expand_verified attempts")
        return
    h = C.catching_handler(f, first[0], "SpecificationNotFound")
    if h is not None and any(any(x is s for x in ast.walk(h)) for s in second):
        ctx.ok("X6", "the attempt without reverse rules is under a SpecificationNotFound handler that makes the attempt with them")
    else:
        ctx.violation("X6", first[0], "the first attempt (reverse=False) must be under `except SpecificationNotFound` and that handler must make the second attempt (reverse=True)")
    ec = P.need_method(SPEC, "expand_comb_class", own=True)
    g = ec.node
    ctx.analysed(ec)
    srch = [c for c in walk_local(g) if isinstance(c, ast.Call) and isinstance(c.func, ast.Attribute) and c.func.attr in ("_auto_search_rules", "auto_search")]
    if not srch:
        raise AnalysisError("X6: expand_comb_class no longer searches through _auto_search_rules")
    bad = False
    for tr, hh, names in C.handlers_around(g, srch[0]):
        if C.caught(names, "SpecificationNotFound"):
            rs = [r for r in ast.walk(hh) if isinstance(r, ast.Raise)]
            lets_out = any(r.exc is None or "SpecificationNotFound" in norm(r.exc) for r in rs)
            if not lets_out:
                bad = True
                what = norm(rs[0].exc) if rs and rs[0].exc is not None else "nothing (the exception is swallowed)"
                ctx.violation("X6", hh, f"expand_comb_class turns a fruitless search into {what[:60]}: expand_verified only falls back to reverse rules on SpecificationNotFound, "
                              "so a verified class that needs them now aborts the whole expansion")
    if not bad:
        ctx.ok("X6", "a fruitless search leaves expand_comb_class as SpecificationNotFound")
    # ... and what the search itself raises when the universe is exhausted is what that handler is for
    sm = P.find_method(P.need_class("CombinatorialSpecificationSearcher"), srch[0].func.attr)
    if sm is None:
        raise AnalysisError("X6: the search called by expand_comb_class is not a method of the searcher")
    ctx.analysed(sm)
    final = [r for r in sm.node.body if isinstance(r, ast.Raise) and r.exc is not None]
    if not final:
        raise AnalysisError(f"X6: {sm.qualname} no longer ends by raising when the queue is exhausted")
    hs = C.handlers_around(g, srch[0])
    for r in final:
        exc = norm(r.exc.func if isinstance(r.exc, ast.Call) else r.exc).split(".")[-1]
        k = P.classes.get(exc)
        names = ({c.name for c in P.mro(k)} if k is not None else {exc}) | {"Exception", "BaseException", "*"}
        caught = set()
        for _t, _h, hn in hs:
            caught |= {n_.split(".")[-1] for n_ in hn}
        if caught & names:
            ctx.ok("X6", f"an exhausted universe ends the search with {exc}, which expand_comb_class catches")
        else:
            ctx.violation("X6", r, f"{sm.qualname} ends an exhausted universe with {exc}, but expand_comb_class only catches {sorted(caught) or 'nothing'} around the search: the "
                          "failure of the forward-only attempt escapes from expand_verified and the attempt with reverse rules is never made")


def x7_pack_refusal_is_what_is_caught(ctx) -> None:
    """`unexpanded_verified_classes` asks every verified class for a pack and skips the ones
    that refuse; the refusal it recognises must be the one the library's default
    `VerificationStrategy.pack` (inherited by every strategy that offers none) signals."""
    P = ctx.P
    u = P.need_method(SPEC, "unexpanded_verified_classes", own=True)
    ctx.analysed(u)
    caught: Set[str] = set()
    for t in walk_local(u.node):
        if isinstance(t, ast.Try) and any(isinstance(c, ast.Call) and norm(c.func).endswith(".pack") for s_ in t.body for c in ast.walk(s_)):
            for h in t.handlers:
                if h.type is None:
                    caught.add("BaseException")
                else:
                    for x in (h.type.elts if isinstance(h.type, ast.Tuple) else [h.type]):
                        caught.add(norm(x).split(".")[-1])
    if not caught:
        ctx.violation("X7", u.node, "unexpanded_verified_classes no longer asks rule.pack() under a handler", construct=f"{SPEC}.unexpanded_verified_classes handler")
        return
    d = P.need_method("VerificationStrategy", "pack", own=True)
    ctx.analysed(d)
    raised = {norm(r.exc.func if isinstance(r.exc, ast.Call) else r.exc).split(".")[-1] for r in C.raises_of(d.node) if r.exc is not None}
    if not raised:
        ctx.violation("X7", d.node, "the default VerificationStrategy.pack no longer refuses by raising", construct="VerificationStrategy.pack refusal")
        return
    sup = {"InvalidOperationError": {"Exception", "BaseException"}, "NotImplementedError": {"RuntimeError", "Exception", "BaseException"}}
    missing = [r for r in raised if r not in caught and not (sup.get(r, {"Exception", "BaseException"}) & caught)]
    if missing:
        ctx.violation("X7", d.node, f"the default VerificationStrategy.pack refuses with {sorted(raised)}, but unexpanded_verified_classes only skips on {sorted(caught)}: a verified "
                      "class whose strategy offers no pack makes expand_verified fail instead of being left as it is", construct="VerificationStrategy.pack refusal")
    else:
        ctx.ok("X7", f"a strategy without a pack refuses with {sorted(raised)}, which unexpanded_verified_classes skips")


def x8_cache_filled_before_the_database_is_made(ctx) -> None:
    """`RuleDBForest(rule_cache=xs)` takes a snapshot of xs when it is constructed
    (`tuple(rule_cache)`): in expand_comb_class the database is made *after* the list of the
    specification's rules has been filled."""
    P = ctx.P
    m = P.need_method(SPEC, "expand_comb_class", own=True)
    f = m.node
    ctx.analysed(m)
    mk = [c for c in walk_local(f) if isinstance(c, ast.Call) and norm(c.func) == "RuleDBForest"]
    if not mk:
        raise AnalysisError("X8: expand_comb_class no longer makes a RuleDBForest")
    init = P.need_method("RuleDBForest", "__init__", own=True)
    snap = any(isinstance(c, ast.Call) and norm(c.func) == "tuple" and c.args and norm(c.args[0]) == "rule_cache" for c in walk_local(init.node))
    if not snap:
        ctx.ok("X8", "RuleDBForest keeps the cache it is given (no snapshot): the order does not matter")
        return
    for c in mk:
        cache = [k.value for k in c.keywords if k.arg == "rule_cache"]
        if not cache or not isinstance(cache[0], ast.Name):
            continue
        nm = cache[0].id
        fills = [x for x in walk_local(f) if isinstance(x, ast.Call) and isinstance(x.func, ast.Attribute) and isinstance(x.func.value, ast.Name) and x.func.value.id == nm
                 and x.func.attr in ("append", "extend", "add", "update", "insert")]
        late = [x for x in fills if x.lineno > c.lineno]
        if late:
            ctx.violation("X8", c, f"the forest database is made (`{norm(c)[:50]}`) before `{nm}` is filled (`{norm(late[0])[:40]}` comes later): RuleDBForest copies the cache when "
                          "it is constructed, so it starts with an empty cache and cannot find the rules that the expansion pack cannot make again")
        else:
            ctx.ok("X8", f"the forest database is made after `{nm}` has been filled")
